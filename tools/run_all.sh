#!/bin/sh
# runs every claimed check (tier $1, default quick) in parallel, prints one line each; validates evidence
cd "$(dirname "$0")/.." ; T=${1:-quick}; ./setup.sh >/dev/null
for p in C01 C02 C03 C04 C05 C06 C07 C08 C09 C10 C11 C12 C13 C14 C15 C16 C17 C18 C19 C20; do
  ( ./check $p --tier $T > /tmp/vf_$p.log 2>&1; echo "$p exit=$? $(grep -E "^$p \[" /tmp/vf_$p.log | cut -c1-200)" ) &
done; wait
.venv/bin/python - <<'PY'
import json, glob, jsonschema
sc = json.load(open('/root/.vp/EVIDENCE.schema.json'))
for f in sorted(glob.glob('evidence/*.json')):
    try: jsonschema.validate(json.load(open(f)), sc)
    except Exception as e: print('INVALID', f, str(e)[:200])
print('evidence files:', len(glob.glob('evidence/*.json')))
PY
