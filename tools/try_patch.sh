#!/bin/sh
# usage: tools/try_patch.sh <patch-file> [PROP...]  -- applies the patch to /repo, runs the quick checks (all by default) in parallel, prints every check that
# exits non-zero, reports a violation, a checker fault or an undecided contract; then reverts.  Evidence files are restored from git afterwards.
P=$1; shift; PROPS=${@:-C01 C02 C03 C04 C05 C06 C07 C08 C09 C10 C11 C12 C13 C14 C15 C16 C17 C18 C19 C20}
cd /verif
git -C /repo apply "$P" || { echo "PATCH DOES NOT APPLY: $P"; exit 2; }
for p in $PROPS; do ( ./check $p --tier quick > /tmp/tp_$p.log 2>&1; echo "$p exit=$?" > /tmp/tp_$p.exit ) & done; wait
git -C /repo checkout -- . ; git -C /repo clean -fdq stix2
for p in $PROPS; do
  e=$(cat /tmp/tp_$p.exit); s=$(grep -E "^$p \[" /tmp/tp_$p.log | sed 's/.*violations=/violations=/')
  case "$e $s" in *"exit=0 violations=0 known="*"undecided=0 faults=0"*) ;; *) echo "  $e $s"; grep -E "^VIOLATION|^  [a-zA-Z_.-]+#|undecided:|CHECKER-FAULT" /tmp/tp_$p.log | cut -c1-330 | head -6;; esac
done
git checkout -q -- evidence 2>/dev/null; rm -f replays/*.json
