#!/usr/bin/env python3
"""Confirms a seeded change in a scratch worktree (demo passes without / fails with the patch, pinned suite unchanged) and runs the
given property checks against it in /repo (apply, run, undo).  Writes seeded/<id>/meta.json.
usage: tools/eval_seed.py <seed-id> <PROP> [<PROP>...]   [--skip-tests]"""
import json, os, subprocess, sys, xml.etree.ElementTree as ET
ROOT = os.path.dirname(os.path.dirname(os.path.abspath(__file__)))
sid = sys.argv[1]; props = [a for a in sys.argv[2:] if not a.startswith('--')]; skip_tests = '--skip-tests' in sys.argv
d = os.path.join(ROOT, 'seeded', sid); patch = os.path.join(d, 'patch.diff')
WT = '/tmp/seedcheck'
def sh(cmd, **kw): return subprocess.run(cmd, shell=True, capture_output=True, text=True, **kw)
if not os.path.isdir(WT): sh(f'git -C /repo worktree add -q --detach {WT} HEAD')
sh(f'git -C {WT} checkout -q --detach $(git -C /repo rev-parse HEAD) && git -C {WT} checkout -- . && git -C {WT} clean -fdq')
env = dict(os.environ, PYTHONPATH=WT, PYTHONDONTWRITEBYTECODE='1')
meta = {'seed': sid, 'repo_head': sh('git -C /repo rev-parse --short HEAD').stdout.strip()}
try: old_meta = json.load(open(os.path.join(d, 'meta.json')))
except Exception: old_meta = {}
if skip_tests and old_meta.get('suite_with_patch'):
    meta['suite_with_patch'] = old_meta['suite_with_patch']; meta['suite_run_at_repo_head'] = old_meta.get('suite_run_at_repo_head') or old_meta.get('repo_head')
r0 = subprocess.run(['/venv/bin/python', os.path.join(d, 'demo.py')], cwd=WT, env=env, capture_output=True, text=True)
meta['demo_without_patch_exit'] = r0.returncode
ap = sh(f'git -C {WT} apply {patch}')
meta['patch_applies'] = ap.returncode == 0
if ap.returncode != 0: meta['patch_error'] = ap.stderr[-300:]
r1 = subprocess.run(['/venv/bin/python', os.path.join(d, 'demo.py')], cwd=WT, env=env, capture_output=True, text=True)
meta['demo_with_patch_exit'] = r1.returncode; meta['demo_with_patch_output'] = (r1.stdout + r1.stderr)[-400:]
if not skip_tests and meta['patch_applies']:
    base = json.load(open('/root/.vp/BASELINE.json'))
    jx = '/tmp/seedcheck.junit.xml'
    subprocess.run(f'cd {WT} && /venv/bin/python -m pytest -q -p no:cacheprovider --timeout=900 --continue-on-collection-errors --junitxml={jx}', shell=True, env=env, capture_output=True, text=True)
    passed = set()
    for tc in ET.parse(jx).getroot().iter('testcase'):
        if not any(ch.tag in ('failure', 'error', 'skipped') for ch in tc): passed.add(f"{tc.get('classname')}::{tc.get('name')}")
    missing = [t for t in base['stable_pass'] if t not in passed]
    meta['suite_with_patch'] = {'stable_pass_missing': len(missing), 'missing_sample': missing[:5]}
sh(f'git -C {WT} checkout -- . && git -C {WT} clean -fdq')
meta['confirmed'] = bool(meta['patch_applies'] and meta['demo_without_patch_exit'] == 0 and meta['demo_with_patch_exit'] != 0 and (meta.get('suite_with_patch', {}).get('stable_pass_missing', 0 if skip_tests else 1) == 0))
# run the registered checks against it in /repo
res = {}
ap = sh(f'git -C /repo apply {patch}')
try:
    if ap.returncode == 0:
        for p in props:
            r = sh(f'cd {ROOT} && ./check {p} --tier quick')
            lines = [l for l in r.stdout.splitlines() if l.startswith('VIOLATION') or l.startswith('  ') and ('#' in l[:120])]
            res[p] = {'exit': r.returncode, 'violations': sum(l.startswith('VIOLATION') for l in r.stdout.splitlines()), 'first': [l[:260] for l in lines[:4]]}
    else: res['apply_error'] = ap.stderr[-300:]
finally:
    sh('git -C /repo checkout -- . ')
meta['checks'] = res
meta['detected_by'] = [p for p, v in res.items() if isinstance(v, dict) and v.get('exit') == 1]
am = os.path.join(d, 'agent_meta.json')
if os.path.exists(am):
    try:
        a = json.load(open(am)); meta['property'] = a.get('property'); meta['summary'] = a.get('summary'); meta['needs_to_manifest'] = a.get('needs_to_manifest')
    except Exception: pass
meta['what_i_ran'] = f'tools/eval_seed.py {sid} {" ".join(props)}: demo without/with patch and the pinned suite in a scratch worktree ({WT}); then git -C /repo apply, ./check <P> --tier quick, git -C /repo checkout -- .'
json.dump(meta, open(os.path.join(d, 'meta.json'), 'w'), indent=1)
print(json.dumps({k: meta[k] for k in ('seed', 'confirmed', 'demo_without_patch_exit', 'demo_with_patch_exit', 'detected_by')}), meta.get('suite_with_patch'))
for p, v in res.items(): print(' ', p, v if not isinstance(v, dict) else (v['exit'], v['first'][:2]))
