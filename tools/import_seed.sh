#!/bin/sh
# usage: tools/import_seed.sh <PROP> [first-index]  -- copies /tmp/seed/<PROP>-out/{patch,demo,meta}{k}.* to seeded/<PROP>-<n>/
P=$1; n=${2:-3}
for k in 1 2; do
  src=/tmp/seed/$P-out
  [ -f $src/patch$k.diff ] || continue
  d=/verif/seeded/$P-$n; mkdir -p $d
  cp $src/patch$k.diff $d/patch.diff; cp $src/demo$k.py $d/demo.py; cp $src/meta$k.json $d/agent_meta.json 2>/dev/null
  echo "$d"; n=$((n+1))
done
