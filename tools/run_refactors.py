#!/usr/bin/env python3
"""Runs the behaviour-preserving refactoring patches (refactors/<group>/patch<k>.diff) against the checks of the properties that depend on the files they touch,
each in its own scratch worktree of /repo HEAD with a private copy of the verif tree (--src-root), in parallel.  A patch that no longer applies is reported as such.
Any exit code other than 0, any VIOLATION line or checker fault is a false alarm to be looked at.   usage: tools/run_refactors.py [-j N]"""
import glob, json, os, shutil, subprocess, sys
from concurrent.futures import ThreadPoolExecutor
ROOT = os.path.dirname(os.path.dirname(os.path.abspath(__file__)))
MAP = [('stix2/utils.py', 'C01 C05 C06 C10 C11 C13 C15'), ('stix2/versioning.py', 'C05 C07 C13'), ('stix2/base.py', 'C02 C03 C04 C06 C08 C13 C17 C19'), ('stix2/parsing.py', 'C01 C14 C17'),
       ('stix2/properties.py', 'C02 C03 C04 C06 C19'), ('stix2/datastore/', 'C11 C12 C13 C14 C18'), ('stix2/markings/', 'C03 C07 C08 C13'), ('stix2/regist', 'C14 C19'),
       ('stix2/confidence/', 'C20'), ('stix2/custom.py', 'C19 C04'), ('stix2/patterns.py', 'C09 C10 C13'), ('stix2/pattern_visitor.py', 'C09 C10'), ('stix2/equivalence/', 'C09'),
       ('stix2/canonicalization/', 'C06 C16'), ('stix2/hashes.py', 'C02 C06'), ('stix2/serialization.py', 'C01 C02 C16'), ('stix2/v21/', 'C02 C03 C06 C08'), ('stix2/v20/', 'C02 C03')]
def sh(cmd, **kw): return subprocess.run(cmd, shell=True, capture_output=True, text=True, **kw)
def one(patch):
    tag = patch.split('refactors/')[1].replace('/', '_').replace('.diff', '')
    files = [l[6:].strip() for l in open(patch) if l.startswith('+++ b/')]
    props = sorted({p for f in files for pre, ps in MAP if f.startswith(pre) for p in ps.split()})
    WT = f'/tmp/rf/{tag}'; VC = f'/tmp/rf/{tag}.verif'
    sh(f'git -C /repo worktree remove --force {WT}'); shutil.rmtree(WT, ignore_errors=True); shutil.rmtree(VC, ignore_errors=True)
    sh(f'git -C /repo worktree add -q --detach {WT} HEAD')
    out = {'patch': tag, 'props': props, 'results': {}}
    try:
        ap = sh(f'git -C {WT} apply {patch}')
        if ap.returncode != 0:
            out['applies'] = False; return out
        out['applies'] = True
        sh(f'mkdir -p {VC} && cd {ROOT} && cp -r check setup.sh vf contracts props spec known_findings.json properties.jsonl {VC}/ && ln -s {ROOT}/.venv {VC}/.venv')
        for p in props:
            r = sh(f'cd {VC} && ./check {p} --tier quick --src-root {WT}', env=dict(os.environ, PYTHONDONTWRITEBYTECODE='1'))
            summ = next((l for l in r.stdout.splitlines() if l.startswith(p + ' [')), '')
            bad = r.returncode != 0 or 'VIOLATION' in r.stdout or 'CHECKER-FAULT' in r.stdout
            out['results'][p] = {'exit': r.returncode, 'summary': summ[-120:], 'undecided': [l.strip()[:200] for l in r.stdout.splitlines() if l.startswith('  undecided:')][:4],
                                 'alarm': [l[:300] for l in r.stdout.splitlines() if l.startswith('VIOLATION') or l.startswith('  CHECKER-FAULT') or (l.startswith('  ') and '#' in l[:150] and 'undecided' not in l[:14])][:4] if bad else []}
    finally:
        sh(f'git -C /repo worktree remove --force {WT}'); shutil.rmtree(WT, ignore_errors=True); shutil.rmtree(VC, ignore_errors=True)
    return out
os.makedirs('/tmp/rf', exist_ok=True)
j = int(sys.argv[sys.argv.index('-j') + 1]) if '-j' in sys.argv else 5
patches = sorted(glob.glob(os.path.join(ROOT, 'refactors', '*', 'patch*.diff')))
with ThreadPoolExecutor(j) as ex: res = list(ex.map(one, patches))
json.dump(res, open('/tmp/rf/results.json', 'w'), indent=1)
n_alarm = 0
for r in res:
    if not r.get('applies'): print(r['patch'], 'DOES NOT APPLY'); continue
    for p, v in r['results'].items():
        if v['alarm'] or v['exit'] != 0:
            n_alarm += 1; print(r['patch'], p, 'exit', v['exit'], v['alarm'][:3])
        elif v['undecided']: print(r['patch'], p, 'undecided:', v['undecided'][:2])
print('patches:', len(res), 'applying:', sum(bool(r.get('applies')) for r in res), 'check runs:', sum(len(r['results']) for r in res), 'alarms:', n_alarm)
