#!/usr/bin/env python3
"""prints the prompt handed to an independent sub-agent for one property (only the property text + its scratch worktree)"""
import json, sys
pid = sys.argv[1]
import glob, os
prior = []
for m in sorted(glob.glob(f'/verif/seeded/{pid}-*/agent_meta.json')):
    try: prior.append(json.load(open(m)).get('summary', ''))
    except Exception: pass
ROUND3 = len(sys.argv) > 2 and sys.argv[2] == 'round3'
p = next(json.loads(l) for l in open('/verif/properties.jsonl') if json.loads(l)['id'] == pid)
print(f"""You are helping to evaluate a verification effort by producing realistic regressions ("seeded changes") for a Python library.

Work ONLY inside the git worktree /tmp/seed/{pid} (a checkout of the library cti-python-stix2, package directory `stix2/`) and write your deliverables to /tmp/seed/{pid}-out/.  Do NOT read, list or modify anything under /verif or /repo -- your work must be independent of them.

Environment: interpreter /venv/bin/python (3.12).  The package is installed in that venv in editable mode pointing elsewhere, so ALWAYS run with the worktree first on the path: `cd /tmp/seed/{pid} && PYTHONPATH=/tmp/seed/{pid} /venv/bin/python ...` and confirm once with `-c "import stix2; print(stix2.__file__)"` that it prints a path under /tmp/seed/{pid}.  No network.
Test suite (takes ~15 s, run serially, do not use xdist): `cd /tmp/seed/{pid} && PYTHONPATH=/tmp/seed/{pid} /venv/bin/python -m pytest -q -p no:cacheprovider --timeout=900 --continue-on-collection-errors 2>&1 | tail -3`.  Baseline on the unchanged tree: 2434 passed (3 of them flaky id tests), 45 failed, 2 collection errors (taxii) -- that is normal.  "Passing the existing tests" means: the same set of tests passes as on the unchanged tree (compare the lists of failed test ids, e.g. with `-rf`).

The property that should always hold for this library:

  Title: {p['title']}
  Statement: {p['statement']}
  Quantified over: {p['quantifier']['text']}

Your task: produce a change to the library's NON-TEST source code that BREAKS this property while the package still imports and the existing test suite still passes exactly as before.  The change should look like a plausible refactoring slip or "optimisation" a real contributor could make.  It must need something specific to manifest -- an unusual input, a boundary value, a particular multi-step sequence of operations, a particular option combination, or two cooperating edits that each look fine alone -- NOT something that ordinary use of the library would expose at once.  Produce TWO different such changes if you can (different code sites / different mechanisms); one is acceptable.
{('Earlier reviewers already produced the following changes; yours must differ from them in code site AND mechanism (prefer a different source file, a less obvious function the property depends on indirectly, or an interaction between two features):' + chr(10) + chr(10).join('  - ' + x for x in prior) + chr(10)) if ROUND3 else ''}

For each change k (1, 2) deliver in /tmp/seed/{pid}-out/:
  * patch{{k}}.diff  -- `git diff` of the change against the worktree HEAD (must apply with `git apply` on a clean checkout);
  * demo{{k}}.py     -- a small standalone program (imports stix2 from PYTHONPATH) that exits 0 on the unchanged code and exits non-zero with a short message on the changed code, demonstrating the property violation through the library's public behaviour;
  * meta{{k}}.json   -- {{"property": "{pid}", "summary": "...", "needs_to_manifest": "...", "files_changed": [...], "tests": "what you ran and the pass/fail counts with the patch", "demo": "observed output without / with the patch"}}.
Verify all of this yourself: run the demo without and with the patch, run the full test suite with the patch and compare failures with the baseline.  Never use `git stash` (the stash is shared between worktrees of other people working in parallel): to undo use `git apply -R` or `git checkout -- .`.  Finally restore the worktree to a clean state (`git -C /tmp/seed/{pid} checkout -- .`) so that only the files in /tmp/seed/{pid}-out/ remain.  In your final answer, list the files you produced and one line per change saying what it breaks and what it needs in order to manifest.""")
