#!/usr/bin/env python3
"""Confirms and evaluates one seeded change entirely inside its own scratch worktree of /repo (so many can run in parallel and /repo is never touched):
demo without / with the patch, the pinned suite with the patch, then the property's quick check of each given verif tree with --src-root <worktree>.
usage: tools/eval_seed_wt.py <seed-id> [--old /tmp/verif_old] [--skip-tests] [--props C01,C02]   -> writes seeded/<id>/meta.json"""
import json, os, subprocess, sys, shutil, xml.etree.ElementTree as ET
ROOT = os.path.dirname(os.path.dirname(os.path.abspath(__file__)))
args = sys.argv[1:]; sid = args[0]
old = args[args.index('--old') + 1] if '--old' in args else None
skip_tests = '--skip-tests' in args
prop = sid.split('-')[0]
props = args[args.index('--props') + 1].split(',') if '--props' in args else [prop]
d = os.path.join(ROOT, 'seeded', sid); patch = os.path.join(d, 'patch.diff')
WT = f'/tmp/sw/{sid}'
def sh(cmd, **kw): return subprocess.run(cmd, shell=True, capture_output=True, text=True, **kw)
os.makedirs('/tmp/sw', exist_ok=True)
sh(f'git -C /repo worktree remove --force {WT}'); shutil.rmtree(WT, ignore_errors=True)
r = sh(f'git -C /repo worktree add -q --detach {WT} HEAD')
env = dict(os.environ, PYTHONPATH=WT, PYTHONDONTWRITEBYTECODE='1')
try: old_meta = json.load(open(os.path.join(d, 'meta.json')))
except Exception: old_meta = {}
meta = {'seed': sid, 'repo_head': sh('git -C /repo rev-parse --short HEAD').stdout.strip()}
try:
    r0 = subprocess.run(['/venv/bin/python', os.path.join(d, 'demo.py')], cwd=WT, env=env, capture_output=True, text=True, timeout=600)
    meta['demo_without_patch_exit'] = r0.returncode
    ap = sh(f'git -C {WT} apply {patch}')
    meta['patch_applies'] = ap.returncode == 0
    if ap.returncode != 0: meta['patch_error'] = ap.stderr[-300:]
    r1 = subprocess.run(['/venv/bin/python', os.path.join(d, 'demo.py')], cwd=WT, env=env, capture_output=True, text=True, timeout=600)
    meta['demo_with_patch_exit'] = r1.returncode; meta['demo_with_patch_output'] = (r1.stdout + r1.stderr)[-400:]
    if skip_tests and old_meta.get('suite_with_patch'):
        meta['suite_with_patch'] = old_meta['suite_with_patch']
    elif meta['patch_applies']:
        base = json.load(open('/root/.vp/BASELINE.json'))
        jx = f'/tmp/sw/{sid}.junit.xml'
        subprocess.run(f'cd {WT} && /venv/bin/python -m pytest -q -p no:cacheprovider --timeout=900 --continue-on-collection-errors --junitxml={jx}', shell=True, env=env, capture_output=True, text=True)
        passed = set()
        for tc in ET.parse(jx).getroot().iter('testcase'):
            if not any(ch.tag in ('failure', 'error', 'skipped') for ch in tc): passed.add(f"{tc.get('classname')}::{tc.get('name')}")
        missing = [t for t in base['stable_pass'] if t not in passed]
        meta['suite_with_patch'] = {'stable_pass_missing': len(missing), 'missing_sample': missing[:5]}
        os.remove(jx)
    meta['confirmed'] = bool(meta['patch_applies'] and meta['demo_without_patch_exit'] == 0 and meta['demo_with_patch_exit'] != 0 and meta.get('suite_with_patch', {}).get('stable_pass_missing', 1) == 0)
    def run_checks(vroot):
        res = {}
        for p in props:
            r = sh(f'cd {vroot} && ./check {p} --tier quick --src-root {WT}', env=dict(os.environ, PYTHONDONTWRITEBYTECODE='1'))
            lines = [l for l in r.stdout.splitlines() if l.startswith('VIOLATION') or l.startswith('  ') and ('#' in l[:160])]
            res[p] = {'exit': r.returncode, 'violations': sum(l.startswith('VIOLATION') for l in r.stdout.splitlines()), 'first': [l[:300] for l in lines[:4]],
                      'summary': next((l for l in r.stdout.splitlines() if l.startswith(p + ' [')), '')[:300]}
        return res
    if old:
        # the checks as they stood when the seeding agents were launched (first-run detection); evidence / replays written there are scratch
        ro = run_checks(old)
        meta['first_run'] = {'verif_commit': sh(f'git -C {old} rev-parse --short HEAD').stdout.strip(), 'checks': ro, 'detected_by': [p for p, v in ro.items() if v['exit'] == 1]}
    elif old_meta.get('first_run'): meta['first_run'] = old_meta['first_run']
    # the current checks run on a private copy of the verif tree so that parallel runs do not overwrite each other's evidence / replays
    VC = f'/tmp/sw/{sid}.verif'
    shutil.rmtree(VC, ignore_errors=True)
    sh(f'mkdir -p {VC} && cd {ROOT} && cp -r check setup.sh vf contracts props spec known_findings.json properties.jsonl {VC}/ && ln -s {ROOT}/.venv {VC}/.venv')
    res = run_checks(VC)
    shutil.rmtree(VC, ignore_errors=True)
    meta['checks'] = res
    meta['detected_by'] = [p for p, v in res.items() if v['exit'] == 1]
finally:
    sh(f'git -C /repo worktree remove --force {WT}'); shutil.rmtree(WT, ignore_errors=True)
am = os.path.join(d, 'agent_meta.json')
if os.path.exists(am):
    try:
        a = json.load(open(am)); meta['property'] = a.get('property'); meta['summary'] = a.get('summary'); meta['needs_to_manifest'] = a.get('needs_to_manifest')
    except Exception: pass
meta['what_i_ran'] = (f'tools/eval_seed_wt.py {sid}: in a scratch worktree of /repo HEAD ({WT}, removed afterwards): demo.py without and with patch.diff, the pinned suite with the patch '
                      f'(compared with BASELINE.json stable_pass), then ./check {" ".join(props)} --tier quick --src-root <worktree>' + (f' for the checks as they stood at launch ({old}) and' if old else '') + ' for the current checks')
if '--probe' not in args: json.dump(meta, open(os.path.join(d, 'meta.json'), 'w'), indent=1)
print(json.dumps({k: meta.get(k) for k in ('seed', 'confirmed', 'demo_without_patch_exit', 'demo_with_patch_exit', 'detected_by')}), 'first_run:', (meta.get('first_run') or {}).get('detected_by'), meta.get('suite_with_patch'))
for p, v in meta.get('checks', {}).items(): print('  ', p, v['exit'], v['first'][:2])
