#!/usr/bin/env python3
"""Regenerates MANIFEST.json from the table below (one entry per claimed property; everything else -> not_applicable)."""
import json, os
ROOT = os.path.dirname(os.path.dirname(os.path.abspath(__file__)))
props = [json.loads(l) for l in open(os.path.join(ROOT, 'properties.jsonl'))]

CLAIMS = {
    'C20': dict(
        category='proof', design_ref='DESIGN.md section 3 C20, Appendix A.1',
        text='All ten conversion functions are verified against contracts generated from the frozen STIX 2.1 Appendix A table: '
             'for every mathematical integer / every string the result (or ValueError) is the one the table prescribes; totality, '
             'monotonicity and the label->value->label round trip are z3 lemmas over the table and the two contracts. Proof is the '
             'right level: the functions are straight-line integer/string comparisons, fully inside the verified subset.',
        note='Trusted: spec/confidence.json as a copy of the specification table; PyVC encoding of if/elif, comparison chains, '
             'string equality and raise; z3. Inputs are ints / strs as the property quantifies (floats etc. not modelled). '
             'A native enumeration of -50..150 and all labels re-checks the same contracts on the real functions every run.',
        technique='contract-based deductive verification: VCs generated from the real source by symbolic execution (PyVC), discharged by z3; native replay of counterexamples'),

    'C15': dict(category='proof', design_ref='DESIGN.md section 3 C15, Appendix A.2',
        text='format_datetime, parse_into_datetime, to_enum and TimestampProperty.clean are verified against contracts taken from the property statement for every '
             'integer-microsecond instant, every whole-second UTC offset, naive or aware, and all 6 (precision, constraint) pairs: canonical 4-2-2T2:2:2 text of the '
             'UTC instant, exactly the required fraction digits, truncation never rounding; fixed point and monotonicity are z3 lemmas over the two contracts. '
             'A bounded native comparison with an independent integer-arithmetic formatter re-checks the same statement (thorough: all 10^6 microsecond values).',
        note='Assumed (probed natively every run): pytz localize/astimezone, datetime.replace/strptime/civil fields, "{:0Nd}".format, STIXdatetime.__new__; UTC offsets are whole '
             'seconds (sub-second offsets, which Python permits, are outside the contract). DigitStr theory and PyVC encoding are trusted, guarded by the native cross-check.',
        technique='contract-based deductive verification (PyVC + z3, DigitStr/LIA theory) with native replay; bounded native stand-in as cross-check'),
    'C05': dict(category='other', design_ref='DESIGN.md section 3 C05, Appendix A.3, section 12',
        text='_fudge_modified is proved for all pairs of instants and both precision rules (the clock is an unconstrained integer); new_version is verified against a slice '
             'contract with callee contracts: precondition of _fudge_modified from the precision constraint computed on the path, modified handed to the constructor strictly '
             'later at serialization precision, RevokeError / UnmodifiablePropertyError conditions (loop invariant), constructor arguments = original overridden by the change '
             'set minus None; unmodifiable names supplied as keyword arguments or custom_properties keys are refused; revoke forwards exactly revoked=True; chain monotonicity by '
             'transitivity. Composition with the real constructors and class tables is bounded (clock substituted; 10 object kinds incl. types made by the CustomObject decorators): '
             'claimed as "other", not "proof", because two seeded changes outside new_version (decorator property tables, class attribute aliasing) were invisible to the proved part.',
        note='Slice contract: the object is a map with 7 declared keys plus arbitrary others; class constructor, _check_versionable_object, deepcopy under assumed contracts; '
             'datetime overflow at year 9999 excluded. The bounded part (10 object kinds x clock offsets x change sets x chains) is labelled bounded in the evidence.',
        technique='contract-based deductive verification (PyVC + z3) of the ordering core; bounded native composition with a substituted clock'),
    'C14': dict(category='other', design_ref='DESIGN.md section 3 C14, 2.13, section 12',
        text='Every call site in the tree of a function with a version/allow_custom/interoperability parameter is bound to the callee\'s real signature and checked against '
             'the parameter sorts, and callers must hand on their own version (finite-domain obligations); parse, dict_to_stix2, detect_spec_version, memory._add and '
             'filesystem._check_object_from_file are symbolically executed against routing contracts with ghost "parsed-under" records. 17 entry points (dictionary, text and already-built object inputs) x dictionaries x versions are compared natively with a direct parse. '
             'Claimed as "other": a change that takes parse() out of the modelled subset leaves only the bounded comparison (seed C14-4).',
        note='Sorts of actuals are derived from role-named parameters, literals and self.<role>; other actual expressions are listed as not decided (16 on the current tree). '
             'TAXII paths are covered by call-site obligations only. Constructors honour allow_custom/interoperability: assumed here, checked by C02/C04.',
        technique='call-site precondition checking against real signatures (AST + z3) and contract-based symbolic execution (PyVC); bounded native entry-point comparison'),
    'C17': dict(category='other', design_ref='DESIGN.md section 3 C17',
        text='Proved: detect_spec_version, dict_to_stix2 and parse cannot let KeyError/AttributeError/IndexError escape for ANY JSON value (uninterpreted JSON sort; every raw-input '
             'access is an obligation site; counterexamples are concretised to JSON and replayed). Bounded: fault enumeration over every parseable type x every slot to depth 3 x '
             'wrong-kind values (incl. integers beyond the double range), junk property names, whole-input junk, constructors of all classes, granular-marking selectors of every shape, '
             '17 nesting sites at 8 depths up to the JSON decoder\'s own limit; registries compared with a snapshot. The raw-input prefix of _STIXBase.__init__ (custom_properties, extensions scan, '
             'custom property naming) is proved as a region contract; property cleaning and cross-property validation behind it are only bounded, hence "other".',
        note='Termination is not decided; RecursionError is checked by the bounded nesting family only. Constructors raising only Family errors is established by enumeration (bounded), not proof.',
        technique='contract-based deductive verification over a JSON sort (PyVC + z3) for the raw-input functions; exhaustive small-scope fault enumeration for the rest'),
    'C12': dict(category='other', design_ref='DESIGN.md section 3 C12, 2.13',
        text='Proved: Filter._check_property == documented semantics of all 8 operators; apply_common_filters yields exactly the objects matching every filter; _update_allow and '
             'AuthSet; SOUNDNESS of _find_search_optimizations for an arbitrary ghost object (loop invariant, image sets); re-iterable query at every call site; monotonicity and '
             'conjunction=intersection lemmas. Bounded: filter sets x stores x 4 delivery routes against an independent reference. _check_filter recursion and directory matching are bounded only. Also proved (section 18.7): FilterSet.add and the filter forwarding of CompositeDataSource.all_versions / query / get (call-site obligations: every member receives every attached and handed-down filter and nothing else). MemorySource.query / all_versions and the filter bookkeeping of FileSystemSource.query are under contract: the filters applied are exactly query + own + handed-down, and the caller\'s query object is never written to (frame obligation).',
        note='Filter values on type/id are strings or iterables of strings; get() under attached filters is read permissively (newest-if-matching or newest-matching).',
        technique='contract-based deductive verification (PyVC + z3: arrays as sets, quantified prefix invariants, ghost object); bounded end-to-end stand-in'),
    'C11': dict(category='other', design_ref='DESIGN.md section 3 C11',
        text='Proved: _ObjectFamily.add preserves "latest_version carries the greatest modified time; all_versions gains exactly the added version" over the whole key set; memory._add '
             'routing. Bounded: add histories (length <= 3/4) x 6 input forms on MemoryStore and FileSystemStore vs a list model, save/load round trip, file-name injectivity. Also (section 18): _timestamp2filename call-site obligations and unique-decomposition lemmas: distinct serialized instants get distinct file names. MemorySource.all_versions / query are under contract (every version held under the id / every stored object, through exactly the filters in force), with the representation invariant of the store as precondition.',
        note='OS semantics assumed; no concurrency. Known finding (dictionary-kept custom objects compare timestamps as text) is listed in known_findings.json.',
        technique='contract-based deductive verification of the representation invariant (PyVC + z3); bounded history enumeration against a list model'),
    'C18': dict(category='other', design_ref='DESIGN.md section 3 C18',
        text='Proved: newest-version selection loop of CompositeDataSource.get (prefix invariant, None iff no answers), order independence (max symmetric/associative), utils.deduplicate '
             '(one entry per distinct version key). Bounded: partitions over 1-3 members in every order, composite-attached filters, relationship graphs x options through store/source/composite/Environment. Since DESIGN section 18 also proved: CompositeDataSource.all_versions / query (every member asked, with exactly the composite\'s and the handed-down filters; answer == union of the members\' answers) and the forwarding slice of get; DataSource.relationships (exactly the scan, given the contract of query) and DataSource.related_to (on top of both); FilterSet.add (view after == view before united with the filters handed in).',
        note='The member loop of get() is abstracted (answers arbitrary); relationships()/related_to() filter-list construction is covered by the bounded part only.',
        technique='contract-based deductive verification of the selection and de-duplication loops (PyVC + z3); bounded federation/navigation enumeration'),

    'C01': dict(category='exploration', design_ref='DESIGN.md section 3 C01',
        text='Bounded stand-in carries the property: every class variant of a table-driven generator (all types of both versions, minimal / each optional / all optional, 2-3 value '
             'classes) plus custom properties and 12 special shapes: parse(serialize(o)) == o with the same class, byte-identical second serialization, 48 option sets denote '
             'the same JSON value up to defaulted optional properties, pretty order == frozen specification order. A small proved core (encoder default methods, timestamp '
             'fixed point, detection, no memoisation of lookups) supports it. Also under contract: v20 _should_set_millisecond (fixed-point clause), ObservableProperty.clean (reference scope / member / version call-site obligations), parse_into_datetime for datetime and STIXdatetime inputs.',
        note='simplejson assumed; NaN outside the quantifier; the generator is as complete as spec/tables_* and the seeds in vf/objgen.py.',
        technique='bounded exhaustive enumeration against the object itself (stand-in), with contract-proved core functions (PyVC + z3)'),
    'C02': dict(category='other', design_ref='DESIGN.md section 3 C02',
        text='Proved: language of every lexical regex == specification grammar (two inclusion queries each, concrete witness strings), _validate_type / IntegerProperty.clean iff '
             'contracts, ten timestamp-order co-constraints, the three inter-property helpers of _STIXBase (iff, nested loop invariants), strict-mode refusal of custom content in List/Hashes/Reference/Extensions cleaners, Enum/Hex/Dictionary/Float cleaners (iff), the raw-input prefix of _STIXBase.__init__ as a region contract (extensions scan invariant: unknown-property refusal iff some name is neither declared nor contributed by a registered toplevel-property-extension), validators read no mutable module state. '
             'Exhaustive table invariant (1382 property slots == frozen model). Bounded fault enumeration: (type, property, corruption kind) -> error or output accepted by an independent validator. Further contracts shared with other properties: parse_into_datetime (4 input kinds) and format_datetime, ObservableProperty.clean, IntegerProperty for bool input; native families of these contracts run on every run; ready-made nested objects of another class than the slot is for (bounded).',
        note='The frozen tables were bootstrapped from the tree after the fix commits (a regression oracle reviewed where the library was known to deviate); the per-property loop of _STIXBase.__init__ (after the cut of the region contract) is bounded only; pattern validity delegated to stix2patterns.',
        technique='regular-language equivalence and cleaner contracts by deductive verification (PyVC + z3 regex/LIA); exhaustive table comparison; bounded fault enumeration with an independent validator'),
    'C03': dict(category='other', design_ref='DESIGN.md section 3 C03',
        text='Proved acceptance halves (every string of each specification grammar accepted; valid integers/type names accepted; co-constraints raise only when violated; dispatch). '
             'Bounded: generated specification-valid objects (checked by the independent validator) are accepted in strict mode bare / in a bundle / as observed-data member and preserved; '
             'every vocabulary entry and legal reference target; granular markings on every path; frozen acceptance list. Shared contracts: the __init__ region contract with its extension-scan family, the three selector functions with their family.',
        note='Known finding: timestamps with >= 7 fraction digits are rejected. Completeness of the generator w.r.t. the prose specification is not claimed.',
        technique='deductive verification of acceptance directions (PyVC + z3); bounded generator-driven acceptance/preservation check'),
    'C04': dict(category='other', design_ref='DESIGN.md section 3 C04',
        text='Proved: custom-flag protocol of ListProperty / HashesProperty / ReferenceProperty / ExtensionsProperty.clean (prefix invariants: flag == OR over parts, strict => none; the reference cleaner passes its own spec version to every registry query), dict_to_stix2 unknown-type handling, and the unknown-property decision of _STIXBase.__init__ (region contract). '
             'Bounded: every valid object x injection site x custom kind x both switch settings: strict refusal, and has_custom <=> strict re-parse of the serialization refused. ObservableProperty.clean contract; extension-scan history family; seven strict readers of what a permissive sink wrote (bounded).',
        note='Known finding: the documented custom_properties keyword admits custom properties in strict mode. Unregistered extension-definition extensions are sanctioned by the library (not treated as custom).',
        technique='loop-invariant proofs of the customisation protocol (PyVC + z3); bounded injection enumeration'),
    'C06': dict(category='other', design_ref='DESIGN.md section 3 C06',
        text='Proved: _choose_one_hash priority order; the 2.1 observable constructor replaces the id iff none was given and one was generated; id code reads no mutable state. Exhaustive: '
             'id-contributing lists == frozen model, namespace constant. Bounded: ids of every SCO type x variants x boundary values equal an independent recomputation (own RFC 8785 + SHA-1), determinism across orders / round trips / processes. parse_into_datetime contracts (one instant, one id whatever value kind carried it); hash dictionaries in every order and nested in contributing values (bounded). The canonical JSON the id is derived from is covered by the contracts of property C16 (convert2Es6Format per shape, per-character string obligations, encoder call-site obligations), and format_datetime / HashesProperty.clean are proved here too (section 18.2).',
        note='_generate_id loop and _make_json_serializable are covered by the bounded recomputation only; SHA-1 collision freedom assumed.',
        technique='contract proofs of the selection logic (PyVC + z3); bounded comparison with an independent canonicalizer + UUIDv5'),
    'C07': dict(category='exploration', design_ref='DESIGN.md section 3 C07',
        text='Bounded stand-in carries the granular laws: states reachable by <= 2 adds on 3 base objects x 10 selectors (incl. string-prefix siblings) x 3 markings x flag combinations against a set model; '
             'object-level operations are proved as set algebra (add = union, remove = difference with MarkingNotFoundError iff absent, is_marked, clear). The selector functions (_evaluate_expression, _validate_selector, validate) are under contract here as well, with a native family over every path and near miss of three objects. The contracts of new_version / _fudge_modified (C05) are obligations of this property as well (section 18.2). Proved since section 18.9: expand_markings and compress_markings keep exactly the (kind, marking, selector) triples; granular add_markings gives view(object) united with the added pairs (modular, against those contracts, validate and new_version); idempotence / order-independence / reported-after-adding are lemmas over that contract. Remove / clear / set and the queries stay bounded. Also proved: granular remove_markings (exactly the named pairs go; MarkingNotFoundError iff none is there), the restore law as a lemma, and set_markings == clear then add (call-site obligations; clear_markings itself is not under contract).',
        note='Granular functions (nested loops over nested data) are outside the verified subset.',
        technique='bounded enumeration against a set model; set-algebra contracts for object-level markings (PyVC + z3 arrays)'),
    'C08': dict(category='other', design_ref='DESIGN.md section 3 C08',
        text='Proved: SELECTOR_REGEX == selector grammar; _evaluate_expression non-empty <=> some path equals the selector regardless of the stored value; _validate_selector; validate raises iff empty or some selector addresses nothing; '
             'every _check_object_constraints override calls the base implementation. Bounded: iterpath against an independent path enumerator on a shape family, every path and near miss through 10 entry points.',
        note='iterpath (recursive generator over nested mutable data) is bounded only.',
        technique='deductive verification of the selector functions (PyVC + z3) + syntactic call obligations; bounded path enumeration'),
    'C09': dict(category='exploration', design_ref='DESIGN.md section 3 C09',
        text='Bounded stand-in: totality, reflexivity, symmetry, transitivity and SOUNDNESS against an independent evaluator of the patterning semantics on a generated pattern family and 1.6k+ observation sequences; '
             'documented rewrite laws recognised; find == filter. Proved: generic_cmp, iter_in and the comparison-level comparators (comparison_operator_cmp, bool_cmp, generic_constant_cmp, '
             'object_path_component_cmp, simple_comparison_expression_cmp against the contracts of its callees) return 0 exactly for equal operands and their sign is reflexive, antisymmetric and transitive -- '
             'lemmas over two / three instances of each function\'s own path summary, decided again from the current source on every run. Also constant_cmp (dispatch over the eight constant kinds, tables re-read from the source) and object_path_cmp, each against the contracts of its own callees (section 18.7, 18.9).',
        note='Soundness beyond the bounded universe is not claimed; ANTLR parser assumed; special-value canonicalisations not exercised. Known finding: a comparison AND whose operands share no object type is refused by the pattern object model (ValueError).',
        technique='bounded enumeration with an independent semantics evaluator; comparator contracts and relational lemmas over path summaries (PyVC + z3)'),
    'C10': dict(category='exploration', design_ref='DESIGN.md section 3 C10',
        text='Bounded stand-in only: generated pattern trees printed with an independent precedence-aware printer; text -> object model -> text -> independent reader gives the same tree; print o parse fixed point; the same trees built through the public model classes read back identically; both grammars. Proved component (section 18): escape_quotes_and_backslashes against the string-literal grammar, exhaustively per character, lifted to strings through the replace-chain homomorphism.',
        note='No clause proved (ANTLR visitor and %-formatting over opaque objects are outside the verified subset). Known finding: [a:x = 1 AND b:x = 1] is valid text that create_pattern_object refuses.',
        technique='bounded grammar-driven round-trip enumeration with an independent reader'),
    'C13': dict(category='exploration', design_ref='DESIGN.md section 3 C13',
        text='Bounded stand-in: deep snapshots of arguments and of existing objects around 26 public operations singly and in pairs on nested shapes; assignment/deletion refused; deepcopy equal and disjoint (id walk). '
             'Proved core: __setattr__ refuses every public name; __deepcopy__ builds from copy.deepcopy(self._inner) and stores only into that private copy. parse_into_datetime is proved here with a frame obligation: no attribute store or in-place mutation through any alias of a record argument. Section 18: two more frame families (filters handed to sources / stores / composites / environments; operands of pattern expressions), the latter after fix f6f0d30. The frame obligation on the query argument of MemorySource.query / FileSystemSource.query is a discharged clause (in-place add on the argument fails it).',
        note='General absence of aliasing writes needs an ownership discipline Python lacks: bounded only.',
        technique='bounded frame checking with deep snapshots; contract proofs of __setattr__/__deepcopy__ (PyVC + z3)'),
    'C16': dict(category='other', design_ref='DESIGN.md section 3 C16, section 18',
        text='Proved: convert2Es6Format (the real text, symbolically executed once per shape of the double -- sign x number of significant digits x decimal exponent, every digit symbolic; '
             'loops unrolled by the while rule, which only fires when the path condition decides the loop condition) returns ECMAScript Number::toString of the value and refuses NaN / infinities / '
             'integers beyond the double range: quick tier all shapes in the band where notation and padding are decided plus every exponent-width boundary (2080 shapes), thorough tier all 21.5k shapes. '
             'Exhaustive over all 1,112,064 Unicode scalar values: the string encoder bound at import and the pure-Python fallback write every character as RFC 8785 3.2.2.2 says, and the ESCAPE class / table agree with it. '
             'Call-site obligations tie both to every number / string branch of the encoder closures and to the member sort, whose key (UTF-16 big-endian bytes) orders like UTF-16 code units (three z3 lemmas: unit case and induction step). '
             'Bounded, carrying what the closures do (nesting, separators, circular-reference bookkeeping, insertion-order independence, parse-back, fixed point): canonicalize(v) against an independent RFC 8785 spec function '
             '(validated each run against the RFC Appendix B samples) on a value grid.',
        note='Assumed and probed each run: float.__repr__ writes the shortest round-trip digits in the CPython layout (py_repr_items); float(int) is correctly rounded. Assumed: _json.encode_basestring / re.sub act character by character. '
             'A call site of the encoder that is no longer recognised (helper extracted, branch reshaped) is undecided, never a violation. The recursive encoder closures are not proved: level "other".',
        technique='contract-based deductive verification: per-shape VCs from the real source of convert2Es6Format (PyVC, symbolic digits) discharged by z3, exhaustive per-character obligations, call-site obligations and z3 order lemmas; bounded differential stand-in against an independent specification function for the encoder closures'),
    'C19': dict(category='other', design_ref='DESIGN.md section 3 C19',
        text='Proved: each _register_* is exact and exclusive (duplicate => DuplicateRegistrationError with no registry store; success => exactly one store into the chosen version/category map, name was free); '
             'type-name grammar == specification per version; the extensions scan of _STIXBase.__init__ counts every registered toplevel-property-extension entry whatever its position (region contract); validators read no mutable module state. Bounded: registration histories in fresh subprocesses, version scoping of parse, round trip of registered types, reference-property naming rule. Cross-version / cross-class scenarios in fresh subprocesses (one undecorated class under both versions; marking definitions naming one registered marking but holding another).',
        note='Known finding: custom property names are checked for their first character only.',
        technique='deductive verification of the registration functions with ghost store records (PyVC + z3); bounded history enumeration in subprocesses'),
}
NOT_BUILT = 'contracts stated in DESIGN.md, check not built yet'

m = {
    'version': 1,
    'setup_cmd': './setup.sh',
    'hooks': {'guard': 'STIX2_VERIF',
              'enable': 'no source hooks: checks re-read /repo source text and import the real package; STIX2_VERIF is reserved and unused',
              'baseline_off_cmd': 'python3 tools/baseline.py', 'source_commits': [], 'add_only': True},
    'engines': [
        {'name': 'PyVC', 'path': 'vf/pyvc', 'serves_properties': sorted(CLAIMS),
         'kind_free_text': 'verification-condition generator for a Python subset (ast -> forward symbolic execution against sidecar contracts), z3 5.1 back end with cvc5 / z3-new second opinion on unknowns'},
        {'name': 'bounded stand-in', 'path': 'vf/check.py', 'serves_properties': sorted(CLAIMS),
         'kind_free_text': 'native evaluation of the same contracts on the real functions over exhaustively enumerated small domains; labelled bounded, never counted as proved'},
    ],
    'checks': [],
    'notes': 'See DESIGN.md. Exit codes of ./check: 0 held / 1 violation / 2 nothing decided / 3 checker fault.',
    'not_applicable': [],
}
for p in props:
    pid = p['id']
    if pid in CLAIMS:
        c = CLAIMS[pid]
        m['checks'].append({
            'property_id': pid, 'quick_cmd': f'./check {pid} --tier quick', 'thorough_cmd': f'./check {pid} --tier thorough',
            'evidence_file': f'evidence/{pid}.json', 'replay_cmd_template': f'./check {pid} --replay {{path}}', 'engine': 'PyVC',
            'level_claimed': {'category': c['category'], 'text': c['text'], 'design_ref': c['design_ref']},
            'level_note': c['note'], 'technique': c['technique']})
    else:
        m['not_applicable'].append({'property_id': pid, 'reason': NOT_BUILT})
json.dump(m, open(os.path.join(ROOT, 'MANIFEST.json'), 'w'), indent=1)
print('claimed:', sorted(CLAIMS), 'not applicable:', [n['property_id'] for n in m['not_applicable']])
