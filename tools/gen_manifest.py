#!/usr/bin/env python3
"""Regenerates MANIFEST.json from the table below (one entry per claimed property; everything else -> not_applicable)."""
import json, os
ROOT = os.path.dirname(os.path.dirname(os.path.abspath(__file__)))
props = [json.loads(l) for l in open(os.path.join(ROOT, 'properties.jsonl'))]

CLAIMS = {
    'C20': dict(
        category='proof', design_ref='DESIGN.md section 3 C20, Appendix A.1',
        text='All ten conversion functions are verified against contracts generated from the frozen STIX 2.1 Appendix A table: '
             'for every mathematical integer / every string the result (or ValueError) is the one the table prescribes; totality, '
             'monotonicity and the label->value->label round trip are z3 lemmas over the table and the two contracts. Proof is the '
             'right level: the functions are straight-line integer/string comparisons, fully inside the verified subset.',
        note='Trusted: spec/confidence.json as a copy of the specification table; PyVC encoding of if/elif, comparison chains, '
             'string equality and raise; z3. Inputs are ints / strs as the property quantifies (floats etc. not modelled). '
             'A native enumeration of -50..150 and all labels re-checks the same contracts on the real functions every run.',
        technique='contract-based deductive verification: VCs generated from the real source by symbolic execution (PyVC), discharged by z3; native replay of counterexamples'),
}
NOT_BUILT = 'contracts stated in DESIGN.md, check not built yet'

m = {
    'version': 1,
    'setup_cmd': './setup.sh',
    'hooks': {'guard': 'STIX2_VERIF',
              'enable': 'no source hooks: checks re-read /repo source text and import the real package; STIX2_VERIF is reserved and unused',
              'baseline_off_cmd': 'python3 tools/baseline.py', 'source_commits': [], 'add_only': True},
    'engines': [
        {'name': 'PyVC', 'path': 'vf/pyvc', 'serves_properties': sorted(CLAIMS),
         'kind_free_text': 'verification-condition generator for a Python subset (ast -> forward symbolic execution against sidecar contracts), z3 5.1 back end with cvc5 / z3-new second opinion on unknowns'},
        {'name': 'bounded stand-in', 'path': 'vf/check.py', 'serves_properties': sorted(CLAIMS),
         'kind_free_text': 'native evaluation of the same contracts on the real functions over exhaustively enumerated small domains; labelled bounded, never counted as proved'},
    ],
    'checks': [],
    'notes': 'See DESIGN.md. Exit codes of ./check: 0 held / 1 violation / 2 nothing decided / 3 checker fault.',
    'not_applicable': [],
}
for p in props:
    pid = p['id']
    if pid in CLAIMS:
        c = CLAIMS[pid]
        m['checks'].append({
            'property_id': pid, 'quick_cmd': f'./check {pid} --tier quick', 'thorough_cmd': f'./check {pid} --tier thorough',
            'evidence_file': f'evidence/{pid}.json', 'replay_cmd_template': f'./check {pid} --replay {{path}}', 'engine': 'PyVC',
            'level_claimed': {'category': c['category'], 'text': c['text'], 'design_ref': c['design_ref']},
            'level_note': c['note'], 'technique': c['technique']})
    else:
        m['not_applicable'].append({'property_id': pid, 'reason': NOT_BUILT})
json.dump(m, open(os.path.join(ROOT, 'MANIFEST.json'), 'w'), indent=1)
print('claimed:', sorted(CLAIMS), 'not applicable:', [n['property_id'] for n in m['not_applicable']])
