#!/usr/bin/env python3
"""Regenerates MANIFEST.json from the table below (one entry per claimed property; everything else -> not_applicable)."""
import json, os
ROOT = os.path.dirname(os.path.dirname(os.path.abspath(__file__)))
props = [json.loads(l) for l in open(os.path.join(ROOT, 'properties.jsonl'))]

CLAIMS = {
    'C20': dict(
        category='proof', design_ref='DESIGN.md section 3 C20, Appendix A.1',
        text='All ten conversion functions are verified against contracts generated from the frozen STIX 2.1 Appendix A table: '
             'for every mathematical integer / every string the result (or ValueError) is the one the table prescribes; totality, '
             'monotonicity and the label->value->label round trip are z3 lemmas over the table and the two contracts. Proof is the '
             'right level: the functions are straight-line integer/string comparisons, fully inside the verified subset.',
        note='Trusted: spec/confidence.json as a copy of the specification table; PyVC encoding of if/elif, comparison chains, '
             'string equality and raise; z3. Inputs are ints / strs as the property quantifies (floats etc. not modelled). '
             'A native enumeration of -50..150 and all labels re-checks the same contracts on the real functions every run.',
        technique='contract-based deductive verification: VCs generated from the real source by symbolic execution (PyVC), discharged by z3; native replay of counterexamples'),

    'C15': dict(category='proof', design_ref='DESIGN.md section 3 C15, Appendix A.2',
        text='format_datetime, parse_into_datetime, to_enum and TimestampProperty.clean are verified against contracts taken from the property statement for every '
             'integer-microsecond instant, every whole-second UTC offset, naive or aware, and all 6 (precision, constraint) pairs: canonical 4-2-2T2:2:2 text of the '
             'UTC instant, exactly the required fraction digits, truncation never rounding; fixed point and monotonicity are z3 lemmas over the two contracts. '
             'A bounded native comparison with an independent integer-arithmetic formatter re-checks the same statement (thorough: all 10^6 microsecond values).',
        note='Assumed (probed natively every run): pytz localize/astimezone, datetime.replace/strptime/civil fields, "{:0Nd}".format, STIXdatetime.__new__; UTC offsets are whole '
             'seconds (sub-second offsets, which Python permits, are outside the contract). DigitStr theory and PyVC encoding are trusted, guarded by the native cross-check.',
        technique='contract-based deductive verification (PyVC + z3, DigitStr/LIA theory) with native replay; bounded native stand-in as cross-check'),
    'C05': dict(category='proof', design_ref='DESIGN.md section 3 C05, Appendix A.3',
        text='_fudge_modified is proved for all pairs of instants and both precision rules (the clock is an unconstrained integer); new_version is verified against a slice '
             'contract with callee contracts: precondition of _fudge_modified from the precision constraint computed on the path, modified handed to the constructor strictly '
             'later at serialization precision, RevokeError / UnmodifiablePropertyError conditions (loop invariant), constructor arguments = original overridden by the change '
             'set minus None; revoke forwards exactly revoked=True; chain monotonicity by transitivity. Composition with the real constructors is bounded (clock substituted).',
        note='Slice contract: the object is a map with 7 declared keys plus arbitrary others; class constructor, _check_versionable_object, deepcopy under assumed contracts; '
             'datetime overflow at year 9999 excluded. The bounded part (8 object kinds x clock offsets x change sets x chains) is labelled bounded in the evidence.',
        technique='contract-based deductive verification (PyVC + z3) of the ordering core; bounded native composition with a substituted clock'),
    'C14': dict(category='proof', design_ref='DESIGN.md section 3 C14, 2.13',
        text='Every call site in the tree of a function with a version/allow_custom/interoperability parameter is bound to the callee\'s real signature and checked against '
             'the parameter sorts, and callers must hand on their own version (finite-domain obligations); parse, dict_to_stix2, detect_spec_version, memory._add and '
             'filesystem._check_object_from_file are symbolically executed against routing contracts with ghost "parsed-under" records. 14 entry points x dictionaries x versions are compared natively with a direct parse.',
        note='Sorts of actuals are derived from role-named parameters, literals and self.<role>; other actual expressions are listed as not decided (16 on the current tree). '
             'TAXII paths are covered by call-site obligations only. Constructors honour allow_custom/interoperability: assumed here, checked by C02/C04.',
        technique='call-site precondition checking against real signatures (AST + z3) and contract-based symbolic execution (PyVC); bounded native entry-point comparison'),
    'C17': dict(category='other', design_ref='DESIGN.md section 3 C17',
        text='Proved: detect_spec_version, dict_to_stix2 and parse cannot let KeyError/AttributeError/IndexError escape for ANY JSON value (uninterpreted JSON sort; every raw-input '
             'access is an obligation site; counterexamples are concretised to JSON and replayed). Bounded: fault enumeration over every parseable type x every slot to depth 3 x '
             'wrong-kind values, whole-input junk, constructors of all classes; registries compared with a snapshot. The composition through _STIXBase.__init__ is only bounded, hence "other".',
        note='Termination / RecursionError on deep nesting not decided. Constructors raising only Family errors is established by enumeration (bounded), not proof.',
        technique='contract-based deductive verification over a JSON sort (PyVC + z3) for the raw-input functions; exhaustive small-scope fault enumeration for the rest'),
    'C12': dict(category='other', design_ref='DESIGN.md section 3 C12, 2.13',
        text='Proved: Filter._check_property == documented semantics of all 8 operators; apply_common_filters yields exactly the objects matching every filter; _update_allow and '
             'AuthSet; SOUNDNESS of _find_search_optimizations for an arbitrary ghost object (loop invariant, image sets); re-iterable query at every call site; monotonicity and '
             'conjunction=intersection lemmas. Bounded: filter sets x stores x 4 delivery routes against an independent reference. _check_filter recursion and directory matching are bounded only.',
        note='Filter values on type/id are strings or iterables of strings; get() under attached filters is read permissively (newest-if-matching or newest-matching).',
        technique='contract-based deductive verification (PyVC + z3: arrays as sets, quantified prefix invariants, ghost object); bounded end-to-end stand-in'),
    'C11': dict(category='other', design_ref='DESIGN.md section 3 C11',
        text='Proved: _ObjectFamily.add preserves "latest_version carries the greatest modified time; all_versions gains exactly the added version" over the whole key set; memory._add '
             'routing. Bounded: add histories (length <= 3/4) x 6 input forms on MemoryStore and FileSystemStore vs a list model, save/load round trip, file-name injectivity.',
        note='OS semantics assumed; no concurrency. Known finding (dictionary-kept custom objects compare timestamps as text) is listed in known_findings.json.',
        technique='contract-based deductive verification of the representation invariant (PyVC + z3); bounded history enumeration against a list model'),
    'C18': dict(category='other', design_ref='DESIGN.md section 3 C18',
        text='Proved: newest-version selection loop of CompositeDataSource.get (prefix invariant, None iff no answers), order independence (max symmetric/associative), utils.deduplicate '
             '(one entry per distinct version key). Bounded: partitions over 1-3 members in every order, composite-attached filters, relationship graphs x options through store/source/composite/Environment.',
        note='The member loop of get() is abstracted (answers arbitrary); relationships()/related_to() filter-list construction is covered by the bounded part only.',
        technique='contract-based deductive verification of the selection and de-duplication loops (PyVC + z3); bounded federation/navigation enumeration'),
}
NOT_BUILT = 'contracts stated in DESIGN.md, check not built yet'

m = {
    'version': 1,
    'setup_cmd': './setup.sh',
    'hooks': {'guard': 'STIX2_VERIF',
              'enable': 'no source hooks: checks re-read /repo source text and import the real package; STIX2_VERIF is reserved and unused',
              'baseline_off_cmd': 'python3 tools/baseline.py', 'source_commits': [], 'add_only': True},
    'engines': [
        {'name': 'PyVC', 'path': 'vf/pyvc', 'serves_properties': sorted(CLAIMS),
         'kind_free_text': 'verification-condition generator for a Python subset (ast -> forward symbolic execution against sidecar contracts), z3 5.1 back end with cvc5 / z3-new second opinion on unknowns'},
        {'name': 'bounded stand-in', 'path': 'vf/check.py', 'serves_properties': sorted(CLAIMS),
         'kind_free_text': 'native evaluation of the same contracts on the real functions over exhaustively enumerated small domains; labelled bounded, never counted as proved'},
    ],
    'checks': [],
    'notes': 'See DESIGN.md. Exit codes of ./check: 0 held / 1 violation / 2 nothing decided / 3 checker fault.',
    'not_applicable': [],
}
for p in props:
    pid = p['id']
    if pid in CLAIMS:
        c = CLAIMS[pid]
        m['checks'].append({
            'property_id': pid, 'quick_cmd': f'./check {pid} --tier quick', 'thorough_cmd': f'./check {pid} --tier thorough',
            'evidence_file': f'evidence/{pid}.json', 'replay_cmd_template': f'./check {pid} --replay {{path}}', 'engine': 'PyVC',
            'level_claimed': {'category': c['category'], 'text': c['text'], 'design_ref': c['design_ref']},
            'level_note': c['note'], 'technique': c['technique']})
    else:
        m['not_applicable'].append({'property_id': pid, 'reason': NOT_BUILT})
json.dump(m, open(os.path.join(ROOT, 'MANIFEST.json'), 'w'), indent=1)
print('claimed:', sorted(CLAIMS), 'not applicable:', [n['property_id'] for n in m['not_applicable']])
