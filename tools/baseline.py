#!/usr/bin/env python3
"""Runs the repository's pinned test suite (command from /root/.vp/BASELINE.json) with the verification guard OFF and
compares the set of passing tests with BASELINE.json's stable_pass list.  Exit 0 iff every stable-pass test still passes."""
import json, os, subprocess, sys, tempfile, xml.etree.ElementTree as ET
base = json.load(open('/root/.vp/BASELINE.json'))
env = {k: v for k, v in os.environ.items() if k != 'STIX2_VERIF'}
with tempfile.TemporaryDirectory() as td:
    jx = os.path.join(td, 'junit.xml')
    cmd = base['cmd'].replace('<file>', jx)
    r = subprocess.run(cmd, shell=True, env=env, capture_output=True, text=True)
    passed = set()
    for tc in ET.parse(jx).getroot().iter('testcase'):
        if not any(ch.tag in ('failure', 'error', 'skipped') for ch in tc):
            passed.add(f"{tc.get('classname')}::{tc.get('name')}")
missing = [t for t in base['stable_pass'] if t not in passed]
print(f"baseline: stable_pass={len(base['stable_pass'])} passing_now={len(passed)} missing={len(missing)}")
for t in missing[:40]: print('  MISSING', t)
sys.exit(1 if missing else 0)
