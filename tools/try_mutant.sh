#!/bin/sh
# usage: tools/try_mutant.sh <file-relative-to-repo> <sed-expr> <PROP>...   -- applies, runs quick checks, reverts
f=$1; e=$2; shift 2
cd /repo && sed -i "$e" "$f" && git diff --stat | tail -1
if git diff --quiet; then echo "MUTANT DID NOT APPLY"; exit 2; fi
for p in "$@"; do (cd /verif && ./check $p 2>&1 | grep -E "^VIOLATION|^$p \[|^  [a-zA-Z]" | cut -c1-260 | head -${LINES_MAX:-5}); done
cd /repo && git checkout -- .
