"""C06: contracts for deterministic SCO identifiers (stix2/base.py, stix2/v21/base.py)."""
import ast
import z3
from vf.pyvc import engine as E
from vf.pyvc.engine import (Val, Exc, Unsupported, NONE, Int, Bool, Str, JV, Rec, Opt, SetV, Seq, S, SetS, J, TAG, tag, has, get, jlen, sat)
from vf.pyvc.contract import Contract, SortMismatch
from vf.pyvc.lib import mk_map

BASE = 'stix2/base.py'
FIRST = z3.Function('first_key_in_iteration_order', J, S)
ORDER = ['MD5', 'SHA-1', 'SHA-256', 'SHA-512']


def choose_one_hash_contract():
    def h_next(x, e, p, site):
        """next(iter(d), None): the first key in iteration order, None iff the dictionary is empty"""
        inner = e.args[0]
        if not (isinstance(inner, ast.Call) and ast.unparse(inner.func) == 'iter' and len(e.args) == 2): raise Unsupported(site + ' next() shape')
        for p1, vs in x.ev_seq([inner.args[0]], p):
            if isinstance(vs, Exc):
                yield p1, vs; continue
            j = vs[0].t
            q = p1.fork(jlen(j) == 0)
            if sat(q.pc): yield q, NONE
            k = FIRST(j)
            q = p1.fork(jlen(j) > 0, has(j, k))
            if sat(q.pc): yield q, Str(k)

    def ens(a, r):
        j = a['hash_dict'].t; SV = z3.StringVal
        if r.sort == 'none': return jlen(j) == 0
        if r.sort != 'litdict': raise SortMismatch('a one-entry dictionary or None expected, got ' + r.sort)
        items = list(r.x.items()) if isinstance(r.x, dict) else r.x
        if len(items) != 1: return z3.BoolVal(False)
        k, v = items[0]
        kt = SV(k) if isinstance(k, str) else k.t
        pri = z3.Or(*[z3.And(kt == SV(o), has(j, SV(o)), *[z3.Not(has(j, SV(e))) for e in ORDER[:n]]) for n, o in enumerate(ORDER)],
                    z3.And(*[z3.Not(has(j, SV(e))) for e in ORDER], kt == FIRST(j), has(j, kt)))
        return z3.And(pri, v.sort == 'J' and v.t == get(j, kt) if v.sort == 'J' else z3.BoolVal(False))
    k_ = z3.String('k!ne')
    return Contract(f'{BASE}::_choose_one_hash', props=['C06'],
                    params={'hash_dict': 'J'},
                    requires=[('a dictionary; its length is 0 exactly when it has no key', lambda a: z3.And(tag(a['hash_dict'].t) == TAG['dict'], jlen(a['hash_dict'].t) >= 0,
                                                                                                       z3.ForAll([k_], z3.Implies(has(a['hash_dict'].t, k_), jlen(a['hash_dict'].t) > 0))))],
                    ensures=[('exactly one entry, chosen in the order MD5, SHA-1, SHA-256, SHA-512, else the first key; None iff the dictionary is empty', ens)],
                    raises={}, handlers={'next': h_next}, note='priority order of the specification')


def observable_init_contract():
    """v21 _Observable.__init__: the identifier is replaced by the generated one iff no id was given and one could be generated"""
    kwargs = mk_map('kwargs', {'id': 'str'}, open_keys=True)
    GEN = E.named('opt:str', 'generated_id')

    def h_super_init(x, e, p, site):
        for exn in ('STIXError', 'ValueError', 'TypeError'): yield p.fork(), Exc(exn, site + ':base-init')
        yield p, NONE

    def h_super(x, e, p, site): yield p, Val('opaque', x='super()')

    def h_generate(x, e, p, site):
        yield p.fork(), Exc('InvalidValueError', site + ':_generate_id')
        q = p.fork(); q.ghost = dict(q.ghost, generated=True)
        yield q, GEN

    def store(x, tgt, v, q):
        if ast.unparse(tgt) == "self._inner['id']":
            q.ghost = dict(q.ghost, id_store=v)
        else: raise Unsupported('store ' + ast.unparse(tgt))

    def outcomes(x, outs, add):
        given = kwargs.x['present']('id')
        for i, (kind, p, v) in enumerate(outs):
            if kind != 'return': continue
            st = p.ghost.get('id_store')
            if st is None:
                add(f'id left as constructed only if one was given or none could be generated @path{i}', p.pc, z3.Or(given, z3.And(z3.BoolVal(bool(p.ghost.get('generated'))), GEN.t[0])), p.exact)
            else:
                same = z3.And(z3.Not(st.t[0]), st.t[1].t == GEN.t[1].t) if st.sort == 'opt:str' else (st.t == GEN.t[1].t if st.sort == 'str' else z3.BoolVal(False))
                add(f'id replaced only when none was given, by exactly the generated identifier @path{i}', p.pc, z3.And(z3.Not(given), z3.Not(GEN.t[0]), same), p.exact)
    return Contract('stix2/v21/base.py::_Observable.__init__', props=['C06'],
                    params={'self': 'opaque', 'kwargs': kwargs}, raises={'STIXError': None, 'ValueError': None, 'TypeError': None},
                    handlers={'super': h_super, 'super(_Observable, self).__init__': h_super_init, 'self._generate_id': h_generate},
                    store_handler=store, on_outcomes=outcomes, note='applied when no id was given')
