"""C02 / C03 / C08 / C19: language obligations -- for every lexical rule the library enforces with a regular expression,
L(code regex under the matching function actually used) == L(specification grammar), as two inclusion queries each.
Patterns and flags are taken from the real compiled objects / the real source text on every run."""
import ast, os, re
import z3
from vf.pyvc import rx
from vf.pyvc.contract import Obligation, discharge
from spec import lexical as SP

S = z3.String('s')


def inline_pattern(src_root, relpath, qualname, nth=0):
    """the string literal passed to re.match(...) inside the given function (re-read from source)"""
    from vf.pyvc.engine import find_def
    tree = ast.parse(open(os.path.join(src_root, relpath)).read())
    fn = find_def(tree, qualname)
    calls = [n for n in ast.walk(fn) if isinstance(n, ast.Call) and ast.unparse(n.func) in ('re.match', 're.fullmatch', 're.search')]
    c = calls[nth]
    return c.args[0].value, ast.unparse(c.func).split('.')[1]


def rules(src_root='/repo'):
    """[(name, pattern, flags, mode, spec language, (minlen, maxlen) or None, props)]"""
    import stix2.properties as P, stix2.hashes as H, stix2.utils as U
    out = [
        ('TYPE_REGEX (2.0 type names)', P.TYPE_REGEX.pattern, P.TYPE_REGEX.flags, 'match', SP.TYPE_20, SP.TYPE_LEN, ['C02', 'C19']),
        ('TYPE_21_REGEX (2.1 type names)', P.TYPE_21_REGEX.pattern, P.TYPE_21_REGEX.flags, 'match', SP.TYPE_21, SP.TYPE_LEN, ['C02', 'C19']),
        ('SELECTOR_REGEX', P.SELECTOR_REGEX.pattern, P.SELECTOR_REGEX.flags, 'match', SP.SELECTOR, None, ['C02', 'C08']),
    ]
    pat, mode = inline_pattern(src_root, 'stix2/properties.py', 'DictionaryProperty.clean')
    out.append(('dictionary key rule', pat, 0, mode, SP.DICT_KEY, None, ['C02', 'C03']))
    pat, mode = inline_pattern(src_root, 'stix2/properties.py', 'HexProperty.clean')
    out.append(('hex rule', pat, 0, mode, SP.HEX, None, ['C02', 'C03']))
    for h, rxc in H._HASH_REGEXES.items():
        out.append((f'hash {h.name}', rxc.pattern, rxc.flags, 'match', SP.HASHES[h.name], None, ['C02', 'C03']))
    return out


def language_obligations(src_root='/repo'):
    obs = []; notes = []
    for name, pat, flags, mode, spec, lens, props in rules(src_root):
        try:
            L = rx.match_language(pat, flags, full=(mode == 'fullmatch'))
        except rx.RxUnsupported as ex:
            notes.append(f'{name}: pattern outside the translated subset ({ex}) -- not decided'); continue
        n, mismatch = rx.cross_check(pat, flags, L, rx.alphabet_for(pat), 3 if len(pat) < 60 else 2, full=(mode == 'fullmatch'))
        if mismatch:
            notes.append(f'{name}: regex translation disagrees with re on {mismatch} -- not decided (checker issue)'); continue
        beyond = rx.accepts_beyond_z3(pat, flags)
        lenc = z3.And(z3.Length(S) >= lens[0], z3.Length(S) <= lens[1]) if lens else z3.BoolVal(True)
        code, sp = z3.InRe(S, L), z3.InRe(S, spec)
        o1 = Obligation('lexical', f'{name}: every string the code accepts is specification-valid  [{pat!r} under re.{mode}]', 'language', [lenc, code], sp, True)
        o2 = Obligation('lexical', f'{name}: every specification-valid string is accepted  [{pat!r} under re.{mode}]', 'language', [lenc, sp], code, True)
        o3 = Obligation('lexical', f'{name}: no code point above U+2FFFF is accepted (native, exhaustive over the class tables)', 'language', [], z3.BoolVal(not beyond), True)
        for o in (o1, o2, o3):
            discharge(o, {'s': S}); o.detail = (o.detail + f' translation cross-checked on {n} strings').strip()
            obs.append((o, props, pat, flags, mode))
    return obs, notes


def native_witness(pat, flags, mode, s):
    r = re.compile(pat, flags)
    return (r.fullmatch(s) if mode == 'fullmatch' else r.match(s)) is not None
