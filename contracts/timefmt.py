"""C15 (used by C01/C05/C11): contracts for stix2/utils.py format_datetime, parse_into_datetime, to_enum and
properties.TimestampProperty.clean.  Postconditions are taken from the property statement (DESIGN Appendix A.2)."""
import datetime as dtm, re
import z3
from vf.pyvc import engine as E
from vf.pyvc.engine import Val, Exc, Unsupported, NONE, Int, Bool, Str, Rec, Opt, sat
from vf.pyvc.contract import Contract, expect, SortMismatch
from vf.pyvc.lib import pure
from vf.pyvc import timelib as T
from vf.check import Replay, EPOCH

M = 10**6
SRC = 'stix2/utils.py'
E.declare_enum('Precision', ['ANY', 'SECOND', 'MILLISECOND']); E.declare_enum('PrecisionConstraint', ['EXACT', 'MIN'])
PREC = E.ENUMS['Precision'][1]; PCON = E.ENUMS['PrecisionConstraint'][1]
ENUM_GLOBALS = {f'Precision.{m}': E.enum_val('Precision', m) for m in PREC}
ENUM_GLOBALS.update({f'PrecisionConstraint.{m}': E.enum_val('PrecisionConstraint', m) for m in PCON})
DATE_ORDER = ['year', 'month', 'day', 'hour', 'minute', 'second']
DATE_SEPS = ['-', '-', 'T', ':', ':']

ASSUME_TIME = [
    'A(datetime/pytz): pytz.utc.localize(naive) keeps the wall clock and attaches UTC, raises ValueError on aware input; '
    'astimezone(pytz.utc) preserves the instant; replace(microsecond=k) changes only that field [probed natively every run]',
    'A(str.format): "{:0Nd}".format(n) is exactly N decimal digits for 0 <= n < 10^N; "{:06d}" probed exhaustively in the thorough tier',
    'A(datetime): year in 1..9999, month/day/hour/minute/second in their calendar ranges; civil fields are functions of the wall-clock second',
    'A(offsets): UTC offsets are whole seconds (true of every IANA zone); Python also allows sub-second offsets, for which truncation of the wall-clock microsecond is not truncation of the UTC instant',
]


# ------------------------------------------------------------------ spec functions (from the property statement)
def frac_spec(P, C, f, w, n):
    """z3: digits (w, n) are what the statement prescribes for sub-second microseconds f under (P, C); n is a Python int"""
    scale = 10 ** (6 - n)
    anyish = z3.Or(P == PREC['ANY'], z3.And(P == PREC['SECOND'], C == PCON['MIN']))
    return z3.And(
        z3.Implies(anyish, z3.And(w * scale == f, z3.BoolVal(n == 0) == (f == 0), z3.Implies(z3.BoolVal(n > 0), w % 10 != 0))),
        z3.Implies(z3.And(P == PREC['SECOND'], C == PCON['EXACT']), z3.BoolVal(n == 0)),
        z3.Implies(z3.And(P == PREC['MILLISECOND'], C == PCON['EXACT']), z3.And(z3.BoolVal(n == 3), w == f / 1000)),
        z3.Implies(z3.And(P == PREC['MILLISECOND'], C == PCON['MIN']), z3.And(z3.BoolVal(n >= 3), w * scale == f, z3.Implies(z3.BoolVal(n > 3), w % 10 != 0))),
        z3.BoolVal(0 <= n <= 6), w >= 0, w < 10 ** n if n else w == 0)


def decode_timestamp(result):
    """python-side structural decoding of the symbolic result: returns (date_fields[6 Vals], dot:bool, w term, n int) or raises SortMismatch"""
    if result.sort != 'fmtstr': raise SortMismatch('result is not a formatted string: ' + result.sort)
    items = T.flatten_fmt(result)
    fields = []; i = 0
    for k, name in enumerate(DATE_ORDER):
        if i >= len(items) or items[i][0] != 'int' or items[i][1] != T.WIDTH[name]:
            raise SortMismatch(f'date field {name}: expected zero-padded width {T.WIDTH[name]} integer, got {items[i] if i < len(items) else None}')
        fields.append(items[i][2]); i += 1
        if k < 5:
            if i >= len(items) or items[i] != ('lit', DATE_SEPS[k]): raise SortMismatch(f'separator after {name}')
            i += 1
    rest = items[i:]
    if rest == [('lit', 'Z')]: return fields, False, z3.IntVal(0), 0
    if len(rest) == 3 and rest[0] == ('lit', '.') and rest[1][0] == 'val' and rest[1][1].sort == 'digits' and rest[2] == ('lit', 'Z'):
        w, n = rest[1][1].t
        return fields, True, w, n
    if len(rest) == 2 and rest[0][0] == 'val' and rest[0][1].sort == 'digits' and rest[1] == ('lit', 'Z'):
        w, n = rest[0][1].t      # digits without a dot
        return fields, False, w, n
    raise SortMismatch(f'tail of timestamp: {rest}')


def ens_date(a, r):
    d = a['dttm']; us = d.x['_us'].t
    fields, dot, w, n = decode_timestamp(r)
    sec = us / M
    return z3.And(*[f.t == T.CIVIL[name](sec) for f, name in zip(fields, DATE_ORDER)])


def _pc_of(d):
    if 'precision' in d.x: return d.x['precision'].t, d.x['precision_constraint'].t
    return PREC['ANY'], PCON['EXACT']


def ens_frac(a, r):
    d = a['dttm']; us = d.x['_us'].t
    fields, dot, w, n = decode_timestamp(r)
    P, C = _pc_of(d)
    return frac_spec(P, C, us % M, w, n)


def ens_dot(a, r):
    fields, dot, w, n = decode_timestamp(r)
    return z3.BoolVal(dot == (n > 0))


def ens_trunc(a, r):
    d = a['dttm']; us = d.x['_us'].t; f = us % M
    fields, dot, w, n = decode_timestamp(r)
    P, C = _pc_of(d)
    written = w * 10 ** (6 - n)
    unit = z3.If(z3.And(P == PREC['MILLISECOND'], C == PCON['EXACT']), 1000, z3.If(z3.And(P == PREC['SECOND'], C == PCON['EXACT']), M, 1))
    return z3.And(written <= f, f - written < unit)


def format_datetime_contract(with_precision=True):
    dttm = T.mk_datetime('dttm', with_precision=with_precision)
    return Contract(
        f'{SRC}::format_datetime', props=['C15', 'C01', 'C05', 'C11'],
        params={'dttm': dttm},
        requires=[('well-formed datetime', lambda a: T.well_formed_dt(a['dttm']))],
        ensures=[('date part = zero-padded civil fields (4-2-2T2:2:2) of the UTC instant', ens_date),
                 ('fraction digits as the precision and constraint require', ens_frac),
                 ('dot present iff there are fraction digits', ens_dot),
                 ('truncated, never rounded: written <= input < written + unit', ens_trunc)],
        raises={}, globals=ENUM_GLOBALS, assumptions=ASSUME_TIME,
        note='variant: ' + ('STIXdatetime (precision attributes present)' if with_precision else 'plain datetime (no precision attributes)'),
        replay=Replay(call=_call_format, lower=_lower_dttm, lift_params=lambda py: {'dttm': _lift_dttm(py['dttm'], with_precision)},
                      lift_result=_lift_ts_text, facts=lambda py: civil_facts_for([_us_of_py(py['dttm'])])))


# ------------------------------------------------------------------ native side (replay of counterexamples)
def _lower_dttm(model, name='dttm'):
    import stix2.utils as U
    us, off = model[f'{name}.us'], model[f'{name}.off']
    naive = model[f'{name}.tzinfo_is_none']
    wall = EPOCH.replace(tzinfo=None) + dtm.timedelta(microseconds=us + off)
    if naive: d = wall
    elif model.get(f'{name}.utcoffset_is_none'):
        class NoOffset(dtm.tzinfo):
            def utcoffset(self, d): return None
            def dst(self, d): return None
            def tzname(self, d): return 'none'
        d = wall.replace(tzinfo=NoOffset())
    else: d = wall.replace(tzinfo=dtm.timezone(dtm.timedelta(microseconds=off)))
    if f'{name}.precision' in model:
        d = U.STIXdatetime(d, precision=U.Precision[str(model[f'{name}.precision'])],
                           precision_constraint=U.PrecisionConstraint[str(model[f'{name}.precision_constraint'])])
    return {name: d}


def _call_format(py):
    import stix2.utils as U
    return U.format_datetime(py['dttm'])


def civil_from_us(us):
    """independent proleptic-Gregorian civil fields of an instant (days algorithm after H. Hinnant); no datetime involved"""
    sec, _ = divmod(us, M)
    days, rem = divmod(sec, 86400)
    z = days + 306                       # shift epoch from 0001-01-01 to 0000-03-01
    era, doe = divmod(z, 146097)
    yoe = (doe - doe // 1460 + doe // 36524 - doe // 146096) // 365
    y = yoe + era * 400
    doy = doe - (365 * yoe + yoe // 4 - yoe // 100)
    mp = (5 * doy + 2) // 153
    d = doy - (153 * mp + 2) // 5 + 1
    m = mp + 3 if mp < 10 else mp - 9
    if m <= 2: y += 1
    return {'year': y, 'month': m, 'day': d, 'hour': rem // 3600, 'minute': rem % 3600 // 60, 'second': rem % 60}


def _lift_dttm(d, with_precision):
    from vf.check import lift
    naive = d.tzinfo is None or d.tzinfo.utcoffset(d) is None
    off = 0 if naive else int(d.tzinfo.utcoffset(d) / dtm.timedelta(microseconds=1))
    wall = d.replace(tzinfo=None) - EPOCH.replace(tzinfo=None)
    wall_us = (wall.days * 86400 + wall.seconds) * M + wall.microseconds
    v = T.dt_record(z3.IntVal(wall_us - off), z3.IntVal(off), z3.BoolVal(d.tzinfo is None), z3.BoolVal(d.tzinfo is not None and naive))
    if with_precision:
        v.x['precision'] = E.enum_val('Precision', getattr(d, 'precision').name)
        v.x['precision_constraint'] = E.enum_val('PrecisionConstraint', getattr(d, 'precision_constraint').name)
    return v


def _us_of_py(d):
    naive = d.tzinfo is None or d.tzinfo.utcoffset(d) is None
    off = 0 if naive else int(d.tzinfo.utcoffset(d) / dtm.timedelta(microseconds=1))
    wall = d.replace(tzinfo=None) - EPOCH.replace(tzinfo=None)
    return (wall.days * 86400 + wall.seconds) * M + wall.microseconds - off


TS_RE = re.compile(r'^(\d+)-(\d+)-(\d+)T(\d+):(\d+):(\d+)(\.?)(\d*)Z\Z', re.A)


def _lift_ts_text(s):
    if not isinstance(s, str): return Val('opaque', x=repr(s))
    m = TS_RE.match(s)
    if not m: return Str(s)
    items = []
    for k, name in enumerate(DATE_ORDER):
        txt = m.group(k + 1)
        items.append(('int', len(txt), Int(int(txt))))
        if k < 5: items.append(('lit', DATE_SEPS[k]))
    if m.group(7): items.append(('lit', '.'))
    if m.group(8): items.append(('val', T.Digits.make(z3.IntVal(int(m.group(8))), len(m.group(8)))))
    items.append(('lit', 'Z'))
    return Val('fmtstr', x=items)


def civil_facts_for(us_values):
    """interpretation of the uninterpreted civil functions at the concrete seconds a native evaluation touches"""
    facts = []
    for us in us_values:
        c = civil_from_us(us)
        for f, val in c.items(): facts.append(T.CIVIL[f](z3.IntVal(us // M)) == val)
    return facts


# ------------------------------------------------------------------ parse_into_datetime
STRP = z3.Function('strptime_us', E.S, z3.IntSort())
DATE0 = z3.Function('date_midnight_us', z3.IntSort(), z3.IntSort())


def h_to_enum(x, e, p, site):
    """callee contract of to_enum (proved separately): an enum member of the right type is returned unchanged"""
    for p1, vs in x.ev_seq([e.args[0]], p):
        if isinstance(vs, Exc):
            yield p1, vs; continue
        v = vs[0]; want = 'enum:' + ast_name(e.args[1])
        if v.sort == want: yield p1, v
        else: raise Unsupported(site + f' to_enum of {v.sort}')


def ast_name(n):
    import ast
    return ast.unparse(n)


def h_strptime(x, e, p, site):
    """A(datetime.strptime): returns a naive datetime determined by the text, or raises ValueError/TypeError"""
    for p1, vs in x.ev_seq(list(e.args), p):
        if isinstance(vs, Exc):
            yield p1, vs; continue
        v = vs[0]
        if v.sort != 'str': raise Unsupported(site)
        yield p1.fork(), Exc('ValueError', site)
        q = p1.fork(STRP(v.t) >= 0)
        yield q, T.dt_record(STRP(v.t), z3.IntVal(0), z3.BoolVal(True))


def h_combine(x, e, p, site):
    """A(datetime.combine(date, time(0, 0, tzinfo=utc))): midnight UTC of that date"""
    for p1, vs in x.ev_seq([e.args[0]], p):
        if isinstance(vs, Exc):
            yield p1, vs; continue
        d = vs[0]
        yield p1, T.dt_record(d.x['_us'].t, z3.IntVal(0), z3.BoolVal(False))


def h_stixdatetime(x, e, p, site):
    """A(STIXdatetime(dt, precision=, precision_constraint=)): same datetime, carrying the two attributes [probed natively]"""
    for p1, vs in x.ev_seq([e.args[0]] + [k.value for k in e.keywords], p):
        if isinstance(vs, Exc):
            yield p1, vs; continue
        d = vs[0]; kw = dict(zip([k.arg for k in e.keywords], vs[1:]))
        yield p1, Val('rec', x=dict({k: v for k, v in d.x.items() if k != '_param'}, precision=kw['precision'], precision_constraint=kw['precision_constraint']))       # a new object, not the argument


def h_isinstance_date(x, v, p, site):
    yield p, Bool(v.sort == 'rec' and '_us' in v.x)


def parse_contract(kind):
    """kind: 'datetime' | 'stixdatetime' (a datetime that already carries precision settings, e.g. a property value of another object) | 'date' | 'str'"""
    if kind == 'str': value = 'str'
    else: value = T.mk_datetime('value', kind='datetime' if kind == 'stixdatetime' else kind, with_precision=(kind == 'stixdatetime'))
    params = {'value': value, 'precision': 'enum:Precision', 'precision_constraint': 'enum:PrecisionConstraint'}

    def us_in(a):
        return STRP(a['value'].t) if kind == 'str' else a['value'].x['_us'].t

    def wall_in(a):
        return STRP(a['value'].t) if kind == 'str' else a['value'].x['_us'].t + a['value'].x['_off'].t

    def ens_instant(a, r):
        P, C = a['precision'].t, a['precision_constraint'].t
        u = us_in(a); ru = r.x['_us'].t
        return z3.And(
            z3.Implies(z3.And(P == PREC['SECOND'], C == PCON['EXACT']), ru == u - wall_in(a) % M),
            z3.Implies(z3.And(P == PREC['MILLISECOND'], C == PCON['EXACT']), ru == u - u % 1000),
            z3.Implies(z3.Not(z3.And(z3.Or(P == PREC['SECOND'], P == PREC['MILLISECOND']), C == PCON['EXACT'])), ru == u))

    def ens_meta(a, r):
        return z3.And(r.x['precision'].t == a['precision'].t, r.x['precision_constraint'].t == a['precision_constraint'].t)

    def ens_aware(a, r):
        return z3.And(z3.Not(r.x['_tz_none'].t), z3.Not(r.x['tzinfo'].t[1].x['_offset_none'].t))

    # ---- native side: replay of solver candidates and a search family (used when the contract is undecided on the current source)
    def call(py):
        import stix2.utils as U, copy as _c
        v = py['value']
        before = (repr(v), getattr(v, 'precision', None), getattr(v, 'precision_constraint', None))
        r = U.parse_into_datetime(v, U.Precision[py['precision']], U.PrecisionConstraint[py['precision_constraint']])
        after = (repr(v), getattr(v, 'precision', None), getattr(v, 'precision_constraint', None))
        py['_argument_changed'] = None if before == after else f'{before} -> {after}'
        return r

    def lower(model):
        v = model['value'] if kind == 'str' else _lower_dttm(model, 'value')['value']
        if kind == 'date': v = v.date()
        return {'value': v, 'precision': str(model['precision']), 'precision_constraint': str(model['precision_constraint'])}

    def search():
        import stix2.utils as U
        if kind == 'str':
            vals = ['2020-01-01T00:00:00Z', '2020-01-01T00:00:00.1Z', '2020-01-01T00:00:00.120Z', '2020-01-01T00:00:00.123Z', '2020-01-01T00:00:00.000001Z', '2020-01-01T00:00:00.123456Z',
                    '2020-12-31T23:59:59.999999Z', '0001-01-01T00:00:00Z', '9999-12-31T23:59:59.999Z', '2020-02-29T12:00:00.5Z', 'garbage', '2020-13-01T00:00:00Z', '2020-01-01', '']
        elif kind == 'date': vals = [dtm.date(2020, 1, 1), dtm.date(1, 1, 1), dtm.date(9999, 12, 31), dtm.date(2020, 2, 29)]
        else:
            vals = []
            for us in (0, 1, 999, 1000, 123456, 999999):
                for tz in (None, dtm.timezone.utc, dtm.timezone(dtm.timedelta(hours=5, minutes=30)), dtm.timezone(dtm.timedelta(hours=-5))):
                    d = dtm.datetime(2020, 1, 1, 22, 59, 59, us, tzinfo=tz)
                    if kind == 'datetime': vals.append(d)
                    elif tz is not None:
                        for P0, C0 in (('MILLISECOND', 'EXACT'), ('SECOND', 'EXACT'), ('ANY', 'EXACT'), ('MILLISECOND', 'MIN')):
                            vals.append(U.STIXdatetime(d, precision=U.Precision[P0], precision_constraint=U.PrecisionConstraint[C0]))
        for v in vals:
            for P in ('ANY', 'SECOND', 'MILLISECOND'):
                for C in ('EXACT', 'MIN'): yield {'value': v, 'precision': P, 'precision_constraint': C}

    def judge(py, outcome, ob):
        kind_, val = outcome; v = py['value']; P, C = py['precision'], py['precision_constraint']
        what = f'parse_into_datetime({v!r}, {P}, {C})'
        if kind == 'str':
            m = TS_RE.match(v)
            u = None
            if m:
                try:
                    y, mo, d, h, mi, sec = (int(g) for g in m.groups()[:6]); frac = m.group(8)
                    if m.group(7) and not frac or len(frac) > 6: u = None
                    else: u = _us_of_py(dtm.datetime(y, mo, d, h, mi, sec, int(frac.ljust(6, '0')) if frac else 0))
                except ValueError: u = None
            if u is None:
                if kind_ == 'raise': return [] if isinstance(val, ValueError) else [f'{what} raised {type(val).__name__} instead of ValueError']
                return []        # how lenient the reader is with malformed text is not part of this contract
        elif kind == 'date': u = _us_of_py(dtm.datetime(v.year, v.month, v.day))
        else: u = _us_of_py(v)
        if kind_ == 'raise': return [f'{what} raised {type(val).__name__}: {val}']
        bad = []
        want = u - u % M if (P, C) == ('SECOND', 'EXACT') else u - u % 1000 if (P, C) == ('MILLISECOND', 'EXACT') else u
        if not isinstance(val, dtm.datetime) or val.tzinfo is None or val.tzinfo.utcoffset(val) is None: return [f'{what} -> {val!r}: not a timezone-aware datetime']
        if _us_of_py(val) != want: bad.append(f'{what} -> {val!r}: instant {_us_of_py(val)} us, expected {want} us (truncation only under an EXACT constraint, never rounding)')
        if getattr(getattr(val, 'precision', None), 'name', None) != P or getattr(getattr(val, 'precision_constraint', None), 'name', None) != C: bad.append(f'{what}: precision settings on the result are {getattr(val, "precision", None)}, {getattr(val, "precision_constraint", None)}')
        if py.get('_argument_changed'): bad.append(f'{what} modified its argument: {py["_argument_changed"]}')
        return bad
    rp = Replay(call=call, lower=lower, judge=judge); rp.search = search

    req = []
    if kind in ('datetime', 'stixdatetime'): req.append(('well-formed datetime', lambda a: T.well_formed_dt(a['value'])))
    if kind == 'date': req.append(('date: midnight', lambda a: z3.And(a['value'].x['_us'].t >= 0, a['value'].x['_us'].t % (86400 * M) == 0, a['value'].x['_off'].t == 0)))
    return Contract(
        f'{SRC}::parse_into_datetime', props=['C15', 'C01', 'C05', 'C02', 'C06', 'C13'], replay=rp,
        params=params, requires=req,
        ensures=[('instant preserved, truncated (never rounded) only under an EXACT constraint', ens_instant),
                 ('precision metadata recorded on the result', ens_meta),
                 ('result is timezone-aware', ens_aware)],
        raises={'ValueError': None} if kind == 'str' else {},
        globals=ENUM_GLOBALS,
        handlers={'to_enum': h_to_enum, 'dt.datetime.strptime': h_strptime, 'dt.datetime.combine': h_combine, 'STIXdatetime': h_stixdatetime,
                  'isinstance:dt.date': h_isinstance_date, 'dt.time': lambda x, e, p, site: iter([(p, Val('opaque', x='time'))])},
        assumptions=ASSUME_TIME + ['A(datetime.strptime): accepts exactly the two library formats and returns the naive datetime the text denotes, else ValueError; %f is left-aligned [probed natively on boundary strings]',
                                   'A(STIXdatetime.__new__): copies the datetime fields and stores the two precision attributes [probed natively]'],
        note=f'variant: value is a {kind}')


# ------------------------------------------------------------------ v20 _should_set_millisecond (precision of a 2.0 marking-definition's `created` decided from the value)
def should_set_millisecond_contract(kind):
    """kind: 'str' | 'datetime' | 'stixdatetime'.  The post-condition is the fixed-point condition of C01/C15: a value written under the
    any-precision property (answer False) is re-read as text; text with a '.' answers True and is then cut to three digits.  So False is only
    allowed when the written text has no fraction, i.e. the value has no sub-second part; and a text keeps the form it was given in."""
    E.declare_enum('MarkingType', ['TLP', 'STATEMENT', 'OTHER'])
    if kind == 'str': cr = 'str'
    else: cr = T.mk_datetime('cr', kind='datetime', with_precision=(kind == 'stixdatetime'))
    tlp = lambda a: a['marking_type'].t == E.ENUMS['MarkingType'][1]['TLP']

    def exact(a, r):
        if r.sort != 'bool': raise SortMismatch('result is not a bool')
        if kind == 'str': body = z3.Contains(a['cr'].t, z3.StringVal('.'))
        else:
            body = a['cr'].x['microsecond'].t != 0
            if kind == 'stixdatetime': body = z3.Or(a['cr'].x['precision'].t == PREC['MILLISECOND'], body)
        return r.t == z3.Or(tlp(a), body)

    def fixed_point(a, r):
        if r.sort != 'bool': raise SortMismatch('result is not a bool')
        if kind == 'str': return z3.Implies(z3.Contains(a['cr'].t, z3.StringVal('.')), r.t)
        return z3.Implies(a['cr'].x['microsecond'].t != 0, r.t)

    def call(py):
        import stix2.v20.common as C
        mt = {'TLP': C.TLPMarking, 'STATEMENT': C.StatementMarking, 'OTHER': dict}[py['marking_type']]
        return C._should_set_millisecond(py['cr'], mt)

    def lower(model):
        mt = str(model['marking_type'])
        if kind == 'str': return {'cr': model['cr'], 'marking_type': mt}
        d = _lower_dttm(model, 'cr')['cr']
        return {'cr': d, 'marking_type': mt}

    def lift_params(py):
        return {'cr': Str(py['cr']) if kind == 'str' else _lift_dttm(py['cr'], kind == 'stixdatetime'), 'marking_type': E.enum_val('MarkingType', py['marking_type'])}
    req = [] if kind == 'str' else [('well-formed datetime', lambda a: T.well_formed_dt(a['cr']))]
    return Contract('stix2/v20/common.py::_should_set_millisecond', props=['C15', 'C01'],
                    params={'cr': cr, 'marking_type': 'enum:MarkingType'}, requires=req,
                    ensures=[('a value with a sub-second part (a text with a fraction) is never left to the any-precision property', fixed_point),
                             ('answer == TLP or given with a fraction / millisecond precision / a non-zero microsecond', exact)],
                    raises={}, globals=dict(ENUM_GLOBALS, TLPMarking=E.enum_val('MarkingType', 'TLP')),
                    replay=Replay(call=call, lower=lower, lift_params=lift_params, facts=lambda py: () if kind == 'str' else civil_facts_for([_us_of_py(py['cr'])])), note=f'variant: created is a {kind}')


# ------------------------------------------------------------------ to_enum
def to_enum_contract(kind):
    """kind: 'member' | 'none' | 'str' | 'other' for the sort of `value`"""
    sorts = {'member': 'enum:Precision', 'none': 'none', 'str': 'str', 'other': 'int'}
    ENUMTYPE = Val('enumtype', x='Precision')
    member_named = z3.Function('Precision.member_named', E.S, E.ENUMS['Precision'][0])
    is_name = z3.Function('Precision.is_member_name', E.S, z3.BoolSort())

    def sub_enumtype(x, o, k, p, site):       # enum_type[name]: the member called name, else KeyError
        q = p.fork(is_name(k.t))
        if sat(q.pc): yield q, Val('enum:Precision', member_named(k.t))
        q = p.fork(z3.Not(is_name(k.t)))
        if sat(q.pc): yield q, Exc('KeyError', site)

    def h_isinstance_enum(x, v, p, site):
        yield p, Bool(v.sort == 'enum:Precision')

    def getattr_name(x, o, p, site): yield p, Str('Precision')
    ens = {'member': [('member returned unchanged', lambda a, r: expect(r, 'enum:Precision') == a['value'].t)],
           'none': [('None replaced by the default', lambda a, r: z3.And(z3.Not(expect(r, 'opt:enum:Precision')[0]), r.t[1].t == a['enum_default'].t[1].t))],
           'str': [('the member named by the upper-cased string', lambda a, r: z3.And(is_name(T_UP(a['value'].t)), expect(r, 'enum:Precision') == member_named(T_UP(a['value'].t))))],
           'other': []}[kind]
    raises = {'member': {}, 'none': {'TypeError': lambda a: a['enum_default'].t[0]},
              'str': {'KeyError': lambda a: z3.Not(is_name(T_UP(a['value'].t)))}, 'other': {'TypeError': lambda a: z3.BoolVal(True)}}[kind]
    c = Contract(f'{SRC}::to_enum', props=['C15'],
                 params={'value': sorts[kind], 'enum_type': ENUMTYPE, 'enum_default': 'opt:enum:Precision'},
                 ensures=ens, raises=raises,
                 handlers={'isinstance:enum_type': h_isinstance_enum, 'isinstance:str': lambda x, v, p, site: iter([(p, Bool(v.sort == 'str'))])},
                 note=f'variant: value is {kind}; enum_type = Precision (the code is generic in the enum type)')
    c.registry_ext = {'subscript': {('enumtype', 'str'): sub_enumtype}, 'attrs': {('enumtype', '__name__'): getattr_name}}
    return c


from vf.pyvc.lib import STR_UPPER as T_UP   # noqa: E402


# ------------------------------------------------------------------ lemmas over the two contracts (no code involved)
def lemmas():
    """L1 fixed point, L2 monotonicity, L3 injectivity of the fraction text, stated over the spec functions"""
    out = []
    f, g, w = z3.Ints('f g w')
    for P in PREC:
        for C in PCON:
            Pt, Ct = PREC[P], PCON[C]
            # written instant under (P,C): spec truncation
            def written(fr):
                return z3.If(z3.And(Pt == PREC['MILLISECOND'], Ct == PCON['EXACT']), fr - fr % 1000,
                             z3.If(z3.And(Pt == PREC['SECOND'], Ct == PCON['EXACT']), fr - fr % M, fr))
            out.append((f'L2 monotone [{P},{C}]: f<=g => written(f)<=written(g)',
                        z3.ForAll([f, g], z3.Implies(z3.And(0 <= f, f <= g), written(f) <= written(g)))))
            out.append((f'L1 fixed point [{P},{C}]: truncating an already written instant changes nothing',
                        z3.ForAll([f], z3.Implies(f >= 0, written(written(f)) == written(f)))))
            # text fixed point: digits (w,n) written for f; reading them back gives w*10^(6-n) (strptime %f left-aligned),
            # parse under (P,C) truncates, format writes (w',n'): must equal (w,n)
            for n in range(0, 7):
                for n2 in range(0, 7):
                    w2 = z3.Int('w2')
                    back = w * 10 ** (6 - n)
                    claim = z3.ForAll([f, w, w2], z3.Implies(
                        z3.And(0 <= f, f < M, frac_spec(Pt, Ct, f, w, n), frac_spec(Pt, Ct, written(back) % M, w2, n2)),
                        z3.And(z3.BoolVal(n == n2), w == w2, written(back) == back)))
                    out.append((f'L1 text fixed point [{P},{C}] n={n} n\'={n2}', claim))
    return out
