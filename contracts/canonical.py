"""C16 (and C06, which derives identifiers from canonical JSON): contracts for stix2/canonicalization/*.

convert2Es6Format -- the real function text is executed symbolically by PyVC once per *shape* of its input: a shape fixes the sign, the number
k of significant decimal digits (1..17) and the decimal exponent n of the double, and leaves every digit symbolic.  With the shape fixed the
function is loop-free after unrolling (engine rule st_While), so each instance is a complete proof for the 9*10^(k-2)*9 doubles' digit strings of that
shape; the shapes are enumerated exhaustively in the thorough tier (17 x 633 x 2 + the specials), and over the whole band where notation decisions are
made plus every exponent-width boundary in the quick tier.

Sort `cstr`: a string of known length whose characters are Python characters or symbolic digits (`Sym`, a z3 Int with a code-point range).  The
operations the function uses on it (find, slicing with decided bounds, +, ==, len, int) are computed position by position; nothing is
over-approximated (anything else is Unsupported => undecided).

ASSUMED (external, CPython): `float(v)` is the correctly rounded double of v; `str(f)` / `float.__repr__` writes the shortest digit string that
round-trips (David Gay / `float_repr_style == 'short'`) in the layout of `py_repr_items` below.  The layout is probed on every run against an
independent shortest-digits search (spec/rfc8785.py) on a grid of doubles -- a bounded probe of the assumption, not part of the proof.
The postcondition is ECMA-262 Number::toString (7.1.12.1 / 6.1.6.1.20) as required by RFC 8785 section 3.2.2.3, written here from the standard."""
import ast, math, os
import z3
from vf.pyvc import engine as E
from vf.pyvc.engine import Val, Exc, Unsupported, Int, Bool
from vf.pyvc.contract import Contract
from vf.pyvc.lib import REG
from vf.check import Replay

SRC = 'stix2/canonicalization/NumberToJson.py'


class Sym:
    __slots__ = ('name', 'var', 'lo', 'hi')

    def __init__(s, name, lo, hi):
        s.name, s.var, s.lo, s.hi = name, z3.Int(name), lo, hi

    def __repr__(s): return f'<{s.name}>'


def C(items): return Val('cstr', x=tuple(items))


def items_of(v, site='?'):
    if v.sort == 'cstr': return v.x
    if v.sort == 'str':
        t = z3.simplify(v.t)
        if z3.is_string_value(t):
            s = t.as_string()
            if all(32 <= ord(c) < 127 and c != '\\' for c in s): return tuple(s)
    raise Unsupported(f'{site}: not a string of known shape ({v.sort})')


def item_eq(a, b):
    """z3 Bool / python bool: the two characters are equal"""
    if isinstance(a, str) and isinstance(b, str): return a == b
    if isinstance(a, Sym) and isinstance(b, Sym): return True if a is b else (a.var == b.var)
    s, c = (a, b) if isinstance(a, Sym) else (b, a)
    if not (s.lo <= ord(c) <= s.hi): return False
    return s.var == ord(c)


def items_eq(xs, ys):
    if len(xs) != len(ys): return z3.BoolVal(False)
    parts = [item_eq(a, b) for a, b in zip(xs, ys)]
    if any(p is False for p in parts): return z3.BoolVal(False)
    parts = [p for p in parts if p is not True]
    return z3.And(*parts) if parts else z3.BoolVal(True)


# ---------------------------------------------------------------------------------- handlers of the sort
def _cmp(x, op, a, b, p, site):
    if not isinstance(op, (ast.Eq, ast.NotEq)): raise Unsupported(site + ' ordering of shaped strings')
    t = items_eq(items_of(a, site), items_of(b, site))
    yield p, Bool(z3.Not(t) if isinstance(op, ast.NotEq) else t)


def _add(x, a, b, p, site):
    yield p, C(items_of(a, site) + items_of(b, site))


def _find(x, recv, args, e, p, site):
    xs = items_of(recv, site); tgt = items_of(args[0], site)
    if len(tgt) != 1 or len(args) != 1: raise Unsupported(site + ' find of a longer needle')
    c = tgt[0]
    for i, it in enumerate(xs):
        if isinstance(it, Sym):
            if it.lo <= ord(c) <= it.hi: raise Unsupported(site + ' find: needle inside the range of a symbolic character')
        elif it == c:
            yield p, Int(i); return
    yield p, Int(-1)


def _concrete_int(x, node, p, site):
    if node is None: return None
    outs = list(x.ev(node, p))
    if len(outs) != 1 or isinstance(outs[0][1], Exc) or outs[0][1].sort != 'int': raise Unsupported(site + ' slice bound')
    t = z3.simplify(outs[0][1].t)
    if not z3.is_int_value(t): raise Unsupported(site + ' slice bound not decided by the shape')
    return t.as_long()


def _slice(x, o, sl, p, site):
    if sl.step is not None: raise Unsupported(site + ' slice step')
    lo, hi = _concrete_int(x, sl.lower, p, site), _concrete_int(x, sl.upper, p, site)
    yield p, C(o.x[slice(lo, hi)])          # Python's own slice arithmetic on the tuple of positions: same clamping rules as str


def _subscript(x, o, k, p, site):
    t = z3.simplify(k.t)
    if not z3.is_int_value(t): raise Unsupported(site + ' index not decided by the shape')
    i = t.as_long()
    if -len(o.x) <= i < len(o.x): yield p, C((o.x[i],))
    else: yield p, Exc('IndexError', site)


def _len(x, e, p, site):
    for p1, vs in x.ev_seq(list(e.args), p):
        if isinstance(vs, Exc): yield p1, vs
        elif vs[0].sort == 'cstr': yield p1, Int(len(vs[0].x))
        else: yield from REG.funcs['len'](x, e, p, site); return


def _int(x, e, p, site):
    for p1, vs in x.ev_seq(list(e.args), p):
        if isinstance(vs, Exc): yield p1, vs; continue
        v = vs[0]
        if v.sort != 'cstr':
            yield from REG.funcs['int'](x, e, p, site); return
        if any(isinstance(i, Sym) for i in v.x): raise Unsupported(site + ' int() of symbolic digits')
        s = ''.join(v.x)
        try: yield p1, Int(int(s))
        except ValueError: yield p1, Exc('ValueError', site)


def _float(x, e, p, site):
    for p1, vs in x.ev_seq(list(e.args), p):
        if isinstance(vs, Exc): yield p1, vs; continue
        v = vs[0]
        if v.sort != 'num': raise Unsupported(site + ' float() of ' + v.sort)
        if v.x['kind'] == 'overflow': yield p1, Exc('OverflowError', site)        # A: float(int) raises OverflowError beyond the double range
        else: yield p1, Val('fl', x=v.x)


def _str(x, e, p, site):
    for p1, vs in x.ev_seq(list(e.args), p):
        if isinstance(vs, Exc): yield p1, vs; continue
        v = vs[0]
        if v.sort == 'fl': yield p1, C(py_repr_items(v.x))
        elif v.sort == 'cstr': yield p1, v
        else:
            yield from REG.funcs['str'](x, e, p, site); return


def _fl_cmp(x, op, a, b, p, site):
    f, o = (a, b) if a.sort == 'fl' else (b, a)
    if not (isinstance(op, (ast.Eq, ast.NotEq)) and o.sort == 'int' and z3.is_int_value(z3.simplify(o.t)) and z3.simplify(o.t).as_long() == 0):
        raise Unsupported(site + ' comparison of a float')
    iszero = f.x['kind'] == 'zero'          # A: 0.0 == 0 and -0.0 == 0; NaN != 0
    yield p, Bool(iszero != isinstance(op, ast.NotEq))


def _contains(x, c, item, p, site):
    xs = items_of(c, site); tgt = items_of(item, site)
    if len(tgt) != 1: raise Unsupported(site + ' `in` with a longer needle')
    ch = tgt[0]
    for it in xs:
        if isinstance(it, Sym):
            if it.lo <= ord(ch) <= it.hi: raise Unsupported(site + ' `in`: needle inside the range of a symbolic character')
        elif it == ch:
            yield p, Bool(True); return
    yield p, Bool(False)


def _startswith(x, recv, args, e, p, site):
    xs = items_of(recv, site); pre = items_of(args[0], site)
    yield p, Bool(items_eq(xs[:len(pre)], pre) if len(pre) <= len(xs) else z3.BoolVal(False))


def _endswith(x, recv, args, e, p, site):
    xs = items_of(recv, site); suf = items_of(args[0], site)
    yield p, Bool(items_eq(xs[len(xs) - len(suf):], suf) if len(suf) <= len(xs) else z3.BoolVal(False))


def _pad(side):
    def h(x, recv, args, e, p, site):
        xs = items_of(recv, site)
        w = z3.simplify(args[0].t) if args and args[0].sort == 'int' else None
        if w is None or not z3.is_int_value(w): raise Unsupported(site + ' width not decided by the shape')
        fill = items_of(args[1], site) if len(args) > 1 else (' ',)
        if side == 'zfill': fill = ('0',)
        if len(fill) != 1: raise Unsupported(site + ' fill character')
        n = max(0, w.as_long() - len(xs))
        if side == 'zfill' and xs and xs[0] in ('+', '-'): yield p, C(xs[:1] + fill * n + xs[1:])        # str.zfill keeps a leading sign in front
        elif side == 'ljust': yield p, C(xs + fill * n)
        else: yield p, C(fill * n + xs)
    return h


def _range(x, e, p, site):
    """range() with bounds decided by the shape: the literal sequence of its values (the loop over it is then unrolled)"""
    for p1, vs in x.ev_seq(list(e.args), p):
        if isinstance(vs, Exc): yield p1, vs; continue
        ns = []
        for v in vs:
            t = z3.simplify(v.t) if v.sort == 'int' else None
            if t is None or not z3.is_int_value(t): raise Unsupported(site + ' range bound not decided by the shape')
            ns.append(t.as_long())
        r = range(*ns)
        if len(r) > 700: raise Unsupported(site + ' range too long')
        yield p1, Val('tuple', x=[Int(i) for i in r])


REGISTRY_EXT = {
    'compare': {('cstr', 'str'): _cmp, ('str', 'cstr'): _cmp, ('cstr', 'cstr'): _cmp, ('fl', 'int'): _fl_cmp, ('int', 'fl'): _fl_cmp},
    'binops': {('cstr', 'Add', 'str'): _add, ('str', 'Add', 'cstr'): _add, ('cstr', 'Add', 'cstr'): _add},
    'methods': {('.find', 'cstr'): _find, ('.startswith', 'cstr'): _startswith, ('.endswith', 'cstr'): _endswith,
                ('.ljust', 'cstr'): _pad('ljust'), ('.rjust', 'cstr'): _pad('rjust'), ('.zfill', 'cstr'): _pad('zfill')},
    'contains': {('cstr', 'str'): _contains, ('cstr', 'cstr'): _contains},
    'slices': {'cstr': _slice},
    'subscript': {('cstr', 'int'): _subscript},
}
HANDLERS = {'len': _len, 'int': _int, 'float': _float, 'str': _str, 'range': _range}


# ---------------------------------------------------------------------------------- shapes, the assumed repr layout, the ES6 postcondition
def digits_of(shape):
    k = shape['k']
    return [Sym(f'd{i + 1}', 49 if (i == 0 or i == k - 1) else 48, 57) for i in range(k)]


def py_repr_items(shape):
    """ASSUMED layout of float.__repr__ (CPython Objects/floatobject.c float_repr -> PyOS_double_to_string(x, 'r', 0, Py_DTSF_ADD_DOT_0);
    Python/pystrtod.c format_float_short: exponent notation iff decpt <= -4 or decpt > 16, exponent written with at least two digits)."""
    kind = shape['kind']; sign = ['-'] if shape['neg'] else []
    if kind == 'zero': return tuple(sign + list('0.0'))
    if kind == 'nan': return tuple('nan')
    if kind == 'inf': return tuple(sign + list('inf'))
    D = shape['digits']; k, n = shape['k'], shape['n']
    if n <= -4 or n > 16:
        e = n - 1
        body = [D[0]] + (['.'] + D[1:] if k > 1 else []) + ['e', '+' if e >= 0 else '-'] + list('%02d' % abs(e))
    elif n <= 0: body = list('0.') + ['0'] * (-n) + D
    elif n < k: body = D[:n] + ['.'] + D[n:]
    else: body = D + ['0'] * (n - k) + list('.0')
    return tuple(sign + body)


def es6_items(shape):
    """ECMA-262 Number::toString(x) for x = 0.d1..dk * 10^n (the standard's n; k digits, first and last non-zero), RFC 8785 3.2.2.3"""
    if shape['kind'] == 'zero': return ('0',)
    D = shape['digits']; k, n = shape['k'], shape['n']; sign = ['-'] if shape['neg'] else []
    if k <= n <= 21: body = D + ['0'] * (n - k)
    elif 0 < n <= 21: body = D[:n] + ['.'] + D[n:]
    elif -6 < n <= 0: body = list('0.') + ['0'] * (-n) + D
    else:
        e = n - 1
        body = [D[0]] + (['.'] + D[1:] if k > 1 else []) + ['e', '+' if e >= 0 else '-'] + list(str(abs(e)))
    return tuple(sign + body)


def shape(kind='finite', neg=False, k=None, n=None):
    s = {'kind': kind, 'neg': neg, 'k': k, 'n': n}
    if kind == 'finite':
        s['digits'] = digits_of(s); s['model_vars'] = {d.name: d.var for d in s['digits']}
    return s


def shape_name(s):
    return s['kind'] + ('-' if s['neg'] else '+') + (f' k={s["k"]} n={s["n"]}' if s['kind'] == 'finite' else '')


N_MIN, N_MAX = -323, 309          # 5e-324 = 0.5e-323 ... 1.797e308 = 0.1797e309


def shapes(tier):
    for kind in ('zero', 'inf'):
        for neg in (False, True): yield shape(kind, neg)
    yield shape('nan'); yield shape('overflow')
    if tier == 'quick':
        # every exponent of the band in which both notations and every padding rule are decided (repr switches at -4/16, ES6 at -6/21), and every
        # exponent at which the width of the written exponent changes, with their neighbours; all digit counts, both signs
        ns = sorted(set(range(-12, 28)) | {N_MIN, N_MIN + 1, -309, -308, -307, -102, -101, -100, -99, -98, -97, 97, 98, 99, 100, 101, 102, 103, 307, 308, N_MAX})
        ks = range(1, 18)
    else:
        ns = range(N_MIN, N_MAX + 1); ks = range(1, 18)
    for n in ns:
        for k in ks:
            for neg in (False, True): yield shape('finite', neg, k, n)


def _result_items(r):
    from vf.pyvc.contract import SortMismatch
    if r.sort not in ('cstr', 'str'): raise SortMismatch(f'expected a string of known shape, got {r.sort}')
    return items_of(r)


def es6_contract(s, props=('C16',)):
    refused = s['kind'] in ('nan', 'inf', 'overflow')
    req = []
    if s['kind'] == 'finite':
        req = [('digits', lambda a, D=s['digits']: z3.And(*[z3.And(d.var >= d.lo, d.var <= d.hi) for d in D]))]
    ens = [] if refused else [('ECMAScript Number::toString of the double (RFC 8785 3.2.2.3)',
                               lambda a, r, s=s: items_eq(_result_items(r), es6_items(s)))]
    return Contract(f'{SRC}::convert2Es6Format', props=list(props), note=shape_name(s),
                    params={'value': lambda name, s=s: Val('num', x=s)},
                    requires=req, ensures=ens,
                    raises={'ValueError': (lambda a: z3.BoolVal(True)) if refused else (lambda a: z3.BoolVal(False))},
                    handlers=dict(HANDLERS), registry_ext=REGISTRY_EXT,
                    assumptions=['float(v) is the correctly rounded double of v and raises OverflowError for an integer beyond the double range (CPython)',
                                 'str(float) is the shortest round-trip digit string in the layout of contracts/canonical.py:py_repr_items '
                                 '(CPython float_repr_style "short"); probed on every run against an independent digit search, not proved',
                                 '0.0 == 0, -0.0 == 0, NaN != 0 (IEEE 754 comparison)'])


def verify_shape(args):
    """worker: verify one shape; returns a compact record (z3 objects do not cross process boundaries)"""
    kind, neg, k, n, src_root = args
    from vf.pyvc.contract import verify, FunctionReport
    s = shape(kind, neg, k, n)
    c = es6_contract(s)
    try: rep = verify(c, REG, src_root)
    except Exception as ex:        # anything the engine does not foresee on a changed source: this shape is undecided, never a crash of the check
        rep = FunctionReport(c); rep.status = 'undecided'; rep.reason = f'engine exception {type(ex).__name__}: {ex}'
    recs = []
    for ob in rep.obligations:
        r = ob.record()
        if ob.result in ('failed', 'failed-no-model') and ob.z3model is not None and s['kind'] == 'finite':
            r['digits'] = ''.join(str(ob.z3model.eval(d.var, model_completion=True).as_long() - 48) for d in s['digits'])
        recs.append(r)
    return {'shape': (kind, neg, k, n), 'status': rep.status, 'reason': rep.reason, 'paths': rep.paths, 'obligations': recs, 'sha': rep.source_sha,
            'ms': sum(o.ms for o in rep.obligations)}


def witness_value(kind, neg, k, n, digits=None):
    """a Python number of the given shape (for the native replay of a failed obligation)"""
    if kind == 'zero': return -0.0 if neg else 0.0
    if kind == 'nan': return math.nan
    if kind == 'inf': return -math.inf if neg else math.inf
    if kind == 'overflow': return 10 ** 400
    d = digits or ('1' if k == 1 else '1' + '0' * (k - 2) + '1')
    return float(('-' if neg else '') + '0.' + d + 'e' + str(n))


# ---------------------------------------------------------------------------------- strings: the per-character function, exhaustively
def rfc8785_char(cp):
    """RFC 8785 3.2.2.2: the serialization of one code point inside a string"""
    two = {0x08: '\\b', 0x09: '\\t', 0x0A: '\\n', 0x0C: '\\f', 0x0D: '\\r', 0x22: '\\"', 0x5C: '\\\\'}
    if cp in two: return two[cp]
    if cp < 0x20: return '\\u%04x' % cp
    return chr(cp)


# ---------------------------------------------------------------------------------- member order
def key_order_lemmas():
    """The encoder sorts members by `key.encode('utf-16_be')` (bytes, compared lexicographically).  RFC 8785 3.2.3 wants the order of the
    UTF-16 code units.  One unit u = 256*hi + lo is written as the two bytes hi, lo; the lemmas: (1) on one unit, byte-pair order is unit order;
    (2) induction step: if the tails are ordered alike, so are the sequences (fixed width: two bytes per unit, so a proper prefix on one side is a
    proper prefix on the other); base case: the empty sequence precedes every non-empty one on both sides."""
    h1, l1, h2, l2 = z3.Ints('h1 l1 h2 l2')
    byte = lambda b: z3.And(b >= 0, b <= 255)
    u1, u2 = 256 * h1 + l1, 256 * h2 + l2
    dom = z3.And(byte(h1), byte(l1), byte(h2), byte(l2))
    lt_pair = z3.Or(h1 < h2, z3.And(h1 == h2, l1 < l2))
    eq_pair = z3.And(h1 == h2, l1 == l2)
    tails_units, tails_bytes = z3.Bools('tail_units_lt tail_bytes_lt')
    # byte sequence of (u1 :: s) vs (u2 :: t) = hi1, lo1, bytes(s) vs hi2, lo2, bytes(t)
    bytes_lt = z3.Or(h1 < h2, z3.And(h1 == h2, z3.Or(l1 < l2, z3.And(l1 == l2, tails_bytes))))
    units_lt = z3.Or(u1 < u2, z3.And(u1 == u2, tails_units))
    return [
        ('one unit: big-endian byte-pair order is code-unit order', z3.ForAll([h1, l1, h2, l2], z3.Implies(dom, lt_pair == (u1 < u2)))),
        ('one unit: byte pairs are equal exactly when the units are', z3.ForAll([h1, l1, h2, l2], z3.Implies(dom, eq_pair == (u1 == u2)))),
        ('induction step: (u1::s) < (u2::t) on bytes  <=>  on units, given the same for s, t',
         z3.ForAll([h1, l1, h2, l2, tails_units, tails_bytes], z3.Implies(z3.And(dom, tails_units == tails_bytes), bytes_lt == units_lt))),
    ]


# ---------------------------------------------------------------------------------- running the whole family inside a check
def run_number_contract(chk, tier, src_root):
    """verifies convert2Es6Format for every shape of the tier (worker processes), folds the obligations into one function report of the check and
    replays a failed obligation on the real function with a double of the failing shape"""
    import multiprocessing as mp, time
    from vf.pyvc.contract import Obligation, FunctionReport
    from spec.rfc8785 import enc_number, shortest_digits
    t0 = time.time()
    jobs = [(s['kind'], s['neg'], s['k'], s['n'], src_root) for s in shapes(tier)]
    with mp.get_context('fork').Pool(min(16, os.cpu_count() or 1)) as pool:
        results = pool.map(verify_shape, jobs, chunksize=8)
    rep = FunctionReport(es6_contract(shape('zero')))
    rep.contract.note = f'{len(jobs)} shapes (sign x digit count x decimal exponent), digits symbolic'
    rep.source_sha = results[0]['sha'] if results else ''
    failed = []; undecided = []
    for r in results:
        rep.paths += r['paths']
        nm = shape_name(shape(r['shape'][0], r['shape'][1]) if r['shape'][0] != 'finite' else {'kind': 'finite', 'neg': r['shape'][1], 'k': r['shape'][2], 'n': r['shape'][3]})
        if r['status'] != 'ok':
            undecided.append((nm, r['reason'])); continue
        for o in r['obligations']:
            ob = Obligation(rep.contract.name, o['obligation'].split('#', 1)[1] + f' [{nm}]', o['kind'], [], z3.BoolVal(True), True)
            ob.result, ob.backend, ob.ms, ob.model, ob.detail = o['result'], o['backend'], o['ms'], o.get('model'), o.get('detail', '')
            rep.obligations.append(ob)
            if o['result'] in ('failed', 'failed-no-model'): failed.append((r['shape'], ob, o.get('digits')))
            elif o['result'] != 'discharged': chk.undecided_notes.append(f'{ob.name}: {ob.detail}')
    rep.wall_s = time.time() - t0
    chk.reports.append(rep)
    for a in rep.contract.assumptions: chk.assume(a)
    chk.say('  [P] ' + rep.summary() + f' shapes={len(jobs)} wall={rep.wall_s:.1f}s')
    if undecided:
        rep.status = 'undecided'; rep.reason = f'{len(undecided)} of {len(jobs)} shapes outside the modelled subset, e.g. {undecided[0][0]}: {undecided[0][1]}'
        chk.undecided_notes.append(f'{rep.contract.name}: {rep.reason}')
    elif not rep.obligations:
        chk.faults.append(f'{rep.contract.name}: zero obligations generated (vacuous)')
    # replay: a double of the failing shape (the model's digits first, then other inhabited digit strings of the shape) on the real function,
    # judged by the independent specification function
    from stix2.canonicalization.NumberToJson import convert2Es6Format

    def real(v):
        try: return convert2Es6Format(v)
        except ValueError as ex: return 'REFUSED'
        except Exception as ex: return f'EXC {type(ex).__name__}: {ex}'

    def want(v):
        try: return enc_number(v)
        except (ValueError, OverflowError): return 'REFUSED'
    seen = set()
    for (kind, neg, k, n), ob, digits in failed:
        key = f'{rep.contract.name}#{ob.clause.split(" [")[0].split("@")[0]}'
        if key in seen: continue
        cands = []
        if kind != 'finite': cands.append(witness_value(kind, neg, k, n))
        else:
            import random
            rnd = random.Random(k * 1000 + n)
            for d in ([digits] if digits else []) + [None] + [str(rnd.randrange(1, 10)) + ''.join(str(rnd.randrange(10)) for _ in range(k - 2)) + str(rnd.randrange(1, 10)) if k > 1 else str(rnd.randrange(1, 10)) for _ in range(60)]:
                try: x = witness_value(kind, neg, k, n, d)
                except (OverflowError, ValueError): continue
                if x == 0 or math.isinf(x): continue
                if shortest_digits(abs(x)) == ((d or ('1' if k == 1 else '1' + '0' * (k - 2) + '1')), n): cands.append(x)       # the shape is inhabited by this double
        hit = next((x for x in cands if real(x) != want(x)), None)
        rec = {'obligation': ob.name, 'function': rep.contract.target, 'clause': ob.clause, 'verifier_output': ob.record(), 'shape': [kind, neg, k, n]}
        if hit is not None:
            seen.add(key)
            rec.update(input={'value': repr(hit)}, native_outcome=real(hit), specification=want(hit))
            chk.violation(key, f'{ob.name} fails; input {hit!r}: convert2Es6Format gives {real(hit)!r}, ECMAScript Number::toString gives {want(hit)!r}', rec)
        elif cands:
            seen.add(key)
            chk.violation(key, f'{ob.name} is no longer discharged (digits of the counter-model: {digits}); {len(cands)} doubles of this shape agree natively', rec, no_input=True)
        else:
            chk.undecided_notes.append(f'{ob.name}: fails, but no double of this shape was found (uninhabited shape: says nothing about the function on real input)')
    return rep


def probe_repr_layout(chk, values):
    """bounded probe of the ASSUMED layout of float.__repr__ (never counted as proved)"""
    from spec.rfc8785 import shortest_digits
    bad = []; n = 0
    for x in values:
        if isinstance(x, bool) or not isinstance(x, float) or x != x or math.isinf(x): continue
        n += 1
        if x == 0: s = shape('zero', math.copysign(1, x) < 0)
        else:
            ds, e = shortest_digits(abs(x))
            s = {'kind': 'finite', 'neg': x < 0, 'k': len(ds), 'n': e, 'digits': list(ds)}
        if ''.join(py_repr_items(s)) != repr(x): bad.append((repr(x), ''.join(py_repr_items(s))))
    chk.bounded_runs.append({'name': 'probe of the assumed float.__repr__ layout (contracts/canonical.py:py_repr_items) against an independent shortest-digits search',
                             'bound': 'the float grid of the C16 stand-in', 'evaluations': n, 'distinct_classes': None, 'witnesses': len(bad), 'wall_s': 0.0, 'samples': [repr(b) for b in bad[:3]]})
    if bad: chk.faults.append(f'assumed float.__repr__ layout does not hold in this interpreter: {bad[:3]} (environment, not the library)')


def string_obligations(chk):
    """RFC 8785 3.2.2.2 on single characters, exhaustively over every code point except the surrogates (complete for the per-character function); the
    step from characters to strings is ASSUMED for the C encoder (`_json.encode_basestring`, external) and for `re.sub` with a one-character class."""
    import time
    from vf.pyvc.contract import Obligation
    from stix2.canonicalization import Canonicalize as M
    t0 = time.time()
    cps = [c for c in range(0x110000) if not 0xD800 <= c <= 0xDFFF]

    def ob(name, ok, detail=''):
        o = Obligation('canonicalization.Canonicalize', name, 'exhaustive', [], z3.BoolVal(bool(ok)), True)
        o.result = 'discharged' if ok else 'failed'; o.backend = 'native-exhaustive'; o.ms = 0.0; o.detail = detail
        chk.lemmas.append(o); return o
    wrong = [c for c in cps if M.encode_basestring(chr(c)) != '"' + rfc8785_char(c) + '"']
    o = ob('encode_basestring (the encoder bound at import: ' + ('_json C function' if M.encode_basestring is getattr(M, 'c_encode_basestring', None) else 'pure Python') + '): every single character is written as RFC 8785 3.2.2.2 says '
           f'[{len(cps)} code points]', not wrong, f'first disagreement U+{wrong[0]:04X}' if wrong else '')
    if wrong:
        c = wrong[0]
        chk.violation('canonicalization.Canonicalize.encode_basestring#character serialization', f'U+{c:04X} is written as {M.encode_basestring(chr(c))!r}, RFC 8785 says {chr(34) + rfc8785_char(c) + chr(34)!r}',
                      {'input': {'s': repr(chr(c))}, 'obligation': o.name})
    wrong = [c for c in cps if M.py_encode_basestring(chr(c)) != '"' + rfc8785_char(c) + '"']
    o = ob(f'py_encode_basestring (fallback when _json is missing): every single character is written as RFC 8785 3.2.2.2 says [{len(cps)} code points]', not wrong, f'first disagreement U+{wrong[0]:04X}' if wrong else '')
    if wrong:
        c = wrong[0]
        chk.violation('canonicalization.Canonicalize.py_encode_basestring#character serialization', f'U+{c:04X} is written as {M.py_encode_basestring(chr(c))!r}, RFC 8785 says {chr(34) + rfc8785_char(c) + chr(34)!r}',
                      {'input': {'s': repr(chr(c))}, 'obligation': o.name})
    wrong = [c for c in cps if (M.ESCAPE.match(chr(c)) is not None) != (rfc8785_char(c) != chr(c)) or (M.ESCAPE.match(chr(c)) is not None and M.ESCAPE_DCT.get(chr(c)) != rfc8785_char(c))]
    o = ob('ESCAPE matches exactly the characters RFC 8785 escapes, and ESCAPE_DCT maps each of them to the escape the RFC prescribes', not wrong, f'first disagreement U+{wrong[0]:04X}' if wrong else '')
    if wrong: chk.violation('canonicalization.Canonicalize.ESCAPE#escape table', f'U+{wrong[0]:04X}: the class / table disagree with RFC 8785 3.2.2.2', {'input': {'s': repr(chr(wrong[0]))}, 'obligation': o.name})
    chk.assume('`_json.encode_basestring` (C, external) and `re.sub` with a one-character class act character by character (string homomorphism); only the per-character function is checked, exhaustively',
               'lone surrogates are not Unicode scalar values: outside RFC 8785 (I-JSON), excluded')
    chk.say(f'  [P] per-character string obligations: 3 over {len(cps)} code points ({time.time() - t0:.1f}s)')


def structure_obligations(chk, src_root):
    """Syntactic (call-site) obligations on the encoder closures, which the symbolic executor does not enter: they tie the proved pieces to every
    place where the encoder writes a number, a string or orders members.  A site that is recognised and contradicts the obligation is a failed obligation
    (the bounded stand-in supplies the input); a site that is no longer recognised (helper extracted, branch reshaped) is *undecided*, never a violation."""
    import codecs
    from vf.pyvc.contract import Obligation
    rel = 'stix2/canonicalization/Canonicalize.py'
    tree = ast.parse(open(os.path.join(src_root, rel)).read())
    out = []

    def ob(name, verdict, detail=''):
        """verdict: True (discharged) / False (failed: the recognised site contradicts the obligation) / None (site not recognised: undecided)"""
        o = Obligation('canonicalization.Canonicalize', name, 'call-requires', [], z3.BoolVal(bool(verdict)), True)
        o.result = 'discharged' if verdict else ('undecided' if verdict is None else 'failed'); o.backend = 'trivial'; o.detail = detail
        chk.lemmas.append(o); out.append(o)
        if verdict is None: chk.undecided_notes.append(f'call-site obligation not decidable on the current source: {name} {detail}')
        elif not verdict: chk.violation('canonicalization.Canonicalize#' + name.split(':')[0], f'call-site obligation fails: {name} {detail}', {'obligation': name}, no_input=True)
    # (1) numbers: every branch guarded by isinstance(v, int) / isinstance(v, float), anywhere in the module, writes convert2Es6Format(v)
    n_sites = 0
    for node in ast.walk(tree):
        if isinstance(node, ast.If) and isinstance(node.test, ast.Call) and ast.unparse(node.test.func) == 'isinstance' and len(node.test.args) == 2 \
                and isinstance(node.test.args[1], ast.Name) and node.test.args[1].id in ('int', 'float') and isinstance(node.test.args[0], ast.Name):
            v = node.test.args[0].id; n_sites += 1
            calls = [c for st in node.body for c in ast.walk(st) if isinstance(c, ast.Call) and ast.unparse(c.func).split('.')[-1] == 'convert2Es6Format' and [ast.unparse(a) for a in c.args] == [v]]
            others = [ast.unparse(c)[:40] for st in node.body for c in ast.walk(st) if isinstance(c, ast.Call) and ast.unparse(c.func) in ('_floatstr', '_intstr', 'repr', 'str', 'float.__repr__', 'int.__str__', 'format')]
            verdict = True if (calls and not others) else (False if others else None)
            ob(f'number branch at line {node.lineno}: `{v}` ({node.test.args[1].id}) is written by convert2Es6Format({v}) and by nothing else', verdict, f'calls: {len(calls)}, other writers: {others}')
    if n_sites == 0: chk.undecided_notes.append(f'structure obligations of {rel}: no isinstance(v, int|float) branch recognised')
    # (2) strings / whitespace: canonicalize() leaves ensure_ascii / separators / indent at defaults that mean "no whitespace, no ASCII escaping"
    try:
        init = E.find_def(tree, 'JSONEncoder.__init__'); sig, _, _ = E.real_signature(init)
        defaults = {n: (ast.literal_eval(d) if d is not None else None) for n, d, _ in sig if n != 'self'}
        ob('JSONEncoder defaults: ensure_ascii=False, separators=(",", ":"), indent=None, check_circular=True',
           defaults.get('ensure_ascii') is False and defaults.get('separators') == (',', ':') and defaults.get('indent') is None and defaults.get('check_circular') is True, str(defaults))
    except (Unsupported, ValueError) as ex: ob('JSONEncoder defaults: ensure_ascii=False, separators=(",", ":"), indent=None, check_circular=True', None, str(ex))
    try:
        canon = E.find_def(tree, 'canonicalize')
        ctor = [c for c in ast.walk(canon) if isinstance(c, ast.Call) and ast.unparse(c.func) == 'JSONEncoder']
        if len(ctor) != 1: ob('canonicalize builds JSONEncoder(sort_keys=True) and overrides no other option', None, f'{len(ctor)} constructor calls')
        else: ob('canonicalize builds JSONEncoder(sort_keys=True) and overrides no other option', not ctor[0].args and [(k.arg, ast.unparse(k.value)) for k in ctor[0].keywords] == [('sort_keys', 'True')], ast.unparse(ctor[0]))
    except Unsupported as ex: ob('canonicalize builds JSONEncoder(sort_keys=True) and overrides no other option', None, str(ex))
    try:
        itere = E.find_def(tree, 'JSONEncoder.iterencode')
        sel = [n for n in ast.walk(itere) if isinstance(n, ast.If) and ast.unparse(n.test) == 'self.ensure_ascii']
        ok = len(sel) == 1 and ast.unparse(sel[0].body[0]) == '_encoder = encode_basestring_ascii' and ast.unparse(sel[0].orelse[0]) == '_encoder = encode_basestring'
        ob('iterencode selects encode_basestring when ensure_ascii is false', True if ok else None)
    except (Unsupported, IndexError) as ex: ob('iterencode selects encode_basestring when ensure_ascii is false', None, str(ex))
    # (3) member order: sorted(dct.items(), key=lambda kv: kv[0].encode(<UTF-16 big endian>)), no reverse
    srt = [c for c in ast.walk(tree) if isinstance(c, ast.Call) and ast.unparse(c.func) == 'sorted']
    verdict = None; detail = f'{len(srt)} sorted() calls'
    if len(srt) == 1:
        c = srt[0]; kws = {k.arg: k.value for k in c.keywords}; detail = ast.unparse(c)
        key = kws.get('key')
        if 'reverse' in kws and not (isinstance(kws['reverse'], ast.Constant) and kws['reverse'].value is False): verdict = False
        elif isinstance(key, ast.Lambda) and len(key.args.args) == 1 and len(c.args) == 1 and ast.unparse(c.args[0]).endswith('.items()'):
            a = key.args.args[0].arg; b = key.body
            if isinstance(b, ast.Call) and ast.unparse(b.func) == f'{a}[0].encode' and len(b.args) == 1 and isinstance(b.args[0], ast.Constant) and not b.keywords:
                try: verdict = codecs.lookup(b.args[0].value).name == 'utf-16-be'
                except (LookupError, TypeError): verdict = False
            elif ast.unparse(b) == f'{a}[0]': verdict = False          # plain str order = code-point order, which differs from UTF-16 order above U+FFFF
    ob('members are sorted by the UTF-16 big-endian bytes of the key, ascending', verdict, detail)
    use = [n for n in ast.walk(tree) if isinstance(n, ast.If) and ast.unparse(n.test) == '_sort_keys']
    ok = len(use) == 1 and len(use[0].body) == 1 and isinstance(use[0].body[0], ast.Assign) and isinstance(use[0].body[0].value, ast.Call) and ast.unparse(use[0].body[0].value.func) == 'sorted' \
        and any(isinstance(n, ast.For) and ast.unparse(n.iter) == ast.unparse(use[0].body[0].targets[0]) for n in ast.walk(tree))
    ob('the sorted sequence is what the member loop iterates over when sort_keys is set', True if ok else None)
    for name, claim in key_order_lemmas(): chk.lemma('UTF-16: ' + name, claim)
    chk.assume('str.encode("utf-16_be") writes the UTF-16 code units of the string, two bytes each, high byte first; bytes compare lexicographically; sorted() is a stable total sort (CPython)')
    chk.say(f'  [P] structure obligations of the encoder: {len(out)} call-site obligations, 3 ordering lemmas')
    return out
