"""C09: contracts for the leaf comparators of pattern equivalence (stix2/equivalence/pattern/compare/__init__.py)."""
import ast
import z3
from vf.pyvc import engine as E
from vf.pyvc.engine import Val, Exc, Unsupported, NONE, Int, Bool, Str, Seq, S, sat
from vf.pyvc.contract import Contract, expect
from vf.check import Replay

CMP = 'stix2/equivalence/pattern/compare/__init__.py'


def generic_cmp_contract(sort):
    def call(py):
        from stix2.equivalence.pattern.compare import generic_cmp
        return generic_cmp(py['value1'], py['value2'])
    lt = (lambda a, b: a < b)
    return Contract(f'{CMP}::generic_cmp', props=['C09'], params={'value1': sort, 'value2': sort},
                    ensures=[('three-way comparison: -1 / 0 / 1 exactly as the values are ordered', lambda a, r: expect(r, 'int') ==
                              z3.If(lt(a['value1'].t, a['value2'].t), -1, z3.If(lt(a['value2'].t, a['value1'].t), 1, 0)))],
                    raises={}, replay=Replay(call=call), note=f'operands of sort {sort}')


def cmp_lemmas():
    """from the contract: the == 0 kernel is an equivalence and the sign is antisymmetric and transitive (so sorting and the final comparison are well defined)"""
    a, b, c = z3.Ints('a b c')
    g = lambda x, y: z3.If(x < y, -1, z3.If(y < x, 1, 0))
    return [('reflexive: cmp(a,a) == 0', z3.ForAll([a], g(a, a) == 0)), ('antisymmetric sign: cmp(a,b) == -cmp(b,a)', z3.ForAll([a, b], g(a, b) == -g(b, a))),
            ('transitive: cmp(a,b) <= 0 and cmp(b,c) <= 0 => cmp(a,c) <= 0', z3.ForAll([a, b, c], z3.Implies(z3.And(g(a, b) <= 0, g(b, c) <= 0), g(a, c) <= 0))),
            ('kernel is an equivalence: cmp(a,b) == 0 and cmp(b,c) == 0 => cmp(a,c) == 0', z3.ForAll([a, b, c], z3.Implies(z3.And(g(a, b) == 0, g(b, c) == 0), g(a, c) == 0)))]


ELEM = z3.Function('seq.item', z3.IntSort(), z3.IntSort()); NSEQ = z3.Int('n_seq')
CMPF = z3.Function('cmp', z3.IntSort(), z3.IntSort(), z3.IntSort())


def iter_in_contract():
    def h_cmp(x, e, p, site):
        for p1, vs in x.ev_seq(list(e.args), p):
            yield p1, (vs if isinstance(vs, Exc) else Int(CMPF(vs[0].t, vs[1].t)))

    def inv(x, env, i, it):
        j = z3.Int('j!ii')
        return z3.And(z3.Not(env['result'].t), z3.ForAll([j], z3.Implies(z3.And(0 <= j, j < i), CMPF(env['value'].t, ELEM(j)) != 0)))
    j = z3.Int('j!io')
    return Contract(f'{CMP}::iter_in', props=['C09'], params={'value': 'int', 'seq': Seq(lambda i: Int(ELEM(i)), NSEQ), 'cmp': 'opaque'},
                    requires=[('length', lambda a: NSEQ >= 0)],
                    ensures=[('membership up to the comparator: True <=> some element compares equal', lambda a, r: expect(r, 'bool') == z3.Exists([j], z3.And(0 <= j, j < NSEQ, CMPF(a['value'].t, ELEM(j)) == 0)))],
                    raises={}, handlers={'cmp': h_cmp}, loops={0: {'kind': 'inv', 'inv': inv}})


# ------------------------------------------------------------------------------------------------------------------------------------------
# The comparators that order and finally compare normalised patterns (compare/comparison.py, compare/observation.py).  What the property needs
# of each is that the SIGN of its result is a total preorder (sorting is well defined, "== 0" is an equivalence) and, for the leaf
# comparators, that 0 is returned exactly for equal operands.  The single-call facts are `ensures` clauses; reflexivity, antisymmetry and
# transitivity are lemmas over two / three instances of the function's own path summary (vf/summary.py), so they hold of the code as it is now.
CC = 'stix2/equivalence/pattern/compare/comparison.py'
CO = 'stix2/equivalence/pattern/compare/observation.py'
# STIX 2.1 section 9.6.1 comparison operators, as spelled by the pattern object model
OPERATORS = ['=', '!=', '>', '<', '>=', '<=', 'IN', 'LIKE', 'MATCHES', 'ISSUBSET', 'ISSUPERSET']


def _in_ops(t): return z3.Or(*[t == z3.StringVal(o) for o in OPERATORS])


def comparison_operator_cmp_contract():
    def call(py):
        from stix2.equivalence.pattern.compare.comparison import comparison_operator_cmp
        return comparison_operator_cmp(py['op1'], py['op2'])
    return Contract(f'{CC}::comparison_operator_cmp', props=['C09'], params={'op1': 'str', 'op2': 'str'},
                    requires=[('operators of the pattern language', lambda a: z3.And(_in_ops(a['op1'].t), _in_ops(a['op2'].t)))],
                    ensures=[('0 exactly for the same operator', lambda a, r: (expect(r, 'int') == 0) == (a['op1'].t == a['op2'].t))],
                    raises={}, replay=Replay(call=call), handlers={'generic_cmp': _h_generic_cmp})


def _h_generic_cmp(x, e, p, site):
    """callee contract of generic_cmp (proved above for int and str operands): the three-way comparison of its arguments"""
    for p1, vs in x.ev_seq(list(e.args), p):
        if isinstance(vs, Exc):
            yield p1, vs; continue
        a, b = vs
        if a.sort != b.sort or a.sort not in ('int', 'str'): raise Unsupported(site + f' generic_cmp({a.sort}, {b.sort}): no proved variant of the callee contract')
        yield p1, Int(z3.If(a.t < b.t, -1, z3.If(b.t < a.t, 1, 0)))


def bool_cmp_contract():
    def call(py):
        from stix2.equivalence.pattern.compare.comparison import bool_cmp
        from stix2.patterns import BooleanConstant
        return bool_cmp(BooleanConstant(py['value1.value']), BooleanConstant(py['value2.value']))
    return Contract(f'{CC}::bool_cmp', props=['C09'],
                    params={'value1': E.Rec(value=Bool(z3.Bool('value1.value'))), 'value2': E.Rec(value=Bool(z3.Bool('value2.value')))},
                    ensures=[('0 exactly for equal truth values', lambda a, r: (expect(r, 'int') == 0) == (a['value1'].x['value'].t == a['value2'].x['value'].t))],
                    raises={}, replay=Replay(call=call, lower=lambda m: {'value1.value': bool(m.get('value1.value')), 'value2.value': bool(m.get('value2.value'))}))


def path_component_cmp_contract(s1, s2):
    def call(py):
        from stix2.equivalence.pattern.compare.comparison import object_path_component_cmp
        return object_path_component_cmp(py['comp1'], py['comp2'])
    def spec(a, r):
        # what the property needs (the direction of the order is the implementation's choice; that it IS an order is the lemmas' business)
        c1, c2 = a['comp1'], a['comp2']
        return (expect(r, 'int') == 0) == ((c1.t == c2.t) if s1 == s2 else z3.BoolVal(False))
    return Contract(f'{CC}::object_path_component_cmp', props=['C09'], params={'comp1': s1, 'comp2': s2}, note=f'path steps of sort ({s1}, {s2})',
                    ensures=[('0 exactly for equal steps (an index step never equals a property name)', spec)],
                    raises={}, replay=Replay(call=call), handlers={'generic_cmp': _h_generic_cmp})


def generic_constant_cmp_contract(sort):
    def call(py):
        from stix2.equivalence.pattern.compare.comparison import generic_constant_cmp
        from stix2.patterns import IntegerConstant, StringConstant
        K = IntegerConstant if sort == 'int' else StringConstant
        return generic_constant_cmp(K(py['const1.value']), K(py['const2.value']))
    mk = (lambda n: Int(z3.Int(n))) if sort == 'int' else (lambda n: Str(z3.String(n)))
    return Contract(f'{CC}::generic_constant_cmp', props=['C09'], note=f'constants whose value is of sort {sort}',
                    params={'const1': E.Rec(value=mk('const1.value')), 'const2': E.Rec(value=mk('const2.value'))},
                    ensures=[('0 exactly for equal values', lambda a, r: (expect(r, 'int') == 0) == (a['const1'].x['value'].t == a['const2'].x['value'].t))],
                    raises={}, replay=Replay(call=call, lower=lambda m: {'const1.value': m['const1.value'], 'const2.value': m['const2.value']}), handlers={'generic_cmp': _h_generic_cmp})


# callee contracts used by simple_comparison_expression_cmp: each callee is a three-way comparator over an abstract domain (uninterpreted)
TOK = z3.DeclareSort('Tok')
PATHCMP = z3.Function('object_path_cmp', TOK, TOK, z3.IntSort())
OPCMP = z3.Function('comparison_operator_cmp', TOK, TOK, z3.IntSort())
CONSTCMP = z3.Function('constant_cmp', TOK, TOK, z3.IntSort())


def _h_tokcmp(fn):
    def h(x, e, p, site):
        for p1, vs in x.ev_seq(list(e.args), p):
            if isinstance(vs, Exc): yield p1, vs
            elif len(vs) != 2 or vs[0].sort != 'tok' or vs[1].sort != 'tok': raise Unsupported(site + ' comparator applied to something else than the two operands\' components')
            else: yield p1, Int(fn(vs[0].t, vs[1].t))
    return h


def _expr(n):
    return E.Rec(lhs=Val('tok', z3.Const(n + '.lhs', TOK)), operator=Val('tok', z3.Const(n + '.operator', TOK)), rhs=Val('tok', z3.Const(n + '.rhs', TOK)),
                 negated=Bool(z3.Bool(n + '.negated')))


def simple_comparison_expression_cmp_contract():
    def callee_contracts(a):
        # what the callees guarantee of the calls this function can make on the components of its two operands (their contracts, instantiated)
        ax = []
        for fn, f in ((PATHCMP, 'lhs'), (OPCMP, 'operator'), (CONSTCMP, 'rhs')): ax += preorder_axioms(fn, [a['expr1'].x[f].t, a['expr2'].x[f].t])
        return z3.And(*ax)
    return Contract(f'{CC}::simple_comparison_expression_cmp', props=['C09'], params={'expr1': _expr('expr1'), 'expr2': _expr('expr2')},
                    requires=[('callee contracts: the three component comparators are total preorders', callee_contracts)],
                    ensures=[('0 only if path, operator, negation and constant all compare equal', lambda a, r: z3.Implies(expect(r, 'int') == 0, z3.And(
                        PATHCMP(a['expr1'].x['lhs'].t, a['expr2'].x['lhs'].t) == 0, OPCMP(a['expr1'].x['operator'].t, a['expr2'].x['operator'].t) == 0,
                        a['expr1'].x['negated'].t == a['expr2'].x['negated'].t, CONSTCMP(a['expr1'].x['rhs'].t, a['expr2'].x['rhs'].t) == 0)))],
                    raises={}, handlers={'object_path_cmp': _h_tokcmp(PATHCMP), 'comparison_operator_cmp': _h_tokcmp(OPCMP), 'constant_cmp': _h_tokcmp(CONSTCMP)},
                    assumptions=['callee contracts of simple_comparison_expression_cmp: object_path_cmp and constant_cmp are total preorders on their domains (assumed here; '
                                 'comparison_operator_cmp is proved, constant_cmp and object_path_cmp are proved against the contracts of their own callees; what stays assumed at the bottom is iter_lex_cmp (generators) and hex_cmp / bin_cmp / list_cmp)'])


def preorder_axioms(fn, toks):
    """instances, on the given tokens, of: fn's sign is reflexive, antisymmetric, transitive (the callee's contract)"""
    from vf.summary import sgn
    ax = []
    for a in toks:
        ax.append(fn(a, a) == 0)
        for b in toks:
            ax.append(sgn(fn(a, b)) == -sgn(fn(b, a)))
            for c in toks: ax.append(z3.Implies(z3.And(fn(a, b) <= 0, fn(b, c) <= 0), fn(a, c) <= 0))
    return ax


def run_comparators(chk):
    """proves the comparator contracts and the order lemmas over their summaries; returns nothing (everything is recorded in the check)"""
    from vf.summary import Summary, order_lemmas, sgn
    def lemmas(rep, params, mk, label, extra=lambda acts: []):
        s = Summary(rep, params)
        if not s.ok:
            chk.undecided_notes.append(f'{label}: no summary ({s.why})'); return
        F = lambda a, b: s.apply(a, b)
        for name, assume, claim in order_lemmas(F, lambda a: [], mk, label + ': '):
            # the precondition of the contract, on every pair of actuals the lemma uses, plus the callee axioms on the tokens involved
            chk.lemma(name, claim, assumptions=list(assume) + extra(mk.made))
    class Mk:
        def __init__(s, f): s.f = f; s.made = []
        def __call__(s, n):
            v = s.f(n); s.made.append(v); return v
    # comparison_operator_cmp
    c = comparison_operator_cmp_contract(); rep = chk.prove(c); chk.canary(c)
    mk = Mk(lambda n: [z3.String('op_' + n)])
    lemmas(rep, ['op1', 'op2'], mk, 'comparison_operator_cmp', lambda made: [_in_ops(m[0]) for m in made])
    # bool_cmp
    c = bool_cmp_contract(); rep = chk.prove(c); chk.canary(c)
    mk = Mk(lambda n: [z3.Bool('b_' + n)])
    lemmas(rep, ['value1', 'value2'], mk, 'bool_cmp')
    # generic_constant_cmp
    for sort in ('int', 'str'):
        c = generic_constant_cmp_contract(sort); rep = chk.prove(c)
        mk = Mk((lambda n: [z3.Int('gc_' + n)]) if sort == 'int' else (lambda n: [z3.String('gc_' + n)]))
        lemmas(rep, ['const1', 'const2'], mk, f'generic_constant_cmp ({sort})')
    # object_path_component_cmp: one summary per pair of operand kinds; the lemmas range over every combination of kinds
    sums = {}
    for s1 in ('int', 'str'):
        for s2 in ('int', 'str'):
            c = path_component_cmp_contract(s1, s2); rep = chk.prove(c)
            sums[s1, s2] = Summary(rep, ['comp1', 'comp2'])
    if all(s.ok for s in sums.values()):
        mkv = lambda sort, n: [z3.Int(n)] if sort == 'int' else [z3.String(n)]
        for s1 in ('int', 'str'):
            a = mkv(s1, 'pa_' + s1)
            chk.lemma(f'object_path_component_cmp ({s1}): reflexive', sums[s1, s1].apply(a, a) == 0)
            for s2 in ('int', 'str'):
                b = mkv(s2, 'pb_' + s2)
                chk.lemma(f'object_path_component_cmp ({s1}, {s2}): antisymmetric', sgn(sums[s1, s2].apply(a, b)) == -sgn(sums[s2, s1].apply(b, a)))
                for s3 in ('int', 'str'):
                    c3 = mkv(s3, 'pc_' + s3)
                    chk.lemma(f'object_path_component_cmp ({s1}, {s2}, {s3}): transitive',
                              z3.Implies(z3.And(sums[s1, s2].apply(a, b) <= 0, sums[s2, s3].apply(b, c3) <= 0), sums[s1, s3].apply(a, c3) <= 0))
    else:
        chk.undecided_notes.append('object_path_component_cmp: no summary (' + '; '.join(s.why for s in sums.values() if not s.ok) + ')')
    # simple_comparison_expression_cmp: a total preorder provided its three callees are (modular: the callees' contracts, not their bodies)
    c = simple_comparison_expression_cmp_contract(); rep = chk.prove(c); chk.canary(c)

    def mk_expr(n): return [z3.Const(f'e_{n}.lhs', TOK), z3.Bool(f'e_{n}.negated'), z3.Const(f'e_{n}.operator', TOK), z3.Const(f'e_{n}.rhs', TOK)]     # leaf_terms order: sorted field names
    mk = Mk(mk_expr)

    def callee_axioms(made):
        ax = []
        for fn, idx in ((PATHCMP, 0), (OPCMP, 2), (CONSTCMP, 3)): ax += preorder_axioms(fn, [m[idx] for m in made])
        return ax
    lemmas(rep, ['expr1', 'expr2'], mk, 'simple_comparison_expression_cmp', callee_axioms)


# ------------------------------------------------------------------------------------------------------------------------------------------
# C10: "string constants escaped correctly".  STIX patterning (2.1 section 9.2): a string literal is ' ( any character but ' and \  |  \'  |  \\ )* ' .
def string_escape_obligations(chk, src_root):
    """escape_quotes_and_backslashes is a chain of str.replace calls with one-character patterns on its parameter (syntactic obligation, re-read from the source);
    such a chain is a string homomorphism (ASSUMED of str.replace: matches of a one-character pattern never straddle a concatenation point), so it is fixed by its values
    on single characters -- and those are checked on the real function for every Unicode scalar value (complete for the per-character function).  The per-character
    specification: ' and \\ are written with a backslash before them, every other character as itself; each image is one element of the string-literal grammar denoting
    that character (three z3 / native cases), so 'body' always is a string literal whose value is the original text."""
    import ast, os, time
    from vf.pyvc.contract import Obligation
    t0 = time.time()
    rel = 'stix2/patterns.py'

    def ob(name, verdict, detail='', kind='exhaustive', backend='native-exhaustive'):
        o = Obligation('patterns.escape_quotes_and_backslashes', name, kind, [], z3.BoolVal(bool(verdict)), True)
        o.result = 'discharged' if verdict else ('undecided' if verdict is None else 'failed'); o.backend = backend; o.detail = detail
        chk.lemmas.append(o); return o
    try:
        tree = ast.parse(open(os.path.join(src_root, rel)).read()); fn = E.find_def(tree, 'escape_quotes_and_backslashes')
    except Unsupported as u:
        chk.undecided_notes.append(f'escape_quotes_and_backslashes: {u}'); return
    # shape: `return <param>.replace(c1, r1).replace(c2, r2)...` with one-character literal patterns
    body = [st for st in fn.body if not (isinstance(st, ast.Expr) and isinstance(st.value, ast.Constant))]
    shape = None
    if len(body) == 1 and isinstance(body[0], ast.Return) and len(fn.args.args) == 1:
        e = body[0].value; chain = []
        while isinstance(e, ast.Call) and isinstance(e.func, ast.Attribute) and e.func.attr == 'replace' and len(e.args) == 2 and not e.keywords and all(isinstance(a, ast.Constant) and isinstance(a.value, str) for a in e.args):
            chain.append((e.args[0].value, e.args[1].value)); e = e.func.value
        if isinstance(e, ast.Name) and e.id == fn.args.args[0].arg and chain and all(len(c) == 1 for c, _ in chain): shape = list(reversed(chain))
    o = ob('the function is a chain of str.replace calls with one-character patterns on its parameter (hence a string homomorphism)', True if shape else None,
           f'chain: {shape}', kind='call-requires', backend='trivial')
    if shape is None:
        chk.undecided_notes.append('escape_quotes_and_backslashes: body is not a recognised replace chain; the per-character obligation alone does not extend to strings (undecided)')
    from stix2.patterns import escape_quotes_and_backslashes as real, StringConstant
    spec = lambda ch: ('\\' + ch) if ch in ("'", '\\') else ch
    cps = [c for c in range(0x110000) if not 0xD800 <= c <= 0xDFFF]
    wrong = [c for c in cps if real(chr(c)) != spec(chr(c))]
    o = ob(f'every single character is escaped as the string-literal grammar requires: a backslash before quote and backslash, nothing else [{len(cps)} code points]', not wrong, f'first disagreement U+{wrong[0]:04X}' if wrong else '')
    if wrong:
        c = wrong[0]
        chk.violation('patterns.escape_quotes_and_backslashes#character escaping', f'escape_quotes_and_backslashes({chr(c)!r}) = {real(chr(c))!r}, the grammar needs {spec(chr(c))!r}', {'input': {'s': repr(chr(c))}, 'obligation': o.name})
    # the literal denotes the text: element-wise inverse (z3 over code points: the three cases of the grammar's element)
    c = z3.Int('c'); q, b = ord("'"), ord('\\')
    chk.lemma('string literal: every escaped image is one grammar element denoting the original character',
              z3.ForAll([c], z3.Implies(z3.And(c >= 0, c < 0x110000),
                                        z3.If(z3.Or(c == q, c == b), z3.BoolVal(True),            # image "\\" + ch: the escape element, denotes ch
                                              z3.And(c != q, c != b)))))                          # image ch: the plain element, allowed exactly when ch is neither ' nor \\
    wrongp = [ch for ch in ("'", '\\', 'a', '"', ' ', '\n', 'é', '\U0001f600', "\\'") if str(StringConstant(ch)) != "'" + ''.join(spec(x) for x in ch) + "'"]
    ob('StringConstant.__str__ of a programmatically built constant is the quoted escaped text', not wrongp, f'{wrongp[:2]}', kind='bounded-probe')
    if wrongp: chk.violation('patterns.StringConstant.__str__#quoted escaped text', f'str(StringConstant({wrongp[0]!r})) = {str(StringConstant(wrongp[0]))!r}', {'input': {'value': repr(wrongp[0])}})
    chk.assume('str.replace with a one-character pattern distributes over concatenation (a match cannot straddle a concatenation point): a chain of such calls is a string homomorphism')
    chk.say(f'  [P] escape_quotes_and_backslashes: replace-chain shape {"recognised" if shape else "NOT recognised"}, per-character obligation over {len(cps)} code points ({time.time() - t0:.1f}s)')


# ------------------------------------------------------------------------------------------------------------------------------------------
# constant_cmp: the dispatch over constant kinds.  A constant is (kind, payload token); the tables `_CONSTANT_TYPE_ORDER` and `_CONSTANT_COMPARATORS` are re-read from the
# source on every run (class names -> kinds); the per-kind comparators are callees under contract: total preorders on the payloads of their kind (bool_cmp and
# generic_constant_cmp are proved above; hex_cmp, bin_cmp, list_cmp are assumed -- bytes / sorted-list comparison outside the modelled subset).
KINDS = ['Integer', 'Float', 'String', 'Boolean', 'Timestamp', 'Hex', 'Binary', 'List']
KindSort, KIND = E.declare_enum('ConstKind', KINDS)
KINDCMP = z3.Function('kind_cmp', KindSort, TOK, TOK, z3.IntSort())        # the comparator registered for a kind, applied to two payloads
NUMCMP = z3.Function('number_cmp', TOK, TOK, z3.IntSort())                # generic_constant_cmp on two numbers (ints and floats compare as numbers)


def _read_tables(src_root):
    import ast as _ast, os as _os
    tree = _ast.parse(open(_os.path.join(src_root, CC)).read())
    order = comps = None
    for n in tree.body:
        if isinstance(n, _ast.Assign) and len(n.targets) == 1 and isinstance(n.targets[0], _ast.Name):
            if n.targets[0].id == '_CONSTANT_TYPE_ORDER' and isinstance(n.value, _ast.Tuple): order = [_ast.unparse(e) for e in n.value.elts]
            if n.targets[0].id == '_CONSTANT_COMPARATORS' and isinstance(n.value, _ast.Dict): comps = {_ast.unparse(k): _ast.unparse(v) for k, v in zip(n.value.keys, n.value.values)}
    if order is None or comps is None: raise Unsupported('tables _CONSTANT_TYPE_ORDER / _CONSTANT_COMPARATORS not found as literals')
    def kind(name):
        k = name.replace('Constant', '')
        if k not in KINDS: raise Unsupported(f'unknown constant class {name}')
        return k
    return [kind(n) for n in order], {kind(k): v for k, v in comps.items()}


def _const(n): return E.Rec(kind=Val('enum:ConstKind', z3.Const(n + '.kind', KindSort)), tok=Val('tok', z3.Const(n + '.payload', TOK)))


def constant_cmp_contract(src_root):
    order, comps = _read_tables(src_root)
    isnum = lambda v: z3.Or(v.x['kind'].t == KIND['Integer'], v.x['kind'].t == KIND['Float'])

    def h_isnum(x, v, p, site):
        if v.sort != 'rec' or 'kind' not in v.x: raise Unsupported(site + ' isinstance of ' + v.sort)
        yield p, Bool(isnum(v))

    def h_type(x, e, p, site):
        for p1, vs in x.ev_seq(list(e.args), p):
            if isinstance(vs, Exc): yield p1, vs
            else: yield p1, Val('cls', vs[0].x['kind'].t)

    def m_index(x, recv, args, e, p, site):
        k = args[0].t; before = []
        for i, name in enumerate(order):
            q = p.fork(*before, k == KIND[name])
            if sat(q.pc): yield q, Int(i)
            before.append(k != KIND[name])
        q = p.fork(*before)
        if sat(q.pc): yield q, Exc('ValueError', site)

    def m_get(x, recv, args, e, p, site):
        yield p, Val('cmpfn', args[0].t)

    def h_cmpfunc(x, e, p, site):
        for p1, f in x.ev(e.func, p):
            for p2, vs in x.ev_seq(list(e.args), p1):
                if isinstance(vs, Exc): yield p2, vs; continue
                a, b = vs
                x.oblige('call(cmp_func): the comparator looked up for the first operand\'s kind is applied to two constants of that kind', p2.pc,
                         z3.And(a.x['kind'].t == f.t, b.x['kind'].t == f.t), p2.exact, 'call-requires')
                yield p2, Int(KINDCMP(f.t, a.x['tok'].t, b.x['tok'].t))

    def h_num(x, e, p, site):
        for p1, vs in x.ev_seq(list(e.args), p):
            if isinstance(vs, Exc): yield p1, vs; continue
            a, b = vs
            x.oblige('call(generic_constant_cmp): both operands are numbers', p1.pc, z3.And(isnum(a), isnum(b)), p1.exact, 'call-requires')
            yield p1, Int(NUMCMP(a.x['tok'].t, b.x['tok'].t))

    def callee_contracts(a):
        ax = preorder_axioms(NUMCMP, [a['value1'].x['tok'].t, a['value2'].x['tok'].t])
        for k in comps: ax += preorder_axioms(lambda s, t, k=k: KINDCMP(KIND[k], s, t), [a['value1'].x['tok'].t, a['value2'].x['tok'].t])
        return z3.And(*ax)

    def same_kind(a):
        k1, k2 = a['value1'].x['kind'].t, a['value2'].x['kind'].t
        return z3.Or(k1 == k2, z3.And(isnum(a['value1']), isnum(a['value2'])))
    registered = lambda v: z3.BoolVal(True)          # every constant kind of the pattern language (the enum): a kind the tables forgot is a TypeError / ValueError escaping
    c = Contract(f'{CC}::constant_cmp', props=['C09'], params={'value1': _const('value1'), 'value2': _const('value2')},
                 requires=[('constants of every kind of the pattern language', lambda a: z3.And(registered(a['value1']), registered(a['value2']))),
                           ('callee contracts: the per-kind comparators are total preorders on payloads of their kind', callee_contracts)],
                 ensures=[('0 only for constants of the same kind (numbers are one kind) whose payloads compare equal under that kind\'s comparator', lambda a, r: z3.Implies(expect(r, 'int') == 0, same_kind(a)))],
                 raises={}, handlers={'isinstance:(IntegerConstant, FloatConstant)': h_isnum, 'type': h_type, 'cmp_func': h_cmpfunc, 'generic_constant_cmp': h_num, 'generic_cmp': _h_generic_cmp},
                 globals={'_CONSTANT_TYPE_ORDER': Val('clstuple', x=order), '_CONSTANT_COMPARATORS': Val('clsdict', x=comps)},
                 registry_ext={'methods': {('.index', 'clstuple'): m_index, ('.get', 'clsdict'): m_get}},
                 truthy_handlers={'cmpfn': lambda x, v: z3.Or(*[v.t == KIND[k] for k in comps])},
                 assumptions=['callee contracts of constant_cmp: list_cmp is a total preorder on list constants (assumed: sorting with a comparator key and iter_lex_cmp are outside the modelled subset); '
                              'bool_cmp, generic_constant_cmp, hex_cmp and bin_cmp are proved'])
    c.tables = (order, comps)
    return c


def run_constant_cmp(chk, src_root):
    from vf.summary import Summary, sgn
    try: c = constant_cmp_contract(src_root)
    except Unsupported as u:
        chk.undecided_notes.append(f'constant_cmp: {u}'); return
    rep = chk.prove(c, src_root=src_root); chk.canary(c)
    s = Summary(rep, ['value1', 'value2'])
    if not s.ok:
        chk.undecided_notes.append(f'constant_cmp: no summary ({s.why})'); return
    order, comps = c.tables
    mk = lambda n: [z3.Const(f'cc_{n}.kind', KindSort), z3.Const(f'cc_{n}.payload', TOK)]          # leaf_terms order: kind, tok
    a, b, d = mk('a'), mk('b'), mk('c')
    dom = lambda v: z3.BoolVal(True)
    toks = [a[1], b[1], d[1]]
    ax = preorder_axioms(NUMCMP, toks)
    for k in comps: ax += preorder_axioms(lambda s_, t_, k=k: KINDCMP(KIND[k], s_, t_), toks)
    F = lambda u, v: s.apply(u, v)
    hyp = [dom(a), dom(b), dom(d)] + ax
    chk.lemma('constant_cmp: reflexive: cmp(a, a) == 0', F(a, a) == 0, assumptions=hyp)
    chk.lemma('constant_cmp: antisymmetric: sign cmp(a, b) == - sign cmp(b, a)', sgn(F(a, b)) == -sgn(F(b, a)), assumptions=hyp)
    chk.lemma('constant_cmp: transitive: cmp(a, b) <= 0 and cmp(b, c) <= 0 => cmp(a, c) <= 0', z3.Implies(z3.And(F(a, b) <= 0, F(b, d) <= 0), F(a, d) <= 0), assumptions=hyp)


# ------------------------------------------------------------------------------------------------------------------------------------------
# object_path_cmp: object type names first (string order), then the lexicographic comparison of the path steps (iter_lex_cmp with object_path_component_cmp, the latter proved above).
LEXCMP = z3.Function('iter_lex_cmp[path steps]', TOK, TOK, z3.IntSort())


def _path(n): return E.Rec(object_type_name=Str(z3.String(n + '.object_type_name')), steps=Val('tok', z3.Const(n + '.steps', TOK)))


def object_path_cmp_contract():
    def h_raw(x, e, p, site):
        for p1, vs in x.ev_seq(list(e.args), p):
            if isinstance(vs, Exc): yield p1, vs
            elif vs[0].sort != 'rec' or 'steps' not in vs[0].x: raise Unsupported(site + ' object_path_to_raw_values of something else than a path')
            else: yield p1, vs[0].x['steps']

    def h_lex(x, e, p, site):
        for p1, vs in x.ev_seq(list(e.args[:2]), p):
            if isinstance(vs, Exc): yield p1, vs; continue
            ok = len(e.args) == 3 and ast.unparse(e.args[2]) == 'object_path_component_cmp' and vs[0].sort == 'tok' and vs[1].sort == 'tok'
            x.oblige('call(iter_lex_cmp): the two step sequences are compared with object_path_component_cmp', p1.pc, z3.BoolVal(bool(ok)), p1.exact, 'call-requires')
            if not ok: raise Unsupported(site + ' iter_lex_cmp call shape')
            yield p1, Int(LEXCMP(vs[0].t, vs[1].t))

    def callee(a): return z3.And(*preorder_axioms(LEXCMP, [a['path1'].x['steps'].t, a['path2'].x['steps'].t]))
    return Contract(f'{CC}::object_path_cmp', props=['C09'], params={'path1': _path('path1'), 'path2': _path('path2')},
                    requires=[('callee contract: the lexicographic comparison of step sequences is a total preorder', callee)],
                    ensures=[('0 only for paths of the same object type whose step sequences compare equal', lambda a, r: z3.Implies(expect(r, 'int') == 0, z3.And(
                        a['path1'].x['object_type_name'].t == a['path2'].x['object_type_name'].t, LEXCMP(a['path1'].x['steps'].t, a['path2'].x['steps'].t) == 0)))],
                    raises={}, handlers={'object_path_to_raw_values': h_raw, 'iter_lex_cmp': h_lex},
                    assumptions=['callee contract of object_path_cmp: iter_lex_cmp over two step sequences with object_path_component_cmp (proved: a total preorder on steps) is a total preorder '
                                 '(lexicographic lifting; iter_lex_cmp itself -- next()/StopIteration over generators -- is outside the modelled subset, compared natively with a reference in the bounded part)'])


def run_object_path_cmp(chk):
    from vf.summary import Summary, sgn
    c = object_path_cmp_contract(); rep = chk.prove(c); chk.canary(c)
    s = Summary(rep, ['path1', 'path2'])
    if not s.ok:
        chk.undecided_notes.append(f'object_path_cmp: no summary ({s.why})'); return
    mk = lambda n: [z3.String(f'op_{n}.type'), z3.Const(f'op_{n}.steps', TOK)]            # leaf_terms order: object_type_name, steps
    a, b, d = mk('a'), mk('b'), mk('c')
    ax = preorder_axioms(LEXCMP, [a[1], b[1], d[1]])
    F = lambda u, v: s.apply(u, v)
    chk.lemma('object_path_cmp: reflexive: cmp(a, a) == 0', F(a, a) == 0, assumptions=ax)
    chk.lemma('object_path_cmp: antisymmetric: sign cmp(a, b) == - sign cmp(b, a)', sgn(F(a, b)) == -sgn(F(b, a)), assumptions=ax)
    chk.lemma('object_path_cmp: transitive: cmp(a, b) <= 0 and cmp(b, c) <= 0 => cmp(a, c) <= 0', z3.Implies(z3.And(F(a, b) <= 0, F(b, d) <= 0), F(a, d) <= 0), assumptions=ax)


# ------------------------------------------------------------------------------------------------------------------------------------------
# hex_cmp / bin_cmp: decode, then the three-way comparison of the decoded bytes.  bytes objects compare lexicographically by byte value -- the order of strings over the code
# points 0..255 -- so the decoded value is modelled as a z3 string given by an uninterpreted decoding function of the constant's text.
HEXDEC = z3.Function('bytes.fromhex', E.S, E.S); B64DEC = z3.Function('base64.standard_b64decode', E.S, E.S)


def decoded_cmp_contract(which):
    fn, dec, callee = ('hex_cmp', HEXDEC, 'bytes.fromhex') if which == 'hex' else ('bin_cmp', B64DEC, 'base64.standard_b64decode')

    def h_dec(x, e, p, site):
        for p1, vs in x.ev_seq(list(e.args), p):
            if isinstance(vs, Exc): yield p1, vs
            elif len(vs) != 1 or vs[0].sort != 'str': raise Unsupported(site + ' decoding of something else than the constant\'s text')
            else: yield p1, Str(dec(vs[0].t))
    mk = lambda n: E.Rec(value=Str(z3.String(n + '.value')))
    return Contract(f'{CC}::{fn}', props=['C09'], params={'value1': mk('value1'), 'value2': mk('value2')},
                    ensures=[('0 exactly when the two constants decode to the same bytes', lambda a, r: (expect(r, 'int') == 0) == (dec(a['value1'].x['value'].t) == dec(a['value2'].x['value'].t)))],
                    raises={}, handlers={callee: h_dec, 'generic_cmp': _h_generic_cmp},
                    assumptions=[f'{callee} is a function of the text (it raises for text that is not valid; constants of the pattern language are valid by the grammar); bytes compare '
                                 'lexicographically by byte value, like strings over the code points 0..255'])


def run_decoded_cmps(chk):
    from vf.summary import Summary, order_lemmas
    for which in ('hex', 'bin'):
        c = decoded_cmp_contract(which); rep = chk.prove(c); chk.canary(c)
        s = Summary(rep, ['value1', 'value2'])
        if not s.ok:
            chk.undecided_notes.append(f'{which}_cmp: no summary ({s.why})'); continue
        mk = lambda n, w=which: [z3.String(f'{w}_{n}')]
        for name, assume, claim in order_lemmas(lambda a, b: s.apply(a, b), lambda a: [], mk, f'{which}_cmp: '):
            chk.lemma(name, claim, assumptions=list(assume))
