"""C09: contracts for the leaf comparators of pattern equivalence (stix2/equivalence/pattern/compare/__init__.py)."""
import z3
from vf.pyvc import engine as E
from vf.pyvc.engine import Val, Exc, Unsupported, NONE, Int, Bool, Str, Seq, S, sat
from vf.pyvc.contract import Contract, expect
from vf.check import Replay

CMP = 'stix2/equivalence/pattern/compare/__init__.py'


def generic_cmp_contract(sort):
    def call(py):
        from stix2.equivalence.pattern.compare import generic_cmp
        return generic_cmp(py['value1'], py['value2'])
    lt = (lambda a, b: a < b)
    return Contract(f'{CMP}::generic_cmp', props=['C09'], params={'value1': sort, 'value2': sort},
                    ensures=[('three-way comparison: -1 / 0 / 1 exactly as the values are ordered', lambda a, r: expect(r, 'int') ==
                              z3.If(lt(a['value1'].t, a['value2'].t), -1, z3.If(lt(a['value2'].t, a['value1'].t), 1, 0)))],
                    raises={}, replay=Replay(call=call), note=f'operands of sort {sort}')


def cmp_lemmas():
    """from the contract: the == 0 kernel is an equivalence and the sign is antisymmetric and transitive (so sorting and the final comparison are well defined)"""
    a, b, c = z3.Ints('a b c')
    g = lambda x, y: z3.If(x < y, -1, z3.If(y < x, 1, 0))
    return [('reflexive: cmp(a,a) == 0', z3.ForAll([a], g(a, a) == 0)), ('antisymmetric sign: cmp(a,b) == -cmp(b,a)', z3.ForAll([a, b], g(a, b) == -g(b, a))),
            ('transitive: cmp(a,b) <= 0 and cmp(b,c) <= 0 => cmp(a,c) <= 0', z3.ForAll([a, b, c], z3.Implies(z3.And(g(a, b) <= 0, g(b, c) <= 0), g(a, c) <= 0))),
            ('kernel is an equivalence: cmp(a,b) == 0 and cmp(b,c) == 0 => cmp(a,c) == 0', z3.ForAll([a, b, c], z3.Implies(z3.And(g(a, b) == 0, g(b, c) == 0), g(a, c) == 0)))]


ELEM = z3.Function('seq.item', z3.IntSort(), z3.IntSort()); NSEQ = z3.Int('n_seq')
CMPF = z3.Function('cmp', z3.IntSort(), z3.IntSort(), z3.IntSort())


def iter_in_contract():
    def h_cmp(x, e, p, site):
        for p1, vs in x.ev_seq(list(e.args), p):
            yield p1, (vs if isinstance(vs, Exc) else Int(CMPF(vs[0].t, vs[1].t)))

    def inv(x, env, i, it):
        j = z3.Int('j!ii')
        return z3.And(z3.Not(env['result'].t), z3.ForAll([j], z3.Implies(z3.And(0 <= j, j < i), CMPF(env['value'].t, ELEM(j)) != 0)))
    j = z3.Int('j!io')
    return Contract(f'{CMP}::iter_in', props=['C09'], params={'value': 'int', 'seq': Seq(lambda i: Int(ELEM(i)), NSEQ), 'cmp': 'opaque'},
                    requires=[('length', lambda a: NSEQ >= 0)],
                    ensures=[('membership up to the comparator: True <=> some element compares equal', lambda a, r: expect(r, 'bool') == z3.Exists([j], z3.And(0 <= j, j < NSEQ, CMPF(a['value'].t, ELEM(j)) == 0)))],
                    raises={}, handlers={'cmp': h_cmp}, loops={0: {'kind': 'inv', 'inv': inv}})
