"""C20: contracts for stix2/confidence/scales.py, generated from the frozen specification table spec/confidence.json
(never from the code)."""
import json, os
import z3
from vf.pyvc.contract import Contract, expect
from vf.check import Replay

TABLE = json.load(open(os.path.join(os.path.dirname(__file__), '..', 'spec', 'confidence.json')))
SCALES = {k: v for k, v in TABLE.items() if not k.startswith('_')}
SRC = 'stix2/confidence/scales.py'


def label_spec(rows, v):
    """z3: the label of the row containing v (only meaningful for 0 <= v <= 100)"""
    t = z3.StringVal(rows[-1][2])
    for lo, hi, label, _ in reversed(rows[:-1]):
        t = z3.If(z3.And(v >= lo, v <= hi), z3.StringVal(label), t)
    return t


def to_label_contract(scale):
    sc = SCALES[scale]; rows = sc['rows']
    return Contract(
        f'{SRC}::{sc["to_label"]}', props=['C20'],
        params={'confidence_value': 'int'},
        ensures=[('label-of-the-specification-row-containing-the-value',
                  lambda a, r: z3.And(a['confidence_value'].t >= 0, a['confidence_value'].t <= 100,
                                      expect(r, 'str') == label_spec(rows, a['confidence_value'].t)))],
        raises={'ValueError': lambda a: z3.Or(a['confidence_value'].t < 0, a['confidence_value'].t > 100)},
        replay=Replay())


def to_value_contract(scale):
    sc = SCALES[scale]; rows = sc['rows']
    valued = [(label, val) for _, _, label, val in rows if val is not None]

    def spec(s):
        t = z3.IntVal(-1)
        for label, val in valued: t = z3.If(s == z3.StringVal(label), z3.IntVal(val), t)
        return t
    return Contract(
        f'{SRC}::{sc["to_value"]}', props=['C20'],
        params={'scale_value': 'str'},
        ensures=[('value-tabulated-for-the-label', lambda a, r: expect(r, 'int') == spec(a['scale_value'].t))],
        raises={'ValueError': lambda a: z3.And(*[a['scale_value'].t != z3.StringVal(l) for l, _ in valued])},
        replay=Replay())


def table_lemmas(scale):
    """facts about the frozen table itself + the property's lemmas from the two contracts (no code involved)"""
    rows = SCALES[scale]['rows']
    v, w = z3.Ints('v w')
    inrow = lambda r, x: z3.And(x >= r[0], x <= r[1])
    rank = lambda x: z3.Sum([z3.If(inrow(r, x), i, 0) for i, r in enumerate(rows)])
    out = [
        ('rows-partition-0..100', z3.ForAll([v], z3.Implies(z3.And(v >= 0, v <= 100), z3.Sum([z3.If(inrow(r, v), 1, 0) for r in rows]) == 1))),
        ('monotone: v<=w => rank(label v) <= rank(label w)', z3.ForAll([v, w], z3.Implies(z3.And(0 <= v, v <= w, w <= 100), rank(v) <= rank(w)))),
        ('labels-distinct', z3.BoolVal(len({r[2] for r in rows}) == len(rows))),
    ]
    # round trip from the two contracts: to_label(to_value(L)) == L for every label that has a value
    for lo, hi, label, val in rows:
        if val is not None:
            out.append((f'round-trip[{label}]: value {val} lies in the label\'s own row',
                        z3.And(z3.IntVal(val) >= lo, z3.IntVal(val) <= hi, label_spec(rows, z3.IntVal(val)) == z3.StringVal(label))))
    return out
