"""C12 (also C11, C18): contracts for datastore/filters.py and the filesystem search optimiser."""
import ast
import z3
from vf.pyvc import engine as E
from vf.pyvc.engine import Val, Exc, Unsupported, NONE, Int, Bool, Str, Rec, Opt, SetV, Seq, S, SetS, EMPTY, sat
from vf.pyvc.contract import Contract, expect
from vf.pyvc import lib as L
from vf.pyvc.lib import pure, as_set

FS = 'stix2/datastore/filesystem.py'
FL = 'stix2/datastore/filters.py'
GT = z3.Function('get_type_from_id', S, S)           # A: a pure function of the id text
WHITE, BLACK = z3.IntVal(1), z3.IntVal(0)


# ------------------------------------------------------------------ filter values: a str, or an iterable of str (tuple)
def fv(name):
    return Val('fv', x={'is_str': z3.Bool(name + '.is_str'), 's': z3.String(name + '.s'), 'elems': z3.Const(name + '.elems', SetS)})


def items(v):
    """the set _update_allow contributes for value v"""
    return z3.If(v.x['is_str'], z3.Store(EMPTY, v.x['s'], True), v.x['elems'])


L.E_AS_SET['fv'] = lambda v: v.x['elems']
L.E_SET_ADD['fv'] = lambda recv, a: SetV(z3.If(a.x['is_str'], z3.Store(recv.t, a.x['s'], True), recv.t))   # a non-str element never equals a string


def h_isinstance_str(x, v, p, site):
    if v.sort == 'fv': yield p, Bool(v.x['is_str'])
    elif v.sort == 'str': yield p, Bool(True)
    else: raise Unsupported(site + ' isinstance str of ' + v.sort)


def h_hasattr(x, e, p, site):
    for p1, vs in x.ev_seq(list(e.args), p):
        if isinstance(vs, Exc):
            yield p1, vs; continue
        v, name = vs
        if v.sort == 'fv' and name.t.as_string() == '__iter__': yield p1, Bool(True)      # str and tuple both have __iter__
        elif v.sort == 'str' and name.t.as_string() == '__iter__': yield p1, Bool(True)
        elif v.sort == 'image' and name.t.as_string() == '__iter__': yield p1, Bool(True)
        else: raise Unsupported(site)


def h_gt(x, e, p, site):
    for p1, vs in x.ev_seq(list(e.args), p):
        if isinstance(vs, Exc):
            yield p1, vs; continue
        (v,) = vs
        if v.sort == 'str':
            yield p1, Str(GT(v.t)); continue
        if v.sort != 'fv': raise Unsupported(site)
        q = p1.fork(v.x['is_str'])
        if sat(q.pc): yield q, Str(GT(v.x['s']))
        q = p1.fork(z3.Not(v.x['is_str']))
        if sat(q.pc): yield q, Exc('AttributeError', site)          # a tuple has no .split


def comp_image(x, e, p):
    """(get_type_from_id(y) for y in SRC) | (y for y in SRC if get_type_from_id(y) in SET): image / filter sets"""
    (g,) = e.generators
    var = g.target.id
    for p1, srcv in x.ev(g.iter, p):
        if isinstance(srcv, Exc):
            yield p1, srcv; continue
        src = as_set(srcv)
        elt = ast.unparse(e.elt)
        fn = (lambda y: GT(y)) if elt == f'get_type_from_id({var})' else (lambda y: y) if elt == var else None
        if fn is None: raise Unsupported(x.site(e) + ' generator element')
        cond = lambda y: z3.BoolVal(True)
        if g.ifs:
            (c,) = g.ifs
            if not (isinstance(c, ast.Compare) and isinstance(c.ops[0], ast.In) and ast.unparse(c.left) == f'get_type_from_id({var})'):
                raise Unsupported(x.site(e) + ' generator filter')
            for p2, cs in x.ev(c.comparators[0], p1):
                cset = as_set(cs)
                cond = (lambda cset: lambda y: cset[GT(y)])(cset)
        yield p1, Val('image', x=(fn, src, cond))


def ev_set_literal(x, e, p):
    for p1, vs in x.ev_seq(e.elts, p):
        if isinstance(vs, Exc):
            yield p1, vs; continue
        t = EMPTY
        for v in vs:
            if v.sort == 'fv': t = z3.If(v.x['is_str'], z3.Store(t, v.x['s'], True), t)
            elif v.sort == 'str': t = z3.Store(t, v.t, True)
            else: raise Unsupported('set literal of ' + v.sort)
        yield p1, SetV(t)


COMMON = dict(handlers={'isinstance:str': h_isinstance_str, 'hasattr': h_hasattr, 'get_type_from_id': h_gt}, comprehensions={'*': comp_image})


def opt_set(name): return Opt(z3.Bool(name + '.isnone'), SetV(z3.Const(name, SetS)))


# ------------------------------------------------------------------ _update_allow
def update_allow_spec(a, v, u):
    its = items(v) if v.sort == 'fv' else as_set(v)
    return z3.If(a.t[0], its[u], z3.And(a.t[1].t[u], its[u]))


def _setof(r):
    from vf.pyvc.contract import SortMismatch
    if r.sort == 'set': return r.t
    if r.sort == 'opt:set': return z3.If(r.t[0], EMPTY, r.t[1].t)      # (the clause below also demands "not None")
    raise SortMismatch('expected a set, got ' + r.sort)


def update_allow_contract():
    u = z3.String('u!ua')
    return Contract(f'{FS}::_update_allow', props=['C12'],
                    params={'allow_set': opt_set('allow_set'), 'value': fv('value')},
                    ensures=[('result is not None', lambda a, r: z3.Not(r.t[0]) if r.sort == 'opt:set' else z3.BoolVal(r.sort == 'set')),
                             ('result == items(value) if allow_set is None else allow_set & items(value)',
                              lambda a, r: z3.ForAll([u], _setof(r)[u] == update_allow_spec(a['allow_set'], a['value'], u)))],
                    raises={}, expr_hooks={'{value}': lambda x, e, p: ev_set_literal(x, e, p)}, **COMMON)
    # the docstring's "(not None)": an Optional result must not be None


def h_update_allow(x, e, p, site):
    """callee contract of _update_allow"""
    for p1, vs in x.ev_seq(list(e.args), p):
        if isinstance(vs, Exc):
            yield p1, vs; continue
        a, v = vs
        if not a.sort.startswith('opt:'): a = Opt(z3.BoolVal(False), a) if a.sort == 'set' else Opt(z3.BoolVal(True), SetV(EMPTY))
        if v.sort == 'str': v = Val('fv', x={'is_str': z3.BoolVal(True), 's': v.t, 'elems': EMPTY})
        u = z3.FreshConst(S, 'u')
        yield p1, SetV(z3.Lambda([u], update_allow_spec(a, v, u)))


# ------------------------------------------------------------------ AuthSet
def authset_contract():
    def outcomes(x, outs, add):
        u = z3.String('u!as')
        a = x.params
        for i, (kind, p, v) in enumerate(outs):
            if kind != 'return': continue
            me = p.env['self']
            vals, typ = me.x.get('__values'), me.x.get('__type')
            if vals is None or typ is None:
                add(f'AuthSet.__init__ stores values and type @path{i}', p.pc, z3.BoolVal(False)); continue
            none = a['allowed'].t[0]; al = a['allowed'].t[1].t; pr = a['prohibited'].t
            add(f'allowed is None => blacklist of the prohibited values; else whitelist of allowed - prohibited @path{i}', p.pc,
                z3.And(typ.t == z3.If(none, BLACK, WHITE), z3.ForAll([u], vals.t[u] == z3.If(none, pr[u], z3.And(al[u], z3.Not(pr[u]))))), p.exact)
    return Contract(f'{FS}::AuthSet.__init__', props=['C12'],
                    params={'self': Rec(), 'allowed': opt_set('allowed'), 'prohibited': 'set'},
                    raises={}, globals={'AuthSet.WHITE': Int(WHITE), 'AuthSet.BLACK': Int(BLACK)}, on_outcomes=outcomes)


def h_AuthSet(x, e, p, site):
    for p1, vs in x.ev_seq(list(e.args), p):
        if isinstance(vs, Exc):
            yield p1, vs; continue
        allowed, prohibited = vs; u = z3.FreshConst(S, 'u')
        if allowed.sort.startswith('opt:'): none, a = allowed.t[0], allowed.t[1].t
        elif allowed.sort == 'none': none, a = z3.BoolVal(True), EMPTY
        else: none, a = z3.BoolVal(False), allowed.t
        yield p1, Rec(auth_type=Int(z3.If(none, BLACK, WHITE)), values=SetV(z3.If(none, prohibited.t, z3.Lambda([u], z3.And(a[u], z3.Not(prohibited.t[u]))))))


# ------------------------------------------------------------------ _find_search_optimizations: soundness for an arbitrary object
F_prop = z3.Function('f.property', z3.IntSort(), S); F_op = z3.Function('f.op', z3.IntSort(), S)
F_isstr = z3.Function('f.value.is_str', z3.IntSort(), z3.BoolSort()); F_s = z3.Function('f.value.s', z3.IntSort(), S); F_el = z3.Function('f.value.elems', z3.IntSort(), SetS)
NF = z3.Int('n_filters'); O_TYPE, O_ID = z3.Strings('o.type o.id')        # the ghost object: arbitrary, with a well-formed id


def filt(i):
    return Rec(property=Str(F_prop(i)), op=Str(F_op(i)), value=Val('fv', x={'is_str': F_isstr(i), 's': F_s(i), 'elems': F_el(i)}))


def spec_check(i):
    """documented filter semantics on the object's type / id (the only properties the optimiser looks at)"""
    V = z3.StringVal

    def on(target):
        eq = z3.And(F_isstr(i), F_s(i) == target)
        return z3.If(F_op(i) == V('='), eq,
               z3.If(F_op(i) == V('in'), z3.If(F_isstr(i), z3.Contains(F_s(i), target), F_el(i)[target]),
               z3.If(F_op(i) == V('!='), z3.Not(eq), z3.BoolVal(True))))
    return z3.If(F_prop(i) == V('type'), on(O_TYPE), z3.If(F_prop(i) == V('id'), on(O_ID), z3.BoolVal(True)))


_jj = z3.Int('jj')


def permits_opt(optset, target): return z3.Or(optset.t[0], optset.t[1].t[target])


def inv_opt(x, env, i, it):
    sat_i = z3.ForAll([_jj], z3.Implies(z3.And(0 <= _jj, _jj < i), spec_check(_jj)))
    return z3.Implies(sat_i, z3.And(permits_opt(env['allowed_types'], O_TYPE), z3.Not(env['prohibited_types'].t[O_TYPE]),
                                    permits_opt(env['allowed_ids'], O_ID), z3.Not(env['prohibited_ids'].t[O_ID])))


def permits(a, target): return z3.If(a.x['auth_type'].t == WHITE, a.x['values'].t[target], z3.Not(a.x['values'].t[target]))


def find_opt_contract():
    sat_all = z3.ForAll([_jj], z3.Implies(z3.And(0 <= _jj, _jj < NF), spec_check(_jj)))

    def ens_types(a, r):
        if r.sort != 'tuple' or len(r.x) != 2: return z3.BoolVal(False)
        return z3.Implies(sat_all, permits(r.x[0], O_TYPE))

    def ens_ids(a, r):
        if r.sort != 'tuple' or len(r.x) != 2: return z3.BoolVal(False)
        return z3.Implies(sat_all, permits(r.x[1], O_ID))
    h = dict(COMMON['handlers'], _update_allow=h_update_allow, AuthSet=h_AuthSet)
    return Contract(f'{FS}::_find_search_optimizations', props=['C12'],
                    params={'filters': Seq(filt, NF)},
                    requires=[('the ghost object is arbitrary but its id is well-formed: get_type_from_id(o.id) == o.type', lambda a: z3.And(NF >= 0, GT(O_ID) == O_TYPE))],
                    ensures=[('soundness(types): every object satisfying all filters has a type the shortcut searches', ens_types),
                             ('soundness(ids): every object satisfying all filters has an id the shortcut searches', ens_ids)],
                    raises={}, handlers=h, comprehensions=COMMON['comprehensions'],
                    globals={'AuthSet.WHITE': Int(WHITE), 'AuthSet.BLACK': Int(BLACK)},
                    local_sorts={'allowed_types': 'opt:set', 'allowed_ids': 'opt:set'},
                    loops={0: {'kind': 'inv', 'inv': inv_opt}},
                    assumptions=['A: filter values on type/id are a str or an iterable of str; get_type_from_id is a pure function of the id text'],
                    note='the object o is a ghost constant, so the discharged invariant is the universally quantified soundness statement')


# ------------------------------------------------------------------ apply_common_filters: yielded <=> all filters match
OBJ = z3.DeclareSort('Obj'); FIL = z3.DeclareSort('Filter')
MATCH = z3.Function('_check_filter', FIL, OBJ, z3.BoolSort())
objs_f = z3.Function('stix_objs', z3.IntSort(), OBJ); q_f = z3.Function('query', z3.IntSort(), FIL)
NOBJ, NQ = z3.Ints('n_objs n_query')


def acf_contract():
    def h_check_filter(x, e, p, site):
        for p1, vs in x.ev_seq(list(e.args), p):
            yield p1, (vs if isinstance(vs, Exc) else Bool(MATCH(vs[0].t, vs[1].t)))
    j = z3.Int('j!acf')

    def inv_inner(x, env, i, it):
        o = env['stix_obj'].t
        return env['clean'].t == z3.ForAll([j], z3.Implies(z3.And(0 <= j, j < i), MATCH(q_f(j), o)))

    def outcomes(x, outs, add):
        for kind, p, v in outs:
            if kind == 'raise': add('no exception', p.pc, z3.BoolVal(False), p.exact)
        its = x.iteration_outcomes.get(0, [])
        if not its: add('outer loop is iteration-local and was analysed', [], z3.BoolVal(False))
        for n, (r, ys) in enumerate(its):
            o = r.env['stix_obj'].t
            allm = z3.ForAll([j], z3.Implies(z3.And(0 <= j, j < NQ), MATCH(q_f(j), o)))
            if len(ys) == 0: add(f'iteration: object not yielded => some filter fails @it{n}', r.pc, z3.Not(allm), r.exact)
            elif len(ys) == 1:
                add(f'iteration: object yielded => every filter holds @it{n}', r.pc, allm, r.exact)
                add(f'iteration: the yielded value is the object itself @it{n}', r.pc, ys[0].t == o if ys[0].sort == 'obj' else z3.BoolVal(False), r.exact)
            else: add(f'iteration: at most one yield @it{n}', r.pc, z3.BoolVal(False), r.exact)
    return Contract(f'{FL}::apply_common_filters', props=['C12', 'C11', 'C18'],
                    params={'stix_objs': Seq(lambda i: Val('obj', objs_f(i)), NOBJ), 'query': Seq(lambda i: Val('filter', q_f(i)), NQ)},
                    requires=[('lengths', lambda a: z3.And(NOBJ >= 0, NQ >= 0))],
                    raises={}, handlers={'_check_filter': h_check_filter}, loops={1: {'kind': 'inv', 'inv': inv_inner}}, on_outcomes=outcomes,
                    note='yielded sequence == [o in objs | all filters match o], in order (per-iteration contract of the outer loop + prefix invariant of the inner loop)')


def conjunction_lemmas():
    """from the contract: result(Q) = {o | forall f in Q. match(f,o)}  => adding a filter shrinks; conjunction == intersection"""
    o = z3.Const('o', OBJ); f1, f2 = z3.Consts('f1 f2', FIL)
    inQ = z3.Function('inQ', FIL, z3.BoolSort()); inQ2 = z3.Function('inQ2', FIL, z3.BoolSort()); f = z3.Const('f', FIL)
    res = lambda member: z3.ForAll([f], z3.Implies(member(f), MATCH(f, o)))
    return [('adding a filter can only shrink the result', z3.Implies(z3.ForAll([f], z3.Implies(inQ(f), inQ2(f))), z3.Implies(res(inQ2), res(inQ)))),
            ('a conjunction equals the intersection of its parts',
             z3.ForAll([f1, f2], (z3.And(MATCH(f1, o), MATCH(f2, o))) == z3.ForAll([f], z3.Implies(z3.Or(f == f1, f == f2), MATCH(f, o)))))]


# ------------------------------------------------------------------ Filter._check_property == spec_op
VALS = z3.DeclareSort('PyVal')
VEQ = z3.Function('py_eq', VALS, VALS, z3.BoolSort()); VLT = z3.Function('py_lt', VALS, VALS, z3.BoolSort())
VLE = z3.Function('py_le', VALS, VALS, z3.BoolSort()); VIN = z3.Function('py_in', VALS, VALS, z3.BoolSort())
VIN_VALUES = z3.Function('py_in_values', VALS, VALS, z3.BoolSort())
PARSED = z3.Function('parse_into_datetime', VALS, VALS)
OPS = ['=', '!=', 'in', 'contains', '>', '<', '>=', '<=']


def check_property_contract():
    prop = z3.Const('stix_obj_property', VALS); fvv = z3.Const('self.value', VALS)
    IS_DT = z3.Bool('isinstance(prop, datetime)'); IS_STR = z3.Bool('isinstance(self.value, str)'); IS_DICT = z3.Bool('isinstance(filter_value, dict)')
    op = z3.String('self.op')

    def cmp_val(x, opn, a, b, p, site):
        table = {ast.Eq: VEQ(a.t, b.t), ast.NotEq: z3.Not(VEQ(a.t, b.t)), ast.Lt: VLT(a.t, b.t), ast.Gt: VLT(b.t, a.t), ast.LtE: VLE(a.t, b.t), ast.GtE: VLE(b.t, a.t)}
        yield p, Bool(table[type(opn)])

    def contains_val(x, c, item, p, site): yield p, Bool(VIN(item.t, c.t))
    def contains_values(x, c, item, p, site): yield p, Bool(VIN_VALUES(item.t, c.x))

    def m_values(x, recv, args, e, p, site): yield p, Val('pyvalues', x=recv.t)

    def h_parse(x, e, p, site):
        for p1, vs in x.ev_seq(list(e.args), p):
            if isinstance(vs, Exc): yield p1, vs
            else:
                yield p1.fork(), Exc('ValueError', site)
                if len(vs) > 1 or e.keywords:
                    # PARSED is the callee with its default precision arguments (the full-precision instant); with explicit precision arguments the result is
                    # another function of the text, about which this contract knows nothing: undecided, left to the bounded store comparison
                    q = p1.inexact(); yield q, Val('pyval', z3.FreshConst(VALS, 'parsed_with_precision'))
                else: yield p1, Val('pyval', PARSED(vs[0].t))

    def isinst(which):
        def h(x, v, p, site): yield p, Bool(which)
        return h
    coerced = z3.If(z3.And(IS_DT, IS_STR), PARSED(fvv), fvv)

    def spec(r):
        t = z3.BoolVal(False)
        table = {'=': VEQ(prop, coerced), '!=': z3.Not(VEQ(prop, coerced)), 'in': VIN(prop, coerced),
                 'contains': z3.If(IS_DICT, VIN_VALUES(coerced, prop), VIN(coerced, prop)),
                 '>': VLT(coerced, prop), '<': VLT(prop, coerced), '>=': VLE(coerced, prop), '<=': VLE(prop, coerced)}
        cl = [z3.Implies(op == z3.StringVal(k), r == v) for k, v in table.items()]
        return z3.And(*cl)
    return Contract(f'{FL}::Filter._check_property', props=['C12'],
                    params={'self': Rec(value=Val('pyval', fvv), op=Str(op), property=Str(z3.String('self.property'))), 'stix_obj_property': Val('pyval', prop)},
                    ensures=[('result == documented operator semantics, with a timestamp string coerced to an instant when the property is a datetime',
                              lambda a, r: spec(expect(r, 'bool')))],
                    raises={'ValueError': None, 'TypeError': None},
                    handlers={'isinstance:datetime': isinst(IS_DT), 'isinstance:str': isinst(IS_STR), 'isinstance:dict': isinst(IS_DICT), 'stix2.utils.parse_into_datetime': h_parse},
                    registry_ext={'compare': {('pyval', 'pyval'): cmp_val}, 'contains': {('pyval', 'pyval'): contains_val, ('pyvalues', 'pyval'): contains_values},
                                  'methods': {('.values', 'pyval'): m_values}},
                    assumptions=['A: ==, <, <=, in on property values are the Python operators of the operand types (uninterpreted relations; > and >= are their converses)'],
                    note='all eight operators')


# ------------------------------------------------------------------ FilterSet.add: the abstract view of a FilterSet is the SET of its filters (a query is their conjunction)
FS_ELEM = z3.Function('filters.item', z3.IntSort(), E.S); FS_N = z3.Int('n_filters')


def filterset_add_contract(variant):
    """variant 'list': `filters` is a list / FilterSet of filters (abstracted to their identities, strings); 'single': one Filter; 'none': nothing.
    View after the call == view before, plus exactly the filters handed in -- stated over the whole view, so nothing already attached is lost or replaced."""
    from vf.pyvc.lib import rebinding
    view0 = z3.Const('self._filters.view', E.SetS)
    self_ = E.Rec(_filters=E.SetV(view0))
    one = z3.String('filter')
    if variant == 'list': filters = E.Seq(lambda i: Str(FS_ELEM(i)), FS_N)
    elif variant == 'single': filters = Str(one)
    else: filters = NONE

    def m_append(x, recv, args, p):
        u = z3.FreshConst(E.S, 'u')
        if recv.sort == 'litlist':        # a list literal assigned in the body: its view is the set of its (identity-valued) elements
            if any(i.sort != 'str' for i in recv.x): raise Unsupported('list literal with non-filter elements')
            base = z3.Lambda([u], z3.Or(*[u == i.t for i in recv.x])) if recv.x else E.EMPTY
        else: base = recv.t
        return E.SetV(z3.Lambda([u], z3.Or(base[u], u == args[0].t)))

    def h_isinst(x, v, p, site):
        yield p, Bool(variant == 'list' and v.sort == 'seq')

    def inv(x, env, i, it):
        s = z3.String('s!fs'); u = z3.Int('u!fs')
        return z3.ForAll([s], env['self'].x['_filters'].t[s] == z3.Or(view0[s], z3.Exists([u], z3.And(0 <= u, u < i, it.t[0](u).t == s))))

    def outcomes(x, outs, add):
        s = z3.String('s!post'); u = z3.Int('u!post')
        for i, (kind, p, v) in enumerate(outs):
            if kind != 'return': continue
            now = p.env['self'].x['_filters'].t
            if variant == 'list': given = z3.Exists([u], z3.And(0 <= u, u < FS_N, FS_ELEM(u) == s))
            elif variant == 'single': given = z3.And(s == one, z3.Length(one) > 0)
            else: given = z3.BoolVal(False)
            add(f'view after add == view before | the filters handed in (nothing attached before is lost) @path{i}', p.pc, z3.ForAll([s], now[s] == z3.Or(view0[s], given)), p.exact)
    return Contract('stix2/datastore/filters.py::FilterSet.add', props=['C12', 'C18', 'C13'], params={'self': self_, 'filters': filters}, note=f'argument: {variant}',
                    requires=[('length', lambda a: FS_N >= 0)] + ([('a Filter object is truthy (modelled by a non-empty identity)', lambda a: z3.Length(one) > 0)] if variant == 'single' else []),
                    raises={}, handlers={'isinstance:(FilterSet, list)': h_isinst}, loops={0: {'kind': 'inv', 'inv': inv}},
                    registry_ext={'methods': {('.append', 'set'): rebinding(m_append), ('.append', 'litlist'): rebinding(m_append)}}, on_outcomes=outcomes,
                    assumptions=['a Filter is abstracted to its identity; `f not in list` / `list.append(f)` are membership / insertion on the set of identities (equality of Filters is value equality of named tuples)'])
