"""C01: contracts for stix2/serialization.py."""
import ast
import z3
from vf.pyvc import engine as E
from vf.pyvc.engine import Val, Exc, Unsupported, NONE, Int, Bool, Str, Rec, Opt, SetV, Seq, S, SetS, sat
from vf.pyvc.contract import Contract, SortMismatch

SER = 'stix2/serialization.py'
KEYS = z3.Const('keys(obj)', SetS)
DEF = z3.Function('obj._defaulted_optional_properties.item', z3.IntSort(), S); NDEF = z3.Int('n_defaulted')


def encoder_default_contract(include_defaults):
    cls = 'STIXJSONIncludeOptionalDefaultsEncoder' if include_defaults else 'STIXJSONEncoder'
    IS_DT = z3.Bool('isinstance(obj, date/datetime)'); IS_OBJ = z3.Bool('isinstance(obj, _STIXBase)')

    def isinst(b):
        def h(x, v, p, site): yield p, Bool(b)
        return h

    def h_dict(x, e, p, site): yield p, Val('keydict', KEYS)
    def h_fmt(x, e, p, site): yield p, Val('timestamp-text', x='format_datetime(obj)')

    def attr_def(x, o, p, site): yield p.fork(NDEF >= 0), Seq(lambda i: Str(DEF(i)), NDEF)

    def delete(x, tgt, q):
        if not (isinstance(tgt, ast.Subscript) and isinstance(tgt.value, ast.Name) and q.env.get(tgt.value.id, NONE).sort == 'keydict'): raise Unsupported('del ' + ast.unparse(tgt))
        outs = list(x.ev(tgt.slice, q))
        if len(outs) != 1 or isinstance(outs[0][1], Exc) or outs[0][1].sort != 'str': raise Unsupported('del key')
        k = outs[0][1].t; d = q.env[tgt.value.id]
        res = []
        a = q.fork(z3.Not(d.t[k]))
        if sat(a.pc): res.append(('raise', a, Exc('KeyError', x.site(tgt))))
        b = q.fork(d.t[k])
        if sat(b.pc):
            b.env[tgt.value.id] = Val('keydict', z3.Store(d.t, k, False)); res.append(('fall', b, None))
        return res

    def inv(x, env, i, it):
        u = z3.String('u!enc'); j = z3.Int('j!enc')
        return z3.ForAll([u], env['tmp_obj'].t[u] == z3.And(KEYS[u], z3.Not(z3.Exists([j], z3.And(0 <= j, j < i, DEF(j) == u)))))

    def ens(a, r):
        u = z3.String('u!eo'); j = z3.Int('j!eo')
        if r.sort == 'timestamp-text': return IS_DT
        if r.sort == 'opaque': return z3.And(z3.Not(IS_DT), z3.Not(IS_OBJ))      # delegated to the base encoder (raises TypeError for unknown types)
        if r.sort != 'keydict': raise SortMismatch('result sort ' + r.sort)
        dropped = lambda uu: z3.Exists([j], z3.And(0 <= j, j < NDEF, DEF(j) == uu))
        if include_defaults: return z3.And(IS_OBJ, z3.ForAll([u], r.t[u] == KEYS[u]))
        return z3.And(IS_OBJ, z3.ForAll([u], r.t[u] == z3.And(KEYS[u], z3.Not(dropped(u)))))
    i1, i2 = z3.Ints('i1 i2')
    c = Contract(f'{SER}::{cls}.default', props=['C01'],
                 params={'self': 'opaque', 'obj': Val('encobj', x='obj')},
                 requires=[('defaulted optional properties are distinct keys of the object (established by _STIXBase.__init__)',
                            lambda a: z3.And(NDEF >= 0, z3.ForAll([i1], z3.Implies(z3.And(0 <= i1, i1 < NDEF), KEYS[DEF(i1)])),
                                             z3.ForAll([i1, i2], z3.Implies(z3.And(0 <= i1, i1 < i2, i2 < NDEF), DEF(i1) != DEF(i2)))))],
                 ensures=[('a STIX object is encoded as all of its properties' + ('' if include_defaults else ' minus exactly the defaulted optional ones') + '; a datetime as its canonical text', ens)],
                 raises={'TypeError': None}, ignore_unknown_exceptions=True,
                 handlers={'isinstance:(dt.date, dt.datetime)': isinst(IS_DT), 'isinstance:stix2.base._STIXBase': isinst(IS_OBJ), 'dict': h_dict, 'format_datetime': h_fmt},
                 registry_ext={'attrs': {('encobj', '_defaulted_optional_properties'): attr_def}},
                 loops={0: {'kind': 'inv', 'inv': inv}}, havoc={'tmp_obj': lambda v: Val('keydict', z3.FreshConst(SetS, 'tmp'))})
    c.delete_handler = delete
    return c
