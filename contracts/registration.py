"""C19: contracts for stix2/registration.py -- exact, exclusive, version-scoped registration."""
import ast
import z3
from vf.pyvc import engine as E
from vf.pyvc.engine import Val, Exc, Unsupported, NONE, Int, Bool, Str, Rec, Opt, SetV, S, SetS, sat
from vf.pyvc.contract import Contract

SRC = 'stix2/registration.py'
MAPS = z3.Function('STIX2_OBJ_MAPS', S, S, SetS)           # (version, category) -> set of registered type names (old state)
FAMILY = {'ValueError': None, 'TypeError': None, 'STIXError': None}
KINDS = {'_register_object': ('new_type', 'objects'), '_register_marking': ('new_marking', 'markings'),
         '_register_observable': ('new_observable', 'observables'), '_register_extension': ('new_extension', 'extensions')}


def register_contract(fn_name):
    pname, category = KINDS[fn_name]
    cls = Rec(_type=Str(z3.String('new._type')), _properties=Val('opaque', x='props'), __name__=Str(z3.String('new.__name__')))
    version = Str(z3.String('version'))

    def sub_registry(x, o, k, p, site):
        yield p, Val('vermap', k.t)

    def sub_vermap(x, o, k, p, site):
        yield p, Val('set', MAPS(o.t, k.t), x={'version': o.t, 'category': k.t})

    def m_keys(x, recv, args, e, p, site): yield p, recv

    def store(x, tgt, v, q):
        if not isinstance(tgt.value, ast.Name): raise Unsupported('store ' + ast.unparse(tgt))
        m = q.env.get(tgt.value.id)
        if m is None or m.sort != 'set' or not m.x: raise Unsupported('store into ' + ast.unparse(tgt.value))
        outs = list(x.ev(tgt.slice, q))
        if len(outs) != 1 or isinstance(outs[0][1], Exc) or outs[0][1].sort != 'str': raise Unsupported('registry key')
        q.ghost = dict(q.ghost, stores=list(q.ghost.get('stores', [])) + [(m.x['version'], m.x['category'], outs[0][1].t, v)])

    def callee_may_raise(x, e, p, site):
        for p1, vs in x.ev_seq([a for a in e.args] + [k.value for k in e.keywords], p):
            if isinstance(vs, Exc):
                yield p1, vs; continue
            yield p1.fork(), Exc('ValueError', site + ':callee')
            yield p1, NONE

    def h_issubclass(x, e, p, site): yield p, Bool(z3.Bool('issubclass(new, base)'))

    def h_getattr(x, e, p, site): yield p, Val('opaque', x='tl_props')

    def h_any(x, e, p, site): yield p, Bool(z3.Bool('invalid_extension_shape'))

    def h_dict(x, e, p, site): yield p, Val('opaque', x='combined')

    def outcomes(x, outs, add):
        a = x.params; ty = cls.x['_type'].t; ver = version.t
        for i, (kind, p, v) in enumerate(outs):
            st = p.ghost.get('stores', [])
            if kind == 'return':
                add(f'success => exactly one registry store @path{i}', p.pc, z3.BoolVal(len(st) == 1), p.exact)
                if len(st) == 1:
                    sv, sc, sk, sval = st[0]
                    add(f'the store goes into the map of exactly the chosen version and the {category} category, under the type name, with the new class @path{i}', p.pc,
                        z3.And(sv == ver, sc == z3.StringVal(category), sk == ty, z3.BoolVal(sval is a[pname])), p.exact)
                    add(f'success => the name was free in that map (exclusive) @path{i}', p.pc, z3.Not(MAPS(ver, z3.StringVal(category))[ty]), p.exact)
            elif kind == 'raise':
                add(f'a refused registration leaves every registry untouched @path{i}', p.pc, z3.BoolVal(len(st) == 0), p.exact)
                if v.name == 'DuplicateRegistrationError':
                    add(f'DuplicateRegistrationError only when the name is already taken in that map @path{i}', p.pc, MAPS(ver, z3.StringVal(category))[ty], p.exact)
    return Contract(f'{SRC}::{fn_name}', props=['C19'],
                    params={pname: cls, 'version': version},
                    requires=[('a version string is given', lambda a: z3.Length(version.t) > 0)],
                    raises=dict(FAMILY), store_handler=store, on_outcomes=outcomes,
                    globals={'registry.STIX2_OBJ_MAPS': Val('registry', x='maps')},
                    handlers={'_validate_props': callee_may_raise, '_validate_type': callee_may_raise, 'issubclass': h_issubclass, 'getattr': h_getattr, 'any': h_any, 'dict': h_dict},
                    registry_ext={'subscript': {('registry', 'str'): sub_registry, ('vermap', 'str'): sub_vermap}, 'methods': {('.keys', 'set'): m_keys}},
                    note=f'{category}: duplicate => refused with the registries unchanged; success => that one map gains exactly type -> class')
