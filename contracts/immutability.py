"""C13: contracts for stix2/base.py __setattr__ and __deepcopy__."""
import ast
import z3
from vf.pyvc import engine as E
from vf.pyvc.engine import Val, Exc, Unsupported, NONE, Int, Bool, Str, Rec, Opt, S, sat
from vf.pyvc.contract import Contract, SortMismatch
from vf.check import Replay

BASE = 'stix2/base.py'


def setattr_contract():
    def h_super(x, e, p, site): yield p, Val('opaque', x='super()')
    def m_setattr(x, e, p, site):
        for p1, vs in x.ev_seq(list(e.args), p): yield p1, (vs if isinstance(vs, Exc) else NONE)
    public = lambda a: z3.Not(z3.PrefixOf(z3.StringVal('_'), a['name'].t))
    return Contract(f'{BASE}::_STIXBase.__setattr__', props=['C13'],
                    params={'self': 'opaque', 'name': 'str', 'value': 'opaque'},
                    ensures=[('assignment goes through only for private (underscore) names', lambda a, r: z3.Not(public(a)))],
                    raises={'ImmutableError': public},
                    handlers={'super': h_super, 'super(_STIXBase, self).__setattr__': m_setattr},
                    note='every public property name is refused')


def deepcopy_contract():
    IS_OBS = z3.Bool('isinstance(self, _Observable)')

    def h_deepcopy(x, e, p, site):
        for p1, vs in x.ev_seq(list(e.args), p):
            if isinstance(vs, Exc):
                yield p1, vs; continue
            yield p1, Val('deepcopy-of', x={'of': ast.unparse(e.args[0]), 'memo_passed': len(e.args) > 1 and vs[1] is x.params['memo']})

    def h_type(x, e, p, site): yield p, Val('opaque', x='cls')

    def store(x, tgt, v, q):
        base = tgt.value
        ok = isinstance(base, ast.Name) and q.env.get(base.id, NONE).sort == 'deepcopy-of'
        x.oblige(f'store `{ast.unparse(tgt)} = ...` writes only into the private deep copy', q.pc, z3.BoolVal(bool(ok)), q.exact, 'frame')

    def h_cls(x, e, p, site):
        star = [k.value for k in e.keywords if k.arg is None]
        for p1, vs in x.ev_seq(star, p):
            if isinstance(vs, Exc):
                yield p1, vs; continue
            for exn in ('STIXError', 'ValueError', 'TypeError'): yield p1.fork(), Exc(exn, site + ':constructor')
            yield p1, Val('constructed', x={'star': vs})

    def ens(a, r):
        if r.sort != 'constructed': raise SortMismatch('result is not a constructor call')
        st = r.x['star']
        return z3.BoolVal(len(st) == 1 and st[0].sort == 'deepcopy-of' and st[0].x['of'] == 'self._inner')
    return Contract(f'{BASE}::_STIXBase.__deepcopy__', props=['C13'],
                    params={'self': 'opaque', 'memo': 'opaque'},
                    ensures=[('the copy is constructed from copy.deepcopy(self._inner): it shares no mutable state with the original', ens)],
                    raises={'STIXError': None, 'ValueError': None, 'TypeError': None},
                    handlers={'copy.deepcopy': h_deepcopy, 'type': h_type, 'cls': h_cls, 'dict': lambda x, e, p, site: iter([(p, Val('shallow-copy', x=ast.unparse(e)))]), 'isinstance:_Observable': lambda x, v, p, site: iter([(p, Bool(IS_OBS))])},
                    store_handler=store, assumptions=['A(copy.deepcopy): returns an equal value sharing no mutable object with its argument [probed natively]'],
                    note='deep copy support')
