"""Contracts on the inter-property constraint helpers of _STIXBase (stix2/base.py): the three functions every per-type
_check_object_constraints override is built from.  self is abstracted to (HAS: key -> bool, VALUE: key -> JSON-like value);
property-name collections are abstracted to their element sets (the code uses them through set()/iteration only)."""
import ast
import z3
from vf.pyvc import engine as E
from vf.pyvc.engine import Val, Bool, Int, Str, JV, SetV, Seq, Exc, NONE, S, J, tag, TAG, bof, sat, Unsupported
from vf.pyvc.contract import Contract
from vf.check import Replay

BASE = 'stix2/base.py'
HAS = z3.Function('self.has', S, z3.BoolSort())
VALUE = z3.Function('self.value', S, J)
PROPS = z3.Const('self._properties.keys()', E.SetS)
IS_OBS = z3.Bool('isinstance(self, _Observable)')
SELF = Val('stixobj', x='self')


def keyset():
    u = z3.FreshConst(S, 'u'); return z3.Lambda([u], HAS(u))


def _contains(x, c, item, p, site): yield p, Bool(HAS(item.t))


def _subscript(x, o, k, p, site):
    q = p.fork(z3.Not(HAS(k.t)))
    if sat(q.pc): yield q, Exc('KeyError', site)
    q = p.fork(HAS(k.t))
    if sat(q.pc): yield q, JV(VALUE(k.t))


def _m_keys(x, recv, args, e, p, site): yield p, SetV(keyset())
def _m_populated(x, recv, args, e, p, site): yield p, SetV(keyset())
def _attr_class(x, o, p, site): yield p, Val('opaque', x='self.__class__')
def _attr_props(x, o, p, site): yield p, SetV(PROPS)
def _m_keys_set(x, recv, args, e, p, site): yield p, recv


def _m_intersection(x, recv, args, e, p, site):
    from vf.pyvc.lib import as_set
    u = z3.FreshConst(S, 'u'); a, b = recv.t, as_set(args[0])
    yield p, SetV(z3.Lambda([u], z3.And(a[u], b[u])))


def card_facts(s, c):
    """what the proof needs of len() of a finite set: the three facts below are theorems of finite cardinality (A: stated, not derived)"""
    u, v = z3.FreshConst(S, 'u'), z3.FreshConst(S, 'v')
    return [c >= 0, (c == 0) == z3.ForAll([u], z3.Not(s[u])), (c >= 2) == z3.Exists([u, v], z3.And(u != v, s[u], s[v]))]


def _h_len(x, e, p, site):
    for p1, vs in x.ev_seq(list(e.args), p):
        if isinstance(vs, Exc):
            yield p1, vs; continue
        if vs[0].sort != 'set': raise Unsupported(site + ' len of ' + vs[0].sort)
        c = z3.FreshConst(z3.IntSort(), 'card')
        yield p1.fork(*card_facts(vs[0].t, c)), Int(c)


def _isinst(t):
    def h(x, v, p, site): yield p, Bool(t)
    return h


REGX = {'contains': {('stixobj', 'str'): _contains}, 'subscript': {('stixobj', 'str'): _subscript},
        'methods': {('.keys', 'stixobj'): _m_keys, ('.properties_populated', 'stixobj'): _m_populated, ('.keys', 'set'): _m_keys_set, ('.intersection', 'set'): _m_intersection},
        'attrs': {('stixobj', '__class__'): _attr_class, ('stixobj', '_properties'): _attr_props}}


# ------------------------------------------------------------------ native replay on a real _STIXBase instance
def _strings(model, ob):
    from vf.pyvc.jsonmodel import string_constants, model_strings, all_model_strings
    return sorted(string_constants(ob.pc + [ob.claim]) | model_strings(model, ob.pc) | all_model_strings(model) | {'a', 'b', 'type', 'extensions'})


def _lower_self(model, cands):
    inner = {}
    for s in cands:
        sv = z3.StringVal(s)
        if z3.is_true(model.eval(HAS(sv), model_completion=True)):
            t = model.eval(tag(VALUE(sv)), model_completion=True)
            if z3.is_true(model.eval(t == TAG['null'], model_completion=True)): inner[s] = None
            elif z3.is_true(model.eval(t == TAG['bool'], model_completion=True)): inner[s] = z3.is_true(model.eval(bof(VALUE(sv)), model_completion=True))
            else: inner[s] = 'v'
    return inner


def _lower_set(model, term, cands):
    return [s for s in cands if z3.is_true(model.eval(term[z3.StringVal(s)], model_completion=True))]


def _dummy(inner, props, observable):
    import stix2.base as B
    base = B._Observable if observable else B._STIXBase
    cls = type('VfDummy', (base,), {'_properties': {k: None for k in props}, '_type': 'x-vf'})
    o = object.__new__(cls); object.__setattr__(o, '_inner', dict(inner))
    return o


def _replay(method, lower_args):
    def lower_z3(model, ob):
        cands = _strings(model, ob)
        py = {'inner': _lower_self(model, cands), 'props': _lower_set(model, PROPS, cands), 'observable': z3.is_true(model.eval(IS_OBS, model_completion=True))}
        py.update(lower_args(model, cands))
        return py

    def call(py):
        o = _dummy(py['inner'], py['props'], py['observable'])
        return getattr(o, method)(*py['args'])
    return lower_z3, call


def _objects():
    import itertools
    ABSENT = object()
    for va, vb in itertools.product((ABSENT, None, False, True, 'v'), repeat=2):
        yield {k: v for k, v in (('a', va), ('b', vb)) if v is not ABSENT}


def _with_search(rp, argsets, props=(('a', 'b', 'type'), ('type', 'extensions'), ()), observable=(False,)):
    def search():
        for inner in _objects():
            for args in argsets:
                for pr in props:
                    for ob in observable: yield {'inner': inner, 'props': list(pr), 'observable': ob, 'args': list(args)}
    rp.search = search
    return rp


# ------------------------------------------------------------------ _check_mutually_exclusive_properties
def mutually_exclusive_contract():
    L = z3.Const('list_of_properties', E.SetS); alo = z3.Bool('at_least_one')
    u, v = z3.Consts('u v', S)
    two = z3.Exists([u, v], z3.And(u != v, L[u], L[v], HAS(u), HAS(v)))
    none = z3.Not(z3.Exists([u], z3.And(L[u], HAS(u))))
    spec = z3.Or(two, z3.And(alo, none))
    lower_z3, call = _replay('_check_mutually_exclusive_properties', lambda m, cands: {'args': [_lower_set(m, L, cands), z3.is_true(m.eval(alo, model_completion=True))]})

    def judge(py, outcome, ob):
        pop = [k for k in py['args'][0] if k in py['inner']]
        want = len(pop) > 1 or (py['args'][1] and not pop)
        got = outcome[0] == 'raise' and type(outcome[1]).__name__ == 'MutuallyExclusivePropertiesError'
        if outcome[0] == 'raise' and not got: return [f'unexpected {type(outcome[1]).__name__}']
        return [] if want == got else [f'{len(pop)} of the listed properties are populated, at_least_one={py["args"][1]}: error {"expected" if want else "not expected"}']
    return Contract(f'{BASE}::_STIXBase._check_mutually_exclusive_properties', props=['C02', 'C03'],
                    params={'self': SELF, 'list_of_properties': SetV(L), 'at_least_one': Bool(alo)},
                    raises={'MutuallyExclusivePropertiesError': lambda a: spec}, handlers={'len': _h_len}, registry_ext=REGX,
                    replay=_with_search(Replay(call=call, lower_z3=lower_z3, judge=judge), [(l, f) for l in (['a'], ['a', 'b'], ['a', 'b', 'c'], []) for f in (True, False)], props=((),)),
                    assumptions=['A: len() of a set s is >= 0, is 0 iff s is empty, is >= 2 iff s has two distinct members (finite cardinality facts, stated)',
                                 'the property-name list is abstracted to its element set (the code only applies set() to it)'],
                    note='iff: error exactly when two listed properties are populated, or none is while at_least_one is set')


# ------------------------------------------------------------------ _check_at_least_one_property
def at_least_one_contract():
    C = z3.Const('properties_checked', E.SetS); isnone = z3.Bool('properties_checked.isnone'); is_set = z3.Bool('isinstance(properties_checked, set)')
    u = z3.Const('u', S)
    exc = z3.Store(z3.Store(E.EMPTY, z3.StringVal('extensions'), True), z3.StringVal('type'), True)
    exc_obs = exc
    for k in ('id', 'defanged', 'spec_version'): exc_obs = z3.Store(exc_obs, z3.StringVal(k), True)

    def checked(w): return z3.If(isnone, z3.And(PROPS[w], z3.Not(z3.If(IS_OBS, exc_obs[w], exc[w]))), C[w])
    spec = z3.And(z3.Exists([u], checked(u)), z3.Not(z3.Exists([u], z3.And(checked(u), HAS(u)))))

    def lower_args(m, cands):
        if z3.is_true(m.eval(isnone, model_completion=True)): return {'args': [None]}
        xs = _lower_set(m, C, cands)
        return {'args': [set(xs) if z3.is_true(m.eval(is_set, model_completion=True)) else xs]}
    lower_z3, call = _replay('_check_at_least_one_property', lower_args)

    def judge(py, outcome, ob):
        a = py['args'][0]
        if a is None: a = set(py['props']) - ({'extensions', 'type'} | ({'id', 'defanged', 'spec_version'} if py['observable'] else set()))
        want = bool(a) and not any(k in py['inner'] for k in a)
        got = outcome[0] == 'raise' and type(outcome[1]).__name__ == 'AtLeastOnePropertyError'
        if outcome[0] == 'raise' and not got: return [f'unexpected {type(outcome[1]).__name__}']
        return [] if want == got else [f'checked {sorted(a)}, present {sorted(py["inner"])}: error {"expected" if want else "not expected"}']
    return Contract(f'{BASE}::_STIXBase._check_at_least_one_property', props=['C02', 'C03'],
                    params={'self': SELF, 'properties_checked': Val('opt:set', (isnone, SetV(C)))},
                    raises={'AtLeastOnePropertyError': lambda a: spec},
                    handlers={'isinstance:_Observable': _isinst(IS_OBS), 'isinstance:set': _isinst(is_set)}, registry_ext=REGX,
                    replay=_with_search(Replay(call=call, lower_z3=lower_z3, judge=judge), [(None,), (['a'],), ({'a', 'b'},), ([],), (['c'],), (('a', 'c'),)], observable=(False, True),
                                        props=(('a', 'b', 'type'), ('type', 'extensions'), ('id', 'spec_version', 'defanged', 'type'), ('a', 'id'), ())),
                    assumptions=['the checked-names iterable is abstracted to its element set'],
                    note='iff: error exactly when the (default or given) name set is non-empty and none of its members is present; default = declared properties minus '
                         'extensions/type (and id/defanged/spec_version on observables)')


# ------------------------------------------------------------------ _check_properties_dependency
def properties_dependency_contract():
    Lf, Df = z3.Function('list_of_properties', z3.IntSort(), S), z3.Function('list_of_dependent_properties', z3.IntSort(), S)
    n, m = z3.Ints('n_properties n_dependent')
    i_, j_ = z3.Ints('i_ j_')

    def isnone(k): return tag(VALUE(k)) == TAG['null']
    def isfalse(k): return z3.And(tag(VALUE(k)) == TAG['bool'], z3.Not(bof(VALUE(k))))
    def cond(p, d): return z3.Or(z3.And(z3.Not(HAS(p)), HAS(d)), z3.And(HAS(p), z3.Or(isnone(p), isfalse(p)), HAS(d), z3.Not(isnone(d))))
    def upto(i): return z3.Exists([i_, j_], z3.And(0 <= i_, i_ < i, 0 <= j_, j_ < m, cond(Lf(i_), Df(j_))))
    def row(p, j): return z3.Exists([j_], z3.And(0 <= j_, j_ < j, cond(p, Df(j_))))

    def inv_outer(x, env, i, it): return env['failed_dependency_pairs'].t == upto(i)
    def inv_inner(x, env, j, it): return env['failed_dependency_pairs'].t == z3.Or(upto(env['@loop0'].t), row(env['p'].t, j))

    def m_append(x, recv, args, e, p, site):
        q = p.fork(); q.env[e.func.value.id] = Val('pairs', z3.BoolVal(True)); yield q, NONE

    def lower_args(mo, cands):
        def seq(f, k): return [mo.eval(f(z3.IntVal(t)), model_completion=True).as_string() for t in range(max(0, min(6, mo.eval(k, model_completion=True).as_long())))]
        return {'args': [seq(Lf, n), seq(Df, m)]}
    lower_z3, call = _replay('_check_properties_dependency', lower_args)

    def judge(py, outcome, ob):
        inner = py['inner']
        def c(p, d): return (p not in inner and d in inner) or (p in inner and (inner[p] is None or inner[p] is False) and d in inner and inner[d] is not None)
        want = any(c(p, d) for p in py['args'][0] for d in py['args'][1])
        got = outcome[0] == 'raise' and type(outcome[1]).__name__ == 'DependentPropertiesError'
        if outcome[0] == 'raise' and not got: return [f'unexpected {type(outcome[1]).__name__}']
        return [] if want == got else [f'properties {py["args"][0]}, dependent {py["args"][1]}, object {inner}: error {"expected" if want else "not expected"}']
    rx = {k: dict(v) for k, v in REGX.items()}
    rx['methods'][('.append', 'pairs')] = m_append
    c = Contract(f'{BASE}::_STIXBase._check_properties_dependency', props=['C02', 'C03'],
                 params={'self': SELF, 'list_of_properties': Seq(lambda i: Str(Lf(i)), n), 'list_of_dependent_properties': Seq(lambda i: Str(Df(i)), m)},
                 requires=[('list lengths are non-negative', lambda a: z3.And(n >= 0, m >= 0))],
                 raises={'DependentPropertiesError': lambda a: upto(n)},
                 loops={0: {'kind': 'inv', 'inv': inv_outer}, 1: {'kind': 'inv', 'inv': inv_inner}},
                 local_sorts={'failed_dependency_pairs': 'pairs'}, truthy_handlers={'pairs': lambda x, v: v.t},
                 havoc={'failed_dependency_pairs': lambda v: Val('pairs', z3.FreshConst(z3.BoolSort(), 'nonempty'))},
                 registry_ext=rx, replay=_with_search(Replay(call=call, lower_z3=lower_z3, judge=judge), [(l, d) for l in (['a'], ['b'], ['a', 'b'], ['c'], []) for d in (['b'], ['a'], ['a', 'b'], ['c', 'b'], [])], props=((),)),
                 note='iff: error exactly when some (p, dp) pair has dp present while p is absent, or p is None/False while dp is present and not None; nested loop invariants')
    c.lifters = {'pairs': lambda v: Val('pairs', z3.BoolVal(bool(v.x))) if v.sort == 'litlist' else v}
    return c


def all_contracts(): return [mutually_exclusive_contract(), at_least_one_contract(), properties_dependency_contract()]
