"""C02 / C03 / C04: contracts for property cleaners and co-constraint overrides (stix2/properties.py, v21/*.py)."""
import ast
import z3
from vf.pyvc import engine as E
from vf.pyvc.engine import Val, Exc, Unsupported, NONE, Int, Bool, Str, Rec, Opt, SetV, Seq, S, SetS, sat
from vf.pyvc.contract import Contract, expect, SortMismatch
from vf.pyvc.lib import mk_map
from vf.check import Replay
from vf.pyvc import rx
from spec import lexical as SP

PR = 'stix2/properties.py'
FAMILY = {'STIXError': None, 'ValueError': None, 'TypeError': None}


# ------------------------------------------------------------------ _validate_type: returns <=> spec-valid
def validate_type_contract():
    def valid(a):
        t = a['type_'].t; v = a['spec_version'].t
        lang = z3.If(v == z3.StringVal('2.0'), z3.InRe(t, SP.TYPE_20), z3.InRe(t, SP.TYPE_21))
        return z3.And(lang, z3.Length(t) >= 3, z3.Length(t) <= 250)

    def call(py):
        import stix2.properties as P
        return P._validate_type(py['type_'], py['spec_version'])
    return Contract(f'{PR}::_validate_type', props=['C02', 'C03', 'C19'],
                    params={'type_': 'str', 'spec_version': 'str'},
                    requires=[('a known spec version', lambda a: z3.Or(a['spec_version'].t == z3.StringVal('2.0'), a['spec_version'].t == z3.StringVal('2.1')))],
                    ensures=[('accepted type names are specification-valid', lambda a, r: valid(a))],
                    raises={'ValueError': lambda a: z3.Not(valid(a))},
                    replay=Replay(call=call), note='iff: accepted <=> in the specification language for the version and 3..250 long')


# ------------------------------------------------------------------ IntegerProperty.clean
def integer_clean_contract(kind='int'):
    """kind: 'int' | 'bool' (bool is a subclass of int in Python: JSON true/false given for an integer property must come out as the plain integers 1/0)"""
    mn, mx = E.named('opt:int', 'self.min'), E.named('opt:int', 'self.max')
    if kind == 'int': value = Val('int', z3.Int('value'))          # an int, or anything int() maps to an int (A)
    else:
        bv = z3.Bool('value'); given = Val('bool', bv); value = Val('int', z3.If(bv, z3.IntVal(1), z3.IntVal(0)))

    def inrange(n): return z3.And(z3.Or(mn.t[0], n >= mn.t[1].t), z3.Or(mx.t[0], n <= mx.t[1].t))

    def ens(a, r):
        if r.sort != 'tuple' or len(r.x) != 2 or r.x[0].sort != 'int' or r.x[1].sort != 'bool': raise SortMismatch('result shape')
        return z3.And(inrange(r.x[0].t), r.x[0].t == value.t, z3.Not(r.x[1].t))
    def call(py):
        import stix2.properties as P
        return P.IntegerProperty(min=py['min'], max=py['max']).clean(py['value'], py.get('allow_custom', False))

    def lower(model):
        return {'value': model['value'], 'min': None if model.get('self.min.isnone') else model.get('self.min'), 'max': None if model.get('self.max.isnone') else model.get('self.max'),
                'allow_custom': bool(model.get('allow_custom'))}

    def search():
        big = 2 ** 53
        for lo, hi in ((None, None), (0, None), (0, 100), (None, 65535), (1, 1), (-big - 2, big + 2), (None, 10 ** 30)):
            for v in (0, 1, -1, 2, 100, 101, 65535, 65536, big, big + 1, -big - 1, 10 ** 20 + 1, 10 ** 400, True, False, '12', '-3'):
                yield {'value': v, 'min': lo, 'max': hi}

    def judge(py, outcome, ob):
        kind, val = outcome; n = int(py['value'])
        ok = (py['min'] is None or n >= py['min']) and (py['max'] is None or n <= py['max'])
        what = f"IntegerProperty(min={py['min']}, max={py['max']}).clean({py['value']!r})"
        if ok:
            if kind == 'raise': return [f'{what}: an integer inside the range is refused: {type(val).__name__}: {val}']
            if not (isinstance(val, tuple) and len(val) == 2 and type(val[0]) is int and val[0] == n and val[1] is False): return [f'{what} -> {val!r}, expected ({n}, False) with a plain int']
            return []
        if kind == 'return': return [f'{what} -> {val!r}: a value outside the range is accepted']
        return [] if isinstance(val, ValueError) else [f'{what} raised {type(val).__name__} instead of ValueError']
    rp = Replay(call=call, lower=lower, judge=judge); rp.search = search
    return Contract(f'{PR}::IntegerProperty.clean', props=['C02', 'C03'], replay=rp,
                    params={'self': Rec(min=mn, max=mx), 'value': value if kind == 'int' else given, 'allow_custom': 'bool', 'interoperability': 'bool'},
                    ensures=[('returns the integer unchanged (a plain int), inside [min, max], never custom', ens)],
                    raises={'ValueError': lambda a: z3.Not(inrange(value.t))},
                    assumptions=['A: int(v) returns an int or raises; for an int argument it is the identity'],
                    note='iff: an integer is accepted exactly when it lies in the declared range (boundaries included); variant: value is ' + ('an int' if kind == 'int' else 'a bool'))


# ------------------------------------------------------------------ timestamp-order co-constraints
ORDER_TABLE = [   # (file, class, earlier, later, strict) -- from the specification text of each type
    ('stix2/v21/sdo.py', 'Campaign', 'first_seen', 'last_seen', False), ('stix2/v21/sdo.py', 'Indicator', 'valid_from', 'valid_until', True),
    ('stix2/v21/sdo.py', 'Infrastructure', 'first_seen', 'last_seen', False), ('stix2/v21/sdo.py', 'IntrusionSet', 'first_seen', 'last_seen', False),
    ('stix2/v21/sdo.py', 'Malware', 'first_seen', 'last_seen', False, ('is_family',)), ('stix2/v21/sdo.py', 'ObservedData', 'first_observed', 'last_observed', False),
    ('stix2/v21/sdo.py', 'ThreatActor', 'first_seen', 'last_seen', False),
    ('stix2/v21/sro.py', 'Relationship', 'start_time', 'stop_time', True), ('stix2/v21/sro.py', 'Sighting', 'first_seen', 'last_seen', False),
    ('stix2/v21/observables.py', 'NetworkTraffic', 'start', 'end', False, (), True),
]


def order_contract(relpath, cls, earlier, later, strict, required=(), other_value_errors=False):
    me = mk_map('self', {earlier: 'dt', later: 'dt', 'is_family': 'bool', 'name': 'str', 'pattern_type': 'str', 'is_active': 'bool'}, open_keys=True)
    pe, pl = me.x['present'](earlier), me.x['present'](later)
    ve, vl = me.x['value'](earlier).t, me.x['value'](later).t
    ok = (vl > ve) if strict else (vl >= ve)

    def h_super(x, e, p, site):
        yield p, Val('opaque', x='super()')

    def m_base_constraints(x, e, p, site):
        for exn in FAMILY: yield p.fork(), Exc(exn, site + ':base-class')
        yield p, NONE

    def outcomes(x, outs, add):
        for i, (kind, p, v) in enumerate(outs):
            if kind == 'return':
                add(f'normal return => {later} {">" if strict else ">="} {earlier} when both are present @path{i}', p.pc, z3.Implies(z3.And(pe, pl), ok), p.exact)
            elif kind == 'raise' and v.name == 'ValueError' and ':raise' in v.site and not other_value_errors:
                add(f'ValueError raised here only when the order constraint is violated @path{i}', p.pc, z3.And(pe, pl, z3.Not(ok)), p.exact and v.exact)
    return Contract(f'{relpath}::{cls}._check_object_constraints', props=['C02', 'C03'],
                    params={'self': me}, raises=dict(FAMILY), ignore_unknown_exceptions=True,
                    requires=[('required properties are present (established by the constructor before constraints run)', lambda a: z3.And(*[me.x['present'](r) for r in required]) if required else z3.BoolVal(True))],
                    registry_ext={'attrs': {('map', '__class__'): lambda x, o, p, site: iter([(p, Val('opaque', x='cls'))])}},
                    handlers={'super': h_super, f'super({cls}, self)._check_object_constraints': m_base_constraints, 'super()._check_object_constraints': m_base_constraints},
                    on_outcomes=outcomes,
                    note=f'{cls}: {later} {"strictly later than" if strict else "not earlier than"} {earlier}')


# ------------------------------------------------------------------ HashesProperty.clean: custom flag accumulation
KEY = z3.Function('hash.key', z3.IntSort(), S)
NKEYS = z3.Int('n_hashes')
HAS_ALG = z3.Function('infer_hash_algorithm.recognised', S, z3.BoolSort())
ALG_IN_SPEC = z3.Function('algorithm.has_spec_name', S, z3.BoolSort())
SPEC_NAME_OF = z3.Function('algorithm.spec_name', S, S)
SPEC_NAMES = z3.Const('spec_hash_names', SetS)
CHECK_OK = z3.Function('check_hash.ok', z3.IntSort(), z3.BoolSort())


def custom_entry(j):
    k = KEY(j)
    return z3.If(HAS_ALG(k), z3.Not(ALG_IN_SPEC(k)), z3.Not(SPEC_NAMES[k]))


def hashes_clean_contract():
    def h_super_clean(x, e, p, site):
        for exn in FAMILY: yield p.fork(), Exc(exn, site + ':DictionaryProperty.clean')
        yield p.fork(NKEYS >= 0), Val('tuple', x=[Val('hashdict', x='clean_dict'), Val('opaque', x='_')])

    def m_items(x, recv, args, e, p, site):
        yield p, Seq(lambda i: Val('tuple', x=[Str(KEY(i)), Val('hashval', i)]), NKEYS)

    def h_infer(x, e, p, site):
        for p1, vs in x.ev_seq(list(e.args), p):
            if isinstance(vs, Exc): yield p1, vs
            else: yield p1, Opt(z3.Not(HAS_ALG(vs[0].t)), Val('alg', vs[0].t))

    def h_check_hash(x, e, p, site):
        for p1, vs in x.ev_seq(list(e.args), p):
            if isinstance(vs, Exc): yield p1, vs
            else: yield p1, Bool(z3.FreshConst(z3.BoolSort(), 'check_hash'))

    def m_specname_get(x, recv, args, e, p, site):
        a = args[0]
        if a.sort == 'opt:alg': a = a.t[1]          # on this path the algorithm was recognised (truthy test passed)
        if a.sort != 'alg': raise Unsupported(site)
        yield p, Opt(z3.Not(ALG_IN_SPEC(a.t)), Str(SPEC_NAME_OF(a.t)))

    def store(x, tgt, v, q): pass      # spec_dict[spec_name] = hash_v : the output dictionary is not part of this contract

    def inv(x, env, i, it):
        j = z3.Int('j!h')
        return z3.And(env['has_custom'].t == z3.Exists([j], z3.And(0 <= j, j < i, custom_entry(j))),
                      z3.Or(env['allow_custom'].t, z3.Not(env['has_custom'].t)))      # strict mode never gets past a custom entry

    def ens(a, r):
        j = z3.Int('j!he')
        if r.sort != 'tuple' or len(r.x) != 2 or r.x[1].sort != 'bool': raise SortMismatch('result shape')
        anyc = z3.Exists([j], z3.And(0 <= j, j < NKEYS, custom_entry(j)))
        return z3.And(r.x[1].t == anyc, z3.Implies(z3.Not(a['allow_custom'].t), z3.Not(anyc)))
    me = Rec(**{'__spec_hash_names': SetV(SPEC_NAMES), '__alg_to_spec_name': Val('specnamemap', x='m')})
    return Contract(f'{PR}::HashesProperty.clean', props=['C04', 'C02'],
                    params={'self': me, 'value': 'opaque', 'allow_custom': 'bool', 'interoperability': 'bool'},
                    requires=[('specification hash names are non-empty strings', lambda a: z3.ForAll([z3.String('k!r')], z3.Length(SPEC_NAME_OF(z3.String('k!r'))) > 0))],
                    ensures=[('has_custom <=> some entry names a non-specification algorithm; strict mode => none does', ens)],
                    raises=dict(FAMILY),
                    handlers={'super().clean': h_super_clean, 'stix2.hashes.infer_hash_algorithm': h_infer, 'stix2.hashes.check_hash': h_check_hash},
                    registry_ext={'methods': {('.items', 'hashdict'): m_items, ('.get', 'specnamemap'): m_specname_get}},
                    expr_hooks={'{}': lambda x, e, p: iter([(p, Val('opaque', x='spec_dict'))])},
                    store_handler=store, loops={0: {'kind': 'inv', 'inv': inv}}, truthy_handlers={'alg': lambda x, v: z3.BoolVal(True)},
                    note='the custom flag is the OR over all entries (prefix invariant): a later specification entry cannot reset it')


# ------------------------------------------------------------------ ListProperty.clean: custom flag accumulation, non-empty, strict refusal
ITEM_CUSTOM = z3.Function('item.custom', z3.IntSort(), z3.BoolSort())
NITEMS = z3.Int('n_items')


def list_clean_contract():
    IS_PROP = z3.Bool('isinstance(self.contained, Property)')
    IS_SINGLE = z3.Bool('isinstance(value, (_STIXBase, str))')

    def h_iter(x, e, p, site):
        yield p.fork(), Exc('TypeError', site)
        yield p, Val('opaque', x='iterator')

    def isinst(b):
        def h(x, v, p, site): yield p, Bool(b)
        return h

    def h_isinstance_item(x, v, p, site):
        yield p, Bool(z3.FreshConst(z3.BoolSort(), 'isinst_item'))

    def m_contained_clean(x, e, p, site):
        for p1, vs in x.ev_seq(list(e.args), p):
            if isinstance(vs, Exc):
                yield p1, vs; continue
            for exn in FAMILY: yield p1.fork(), Exc(exn, site + ':contained.clean')
            item = vs[0]
            idx = item.x if item.sort == 'item' else None
            c = ITEM_CUSTOM(idx) if idx is not None else z3.FreshConst(z3.BoolSort(), 'c')
            x.oblige('contained.clean receives this call\'s allow_custom', p1.pc, z3.BoolVal(vs[1] is x.params['allow_custom']), p1.exact, 'call-requires')
            yield p1, Val('tuple', x=[Val('opaque', x='valid'), Bool(c)])

    def h_contained_ctor(x, e, p, site):
        kw = {k.arg: k.value for k in e.keywords if k.arg}
        for p1, vs in x.ev_seq(list(kw.values()), p):
            if isinstance(vs, Exc):
                yield p1, vs; continue
            named_args = dict(zip(kw, vs))
            x.oblige('embedded constructor receives this call\'s allow_custom', p1.pc, z3.BoolVal(named_args.get('allow_custom') is x.params['allow_custom']), p1.exact, 'call-requires')
            for exn in FAMILY: yield p1.fork(), Exc(exn, site + ':constructor')
            idx = p1.ghost.get('iter_index')
            yield p1, Rec(has_custom=Bool(ITEM_CUSTOM(idx) if idx is not None else z3.FreshConst(z3.BoolSort(), 'c')))

    def m_append(x, recv, args, e, p, site):
        q = p.fork(); q.env['result'] = Val('lenlist', recv.t + 1)
        yield q, NONE

    def h_len(x, e, p, site):
        for p1, vs in x.ev_seq(list(e.args), p):
            if isinstance(vs, Exc): yield p1, vs
            elif vs[0].sort == 'lenlist': yield p1, Int(vs[0].t)
            else: raise Unsupported(site)

    def inv(x, env, i, it):
        j = z3.Int('j!l')
        return z3.And(env['has_custom'].t == z3.Exists([j], z3.And(0 <= j, j < i, ITEM_CUSTOM(j))), env['result'].t == i)

    def value_iter(x, it, p, site):
        yield p.fork(NITEMS >= 0), Seq(lambda i: Val('item', x=i, t=None), NITEMS)

    def attr_has_custom(x, o, p, site): yield p, Bool(ITEM_CUSTOM(o.x))

    def ens(a, r):
        j = z3.Int('j!le')
        if r.sort != 'tuple' or len(r.x) != 2 or r.x[1].sort != 'bool' or r.x[0].sort != 'lenlist': raise SortMismatch('result shape')
        n = z3.If(IS_SINGLE, 1, NITEMS)
        anyc = z3.Exists([j], z3.And(0 <= j, j < n, ITEM_CUSTOM(j)))
        return z3.And(r.x[1].t == anyc, z3.Implies(z3.Not(a['allow_custom'].t), z3.Not(anyc)), r.x[0].t == n, n >= 1)
    return Contract(f'{PR}::ListProperty.clean', props=['C04', 'C02', 'C03'],
                    params={'self': Rec(contained=Val('contained', x='c')), 'value': Val('listvalue', x='value'), 'allow_custom': 'bool', 'interoperability': 'bool'},
                    ensures=[('one cleaned element per input element, non-empty; has_custom <=> some element is custom; strict => none is', ens)],
                    raises=dict(FAMILY),
                    handlers={'iter': h_iter, 'isinstance:(_STIXBase, str)': isinst(IS_SINGLE), 'isinstance:Property': isinst(IS_PROP), 'isinstance:self.contained': h_isinstance_item,
                              'isinstance:collections.abc.Mapping': h_isinstance_item, 'self.contained.clean': m_contained_clean, 'self.contained': h_contained_ctor, 'len': h_len},
                    registry_ext={'iterables': {'listvalue': value_iter, 'single': lambda x, it, p, site: iter([(p, Seq(lambda i: Val('item', x=i), z3.IntVal(1)))])},
                                  'methods': {('.append', 'lenlist'): m_append}, 'attrs': {('item', 'has_custom'): attr_has_custom}},
                    expr_hooks={'[]': lambda x, e, p: iter([(p, Val('lenlist', z3.IntVal(0)))]), '[value]': lambda x, e, p: iter([(p, Val('single', x='[value]'))])},
                    loops={0: {'kind': 'inv', 'inv': inv}, 1: {'kind': 'inv', 'inv': inv}},
                    havoc={'result': lambda v: Val('lenlist', z3.FreshConst(z3.IntSort(), 'len'))},
                    note='both element kinds (property cleaner / embedded object class)')


# ------------------------------------------------------------------ ReferenceProperty.clean: custom flag and strict refusal
def reference_clean_contract():
    OBJ_TYPE = z3.String('obj_type'); IS_OBJECT = z3.Bool('is_object(obj_type, spec_version)')
    TYPE_OK = z3.Bool('type_ok')

    def opaque_ok(x, e, p, site):
        for p1, vs in x.ev_seq([a for a in e.args if not isinstance(a, ast.Starred)], p):
            yield p1, (vs if isinstance(vs, Exc) else Val('opaque', x=ast.unparse(e.func) + '()'))

    def h_validate_id(x, e, p, site):
        for p1, vs in x.ev_seq(list(e.args), p):
            if isinstance(vs, Exc):
                yield p1, vs; continue
            x.oblige('call(_validate_id): the identifier is validated under this property\'s own spec version', [],
                     z3.BoolVal(len(e.args) > 1 and ast.unparse(e.args[1]) == 'self.spec_version'), True, 'call-requires')
            yield p1.fork(), Exc('ValueError', site + ':_validate_id')
            yield p1, NONE

    def h_gt(x, e, p, site): yield p, Str(OBJ_TYPE)
    def _uses_own_version(e, pos):
        """the call hands over this property's own spec version (positionally or by keyword): IS_OBJECT etc. denote the callee under THAT version"""
        arg = e.args[pos] if len(e.args) > pos else next((k.value for k in e.keywords if k.arg in ('stix_version', 'spec_version')), None)
        return arg is not None and ast.unparse(arg) == 'self.spec_version'

    def h_is_object(x, e, p, site):
        # (a statement about the call site's text, independent of the path that reaches it)
        x.oblige('call(is_object): the referenced type is looked up under this property\'s own spec version', [],
                 z3.BoolVal(bool(e.args) and ast.unparse(e.args[0]) == 'obj_type' and _uses_own_version(e, 1)), True, 'call-requires')
        yield p, Bool(IS_OBJECT)

    def h_is_stix_type(x, e, p, site):
        x.oblige('call(is_stix_type): the type test runs under this property\'s own spec version', [], z3.BoolVal(_uses_own_version(e, 1)), True, 'call-requires')
        yield p, Bool(z3.FreshConst(z3.BoolSort(), 'is_stix_type'))

    def ens(a, r):
        if r.sort != 'tuple' or len(r.x) != 2 or r.x[1].sort != 'bool': raise SortMismatch('result shape')
        custom = z3.Or(z3.Not(IS_OBJECT), z3.PrefixOf(z3.StringVal('x-'), OBJ_TYPE))
        return z3.And(r.x[1].t == custom, z3.Implies(z3.Not(a['allow_custom'].t), z3.Not(custom)))
    c = Contract(f'{PR}::ReferenceProperty.clean', props=['C04', 'C02'],
                 params={'self': 'opaque', 'value': 'opaque', 'allow_custom': 'bool', 'interoperability': 'bool'},
                 ensures=[('has_custom <=> the referenced type is not a registered object type or starts with "x-"; strict mode => not custom', ens)],
                 raises=dict(FAMILY), ignore_unknown_exceptions=True,
                 handlers={'isinstance:_STIXBase': lambda x, v, p, site: iter([(p, Bool(z3.Bool('value_is_object')))]), 'str': opaque_ok, '_validate_id': h_validate_id,
                           'get_type_from_id': h_gt, 'is_object': h_is_object, 'is_stix_type': h_is_stix_type, 'set': opaque_ok},
                 comprehensions={'*': lambda x, e, p: iter([(p, Val('opaque', x='generator'))])},
                 note='custom-flag formula and strict refusal only; the white/black-list type test is covered by the bounded check')
    return c


# ------------------------------------------------------------------ ExtensionsProperty.clean: strict refusal and custom flag over all extension entries
EXT_KEY = z3.Function('ext.key', z3.IntSort(), S)
NEXT = z3.Int('n_extensions')
EXT_REG = z3.Function('class_for_type(key).registered', z3.IntSort(), z3.BoolSort())
EXT_IS_DICT = z3.Function('isinstance(subvalue, dict)', z3.IntSort(), z3.BoolSort())
EXT_IS_INST = z3.Function('isinstance(subvalue, cls)', z3.IntSort(), z3.BoolSort())
EXT_HC = z3.Function('ext.has_custom', z3.IntSort(), z3.BoolSort())
EXTDEF = z3.StringVal('extension-definition--')


def ext_custom(j):
    """entry j carries custom content: a registered extension whose object says so, or an unregistered name that is not an extension-definition id"""
    return z3.If(EXT_REG(j), EXT_HC(j), z3.Not(z3.PrefixOf(EXTDEF, EXT_KEY(j))))


def extensions_clean_contract():
    def h_get_dict(x, e, p, site):
        yield p.fork(), Exc('ValueError', site + ':_get_dict')
        yield p, Val('opaque', x='dictified')

    def h_deepcopy(x, e, p, site):
        for p1, vs in x.ev_seq(list(e.args), p):
            if isinstance(vs, Exc): yield p1, vs
            else: yield p1.fork(NEXT >= 0), Val('extdict', x='dictified')

    def m_items(x, recv, args, e, p, site):
        yield p, Seq(lambda i: Val('tuple', x=[Str(EXT_KEY(i)), Val('extval', i)]), NEXT)

    def h_class_for_type(x, e, p, site):
        for p1, vs in x.ev_seq(list(e.args), p):
            if isinstance(vs, Exc):
                yield p1, vs; continue
            idx = p1.ghost.get('iter_index')
            yield p1, Val('extcls', idx)

    def isinst_dict(x, v, p, site):
        if v.sort != 'extval': raise Unsupported(site + ' isinstance dict of ' + v.sort)
        yield p, Bool(EXT_IS_DICT(v.t))

    def isinst_cls(x, v, p, site):
        if v.sort != 'extval': raise Unsupported(site + ' isinstance cls of ' + v.sort)
        yield p, Bool(z3.And(EXT_IS_INST(v.t), z3.Not(EXT_IS_DICT(v.t))))        # (a dict is never an instance of a library class)

    def h_cls_ctor(x, e, p, site):
        kw = {k.arg: k.value for k in e.keywords if k.arg}
        for p1, vs in x.ev_seq(list(kw.values()), p):
            if isinstance(vs, Exc):
                yield p1, vs; continue
            named_args = dict(zip(kw, vs))
            for exn in FAMILY: yield p1.fork(), Exc(exn, site + ':constructor')
            idx = p1.ghost.get('iter_index')
            yield p1, Rec(has_custom=Bool(EXT_HC(idx)))

    def attr_has_custom(x, o, p, site): yield p, Bool(EXT_HC(o.t))

    def h_validate_id(x, e, p, site):
        for p1, vs in x.ev_seq(list(e.args), p):
            if isinstance(vs, Exc):
                yield p1, vs; continue
            yield p1.fork(), Exc('ValueError', site + ':_validate_id')
            yield p1, NONE

    def h_type(x, e, p, site): yield p, Val('opaque', x='type(subvalue)')
    def store(x, tgt, v, q): pass            # dictified[key] = ...: the output dictionary is not part of this contract

    def inv(x, env, i, it):
        j = z3.Int('j!x')
        return z3.And(env['has_custom'].t == z3.Exists([j], z3.And(0 <= j, j < i, ext_custom(j))),
                      z3.Or(env['allow_custom'].t, z3.Not(env['has_custom'].t)))

    def ens(a, r):
        j = z3.Int('j!xe')
        if r.sort != 'tuple' or len(r.x) != 2 or r.x[1].sort != 'bool': raise SortMismatch('result shape')
        anyc = z3.Exists([j], z3.And(0 <= j, j < NEXT, ext_custom(j)))
        return z3.And(r.x[1].t == anyc, z3.Implies(z3.Not(a['allow_custom'].t), z3.Not(anyc)))

    def outcomes(x, outs, add):
        for i, (kind, p, v) in enumerate(outs):
            if kind == 'raise' and v.name == 'CustomContentError' and ':constructor' not in v.site:
                add(f'CustomContentError raised here only with customisation disallowed @path{i}', p.pc, z3.Not(x.params['allow_custom'].t), p.exact and v.exact)
    return Contract(f'{PR}::ExtensionsProperty.clean', props=['C04', 'C02'],
                    params={'self': Rec(spec_version=Str(z3.String('self.spec_version'))), 'value': 'opaque', 'allow_custom': 'bool', 'interoperability': 'bool'},
                    ensures=[('has_custom <=> some entry carries custom content (registered: the extension object says so -- whether it was built here or handed in ready-made; '
                              'unregistered: any name that is not an extension-definition id); strict mode => no entry does', ens)],
                    raises=dict(FAMILY), on_outcomes=outcomes,
                    handlers={'_get_dict': h_get_dict, 'copy.deepcopy': h_deepcopy, 'class_for_type': h_class_for_type, 'isinstance:dict': isinst_dict, 'isinstance:cls': isinst_cls,
                              'cls': h_cls_ctor, '_validate_id': h_validate_id, 'type': h_type},
                    registry_ext={'methods': {('.items', 'extdict'): m_items}, 'attrs': {('extval', 'has_custom'): attr_has_custom}},
                    truthy_handlers={'extcls': lambda x, v: EXT_REG(v.t)},
                    store_handler=store, loops={0: {'kind': 'inv', 'inv': inv}},
                    assumptions=['callee contracts used: class_for_type (registry lookup), the extension class constructor (may refuse with a library error; its result reports has_custom), _validate_id (may raise ValueError)'],
                    note='a ready-made extension object is subject to the same strict check and contributes to the flag like one built from a dictionary')


# ------------------------------------------------------------------ ObservableProperty.clean (observed-data `objects`)
NOBS = z3.Int('len(objects)')
OBS_KEY = z3.Function('objects.key', z3.IntSort(), S)
OBS_IS_OBJ = z3.Function('parse_observable(member).is_library_object', z3.IntSort(), z3.BoolSort())
OBS_HC = z3.Function('parse_observable(member).has_custom', z3.IntSort(), z3.BoolSort())
OBS_TYPE = z3.Function('parse_observable(member)[type]', z3.IntSort(), S)


def obs_custom(j):
    """member j is custom content: a library object that says so, or a dictionary (what parse_observable returns for an unregistered type)"""
    return z3.If(OBS_IS_OBJ(j), OBS_HC(j), z3.BoolVal(True))


def observable_clean_contract():
    SCOPE_TEXT = "{k: v['type'] for k, v in dictified.items()}"

    def h_get_dict(x, e, p, site):
        yield p.fork(), Exc('ValueError', site + ':_get_dict')
        yield p, Val('opaque', x='dictified')

    def h_deepcopy(x, e, p, site):
        for p1, vs in x.ev_seq(list(e.args), p):
            if isinstance(vs, Exc): yield p1, vs
            else: yield p1.fork(NOBS >= 0), Val('obsdict', x='dictified')

    def cmp_empty(x, op, a, b, p, site):
        if not (b.sort == 'litdict' and not b.x and isinstance(op, (ast.Eq, ast.NotEq))): raise Unsupported(site + ' comparison of the objects dictionary')
        yield p, Bool(NOBS == 0 if isinstance(op, ast.Eq) else NOBS != 0)

    def scope_map(x, e, p, site=None):
        # the reference scope of the members: key -> type of every member of *this* dictionary (recognised by its text; any other spelling is unsupported => undecided)
        if 'dictified' not in p.env or p.env['dictified'].sort != 'obsdict': raise Unsupported('scope map over something that is not the copied objects dictionary')
        yield p, Val('obsscope', x='key -> type of every member')

    def m_items(x, recv, args, e, p, site):
        yield p, Seq(lambda i: Val('tuple', x=[Str(OBS_KEY(i)), Val('obsmember', i)]), NOBS)

    def h_parse_observable(x, e, p, site):
        pos = list(e.args); kw = {k.arg: k.value for k in e.keywords if k.arg}
        for p1, vs in x.ev_seq(pos + list(kw.values()), p):
            if isinstance(vs, Exc):
                yield p1, vs; continue
            bound = dict(zip(['data', '_valid_refs', 'allow_custom', 'version'], vs[:len(pos)])); bound.update(zip(kw, vs[len(pos):]))
            idx = p1.ghost.get('iter_index')
            d = bound.get('data')
            x.oblige('parse_observable receives the member of this iteration', p1.pc, z3.BoolVal(d is not None and d.sort == 'obsmember' and z3.eq(d.t, idx)), p1.exact, 'call-requires')
            x.oblige('parse_observable receives the key -> type map of this dictionary as reference scope', p1.pc, z3.BoolVal(bound.get('_valid_refs') is not None and bound['_valid_refs'].sort == 'obsscope'), p1.exact, 'call-requires')
            x.oblige('parse_observable receives the property\'s spec version', p1.pc, z3.BoolVal(bound.get('version') is x.params['self'].x['spec_version']), p1.exact, 'call-requires')
            for exn in FAMILY: yield p1.fork(), Exc(exn, site + ':parse_observable')
            yield p1, Val('obsparsed', idx)

    def isinst_base(x, v, p, site):
        if v.sort != 'obsparsed': raise Unsupported(site + ' isinstance _STIXBase of ' + v.sort)
        yield p, Bool(OBS_IS_OBJ(v.t))

    def attr_has_custom(x, o, p, site): yield p, Bool(OBS_HC(o.t))
    def sub_type(x, o, k, p, site):
        if not (k.sort == 'str' and z3.is_string_value(k.t) and k.t.as_string() == 'type'): raise Unsupported(site + ' subscript of a parsed member')
        yield p, Str(OBS_TYPE(o.t))

    def store(x, tgt, v, q): pass            # dictified[key] = parsed_obj: the output dictionary is not part of this contract

    def inv(x, env, i, it):
        j = z3.Int('j!o')
        return z3.And(env['has_custom'].t == z3.Exists([j], z3.And(0 <= j, j < i, obs_custom(j))),
                      z3.Or(env['allow_custom'].t, z3.Not(env['has_custom'].t)))

    def ens(a, r):
        j = z3.Int('j!oe')
        if r.sort != 'tuple' or len(r.x) != 2 or r.x[1].sort != 'bool': raise SortMismatch('result shape')
        anyc = z3.Exists([j], z3.And(0 <= j, j < NOBS, obs_custom(j)))
        return z3.And(NOBS > 0, r.x[1].t == anyc, z3.Implies(z3.Not(a['allow_custom'].t), z3.Not(anyc)))

    def outcomes(x, outs, add):
        for i, (kind, p, v) in enumerate(outs):
            if kind == 'raise' and v.name == 'CustomContentError' and ':parse_observable' not in v.site:
                add(f'CustomContentError raised here only with customisation disallowed @path{i}', p.pc, z3.Not(x.params['allow_custom'].t), p.exact and v.exact)
    def call(py):
        import stix2.properties as P, copy as _c
        r = P.ObservableProperty(spec_version=py['spec_version']).clean(_c.deepcopy(py['value']), py['allow_custom'])
        if py['spec_version'] == '2.0':        # what the cleaned members are for: the enclosing observed-data is written and read back under every key order
            import stix2
            py['_round_trip'] = None
            try:
                od = stix2.v20.ObservedData(objects=_c.deepcopy(py['value']), first_observed='2020-01-01T00:00:00Z', last_observed='2020-01-01T00:00:00Z', number_observed=1, allow_custom=py['allow_custom'])
                for opts in ({}, {'pretty': True}, {'sort_keys': True}):
                    if stix2.parse(od.serialize(**opts), allow_custom=py['allow_custom']) != od: py['_round_trip'] = f'parse(serialize({opts})) differs'
            except Exception as ex: py['_round_trip'] = f'{type(ex).__name__}: {ex}'
        return r

    def search():
        f = {'type': 'file', 'name': 'f'}; fc = {'type': 'file', 'name': 'g', 'x_vf': 1}; xo = {'type': 'x-vf-unregistered', 'a': 1}
        shapes = [('empty', {}, None), ('one member', {'0': f}, False), ('custom property on the first of two', {'0': fc, '1': f}, True), ('custom property on the last of two', {'0': f, '1': fc}, True),
                  ('unregistered type', {'0': f, '1': xo}, True), ('unregistered type first', {'a': xo, 'b': f}, True),
                  ('member referring to a later key', {'1': {'type': 'directory', 'path': '/x'}, '0': {'type': 'file', 'name': 'f', 'parent_directory_ref': '1'}}, False),
                  ('twelve members', dict({str(i): {'type': 'ipv4-addr', 'value': f'10.0.0.{i}'} for i in range(2, 12)}, **{'12': {'type': 'network-traffic', 'protocols': ['tcp'], 'src_ref': '2', 'dst_ref': '11'}}), False)]
        for ver in ('2.0', '2.1'):
            for name, v, custom in shapes:
                if ver == '2.1' and name in ('member referring to a later key', 'twelve members'): continue        # references by key are the STIX 2.0 form
                for ac in (False, True): yield {'value': v, 'allow_custom': ac, 'spec_version': ver, 'shape': name, 'custom': custom}

    def judge(py, outcome, ob):
        kind, val = outcome; bad = []
        what = f"{py['shape']} ({py['spec_version']}, allow_custom={py['allow_custom']})"
        if py['custom'] is None: return [] if kind == 'raise' and isinstance(val, ValueError) else [f'empty dictionary not refused with ValueError: {what}']
        if py['custom'] and not py['allow_custom']:
            return [] if kind == 'raise' else [f'custom member accepted in strict mode: {what}']
        if kind == 'raise': return [f'valid members refused: {what}: {type(val).__name__}: {val}']
        members, flag = val
        if py.get('_round_trip'): bad.append(f'the observed-data holding these members does not survive a round trip: {py["_round_trip"]}: {what}')
        if flag != py['custom']: bad.append(f'has_custom={flag}, expected {py["custom"]}: {what}')
        for k, m in members.items():
            mod = type(m).__module__
            if mod.startswith('stix2.') and ('v20' if py['spec_version'] == '2.0' else 'v21') not in mod: bad.append(f'member {k} built as {mod}.{type(m).__name__}: {what}')
        return bad
    rp = Replay(call=call, judge=judge); rp.search = search
    return Contract(f'{PR}::ObservableProperty.clean', props=['C04', 'C01', 'C02'], replay=rp,
                    params={'self': Rec(spec_version=Str(z3.String('self.spec_version'))), 'value': 'opaque', 'allow_custom': 'bool'},
                    ensures=[('non-empty; has_custom <=> some member is custom content (a library object that says so, or a dictionary kept for an unregistered type); strict mode => none is', ens)],
                    raises=dict(FAMILY), on_outcomes=outcomes,
                    handlers={'_get_dict': h_get_dict, 'copy.deepcopy': h_deepcopy, 'parse_observable': h_parse_observable, 'isinstance:_STIXBase': isinst_base},
                    expr_hooks={SCOPE_TEXT: scope_map},
                    registry_ext={'methods': {('.items', 'obsdict'): m_items}, 'attrs': {('obsparsed', 'has_custom'): attr_has_custom},
                                  'compare': {('obsdict', 'litdict'): cmp_empty}, 'subscript': {('obsparsed', 'str'): sub_type}},
                    store_handler=store, loops={0: {'kind': 'inv', 'inv': inv}},
                    assumptions=['callee contract used: parse_observable (may refuse with a library error; returns a library object reporting has_custom, or a dictionary for an unregistered type)',
                                 'the reference scope is recognised by its source text ' + SCOPE_TEXT + '; any other spelling leaves the contract undecided'],
                    note='every member is parsed with the key -> type map of the whole dictionary as its reference scope, the caller\'s switch and the property\'s version')


# ------------------------------------------------------------------ EnumProperty / HexProperty / DictionaryProperty / FloatProperty .clean
def enum_clean_contract():
    allowed = z3.Const('self.allowed', SetS); cleaned = z3.String('StringProperty.clean(value)')

    def h_super_clean(x, e, p, site): yield p, Val('tuple', x=[Str(cleaned), Val('opaque', x='_')])

    def ens(a, r):
        if r.sort != 'tuple' or len(r.x) != 2 or r.x[0].sort != 'str' or r.x[1].sort != 'bool': raise SortMismatch('result shape')
        return z3.And(r.x[0].t == cleaned, allowed[cleaned], z3.Not(r.x[1].t))
    return Contract(f'{PR}::EnumProperty.clean', props=['C02', 'C03'],
                    params={'self': Rec(allowed=SetV(allowed)), 'value': 'opaque', 'allow_custom': 'bool', 'interoperability': 'bool'},
                    ensures=[('returns the string form unchanged, a member of the enumeration, never custom', ens)],
                    raises={'ValueError': lambda a: z3.Not(allowed[cleaned])},
                    handlers={'super(EnumProperty, self).clean': h_super_clean, 'super().clean': h_super_clean},
                    assumptions=['callee contract used: StringProperty.clean returns the string form of the value (str(v); identity on strings)', 'self.allowed is abstracted to its element set'],
                    note='iff: accepted exactly when the string form is in the enumeration')


def hex_clean_contract():
    from vf.pyvc import rx
    v = z3.String('value')
    L = rx.match_language(r"^([a-fA-F0-9]{2})+\Z", 0)
    spec = z3.InRe(v, z3.Plus(z3.Concat(*[z3.Union(z3.Range('a', 'f'), z3.Range('A', 'F'), z3.Range('0', '9'))] * 2)))

    def ens(a, r):
        if r.sort != 'tuple' or len(r.x) != 2 or r.x[0].sort != 'str' or r.x[1].sort != 'bool': raise SortMismatch('result shape')
        return z3.And(r.x[0].t == v, spec, z3.Not(r.x[1].t))
    return Contract(f'{PR}::HexProperty.clean', props=['C02', 'C03'], params={'self': 'opaque', 'value': Str(v), 'allow_custom': 'bool'},
                    ensures=[('returns the string unchanged: a non-empty even number of hexadecimal digits, never custom', ens)],
                    raises={'ValueError': lambda a: z3.Not(spec)},
                    note='iff: accepted exactly when the value is ([0-9a-fA-F]{2})+ (no trailing newline)')


DKEY = z3.Function('dict.key', z3.IntSort(), S)
NDK = z3.Int('n_dict_keys')


def dictionary_clean_contract():
    ver = z3.String('self.spec_version')
    from vf.pyvc import rx
    KEYLANG = rx.match_language(r"^[a-zA-Z0-9_-]+\Z", 0)          # the specification's key alphabet, written here (not read from the code)

    def ok(k):
        n = z3.Length(k)
        return z3.And(z3.InRe(k, KEYLANG), z3.If(ver == z3.StringVal('2.0'), z3.And(n >= 3, n <= 256), z3.If(ver == z3.StringVal('2.1'), n <= 250, z3.BoolVal(True))))

    def h_get_dict(x, e, p, site):
        yield p.fork(), Exc('ValueError', site + ':_get_dict')
        yield p.fork(NDK >= 0), Val('dictv', x='dictified')

    def m_keys(x, recv, args, e, p, site): yield p, Seq(lambda i: Str(DKEY(i)), NDK)

    def h_len(x, e, p, site):
        for p1, vs in x.ev_seq(list(e.args), p):
            if isinstance(vs, Exc): yield p1, vs
            elif vs[0].sort == 'dictv': yield p1, Int(NDK)
            elif vs[0].sort == 'str': yield p1, Int(z3.Length(vs[0].t))
            else: raise Unsupported(site + ' len of ' + vs[0].sort)

    def ens(a, r):
        if r.sort != 'tuple' or len(r.x) != 2 or r.x[1].sort != 'bool': raise SortMismatch('result shape')
        return z3.And(NDK >= 1, z3.Not(r.x[1].t))

    def outcomes(x, outs, add):
        # iteration-local statements (quantifier-free): an arbitrary iteration falls through only for a key that satisfies the rule, and raises DictionaryKeyError only for
        # one that breaks it; by the loop rule every key of a normally returned dictionary satisfies the rule
        for n, (r, _) in enumerate(x.iteration_outcomes.get(0, [])):
            add(f'an iteration completes only for a key that satisfies the rule of the property\'s spec version @iteration-path{n}', r.pc, ok(DKEY(r.ghost['iter_index'])), r.exact)
        for i, (kind, p, v) in enumerate(outs):
            if kind == 'raise' and v.name == 'DictionaryKeyError':
                add(f'DictionaryKeyError only for a key that breaks the rule of the property\'s spec version @path{i}', p.pc, z3.Not(ok(DKEY(p.ghost['iter_index']))), p.exact and v.exact)
            if kind == 'raise' and v.name == 'ValueError' and ':_get_dict' not in v.site and 'handling' not in p.ghost:
                add(f'ValueError (empty) only for an empty dictionary @path{i}', p.pc, NDK == 0, p.exact and v.exact)
    return Contract(f'{PR}::DictionaryProperty.clean', props=['C02', 'C03'],
                    params={'self': Rec(spec_version=Str(ver)), 'value': 'opaque', 'allow_custom': 'bool', 'interoperability': 'bool'},
                    ensures=[('normal return => non-empty, never custom (the key rule is stated per iteration)', ens)],
                    raises={'ValueError': None, 'DictionaryKeyError': None}, on_outcomes=outcomes,
                    handlers={'_get_dict': h_get_dict, 'len': h_len}, registry_ext={'methods': {('.keys', 'dictv'): m_keys}},
                    assumptions=['callee contract used: _get_dict returns a dictionary or raises ValueError; keys are strings (JSON member names)',
                                 'loop rule (meta-argument, not an obligation): the body is iteration-local, so what holds for an arbitrary completed iteration holds for every key'],
                    note='key rules per spec version ([a-zA-Z0-9_-]+; 2.0: 3..256 characters, 2.1: at most 250); errors only for their stated reasons')


def float_clean_contract():
    mn_none, mx_none = z3.Bool('self.min.isnone'), z3.Bool('self.max.isnone')
    mn, mx, f = z3.Real('self.min'), z3.Real('self.max'), z3.Real('float(value)')
    CONV = z3.Bool('float(value) succeeds')

    def h_float(x, e, p, site):
        q = p.fork(z3.Not(CONV))
        yield q, Exc('ValueError', site + ':float')          # (any exception: the code catches Exception)
        yield p.fork(CONV), Val('real', f)
    inrange = z3.And(z3.Or(mn_none, f >= mn), z3.Or(mx_none, f <= mx))

    def ens(a, r):
        if r.sort != 'tuple' or len(r.x) != 2 or r.x[0].sort != 'real' or r.x[1].sort != 'bool': raise SortMismatch('result shape')
        return z3.And(CONV, r.x[0].t == f, inrange, z3.Not(r.x[1].t))
    return Contract(f'{PR}::FloatProperty.clean', props=['C02', 'C03'],
                    params={'self': Rec(min=Val('opt:real', (mn_none, Val('real', mn))), max=Val('opt:real', (mx_none, Val('real', mx)))), 'value': 'opaque', 'allow_custom': 'bool'},
                    ensures=[('returns float(value), inside [min, max], never custom', ens)],
                    raises={'ValueError': lambda a: z3.Not(z3.And(CONV, inrange))}, handlers={'float': h_float},
                    assumptions=['A: finite floats are treated as reals (comparisons on NaN are outside the contract); float(v) returns a float or raises'],
                    note='iff: accepted exactly when convertible and inside the declared range (boundaries included)')
