"""C02 / C03 / C04: contracts for property cleaners and co-constraint overrides (stix2/properties.py, v21/*.py)."""
import ast
import z3
from vf.pyvc import engine as E
from vf.pyvc.engine import Val, Exc, Unsupported, NONE, Int, Bool, Str, Rec, Opt, SetV, Seq, S, SetS, sat
from vf.pyvc.contract import Contract, expect, SortMismatch
from vf.pyvc.lib import mk_map
from vf.check import Replay
from vf.pyvc import rx
from spec import lexical as SP

PR = 'stix2/properties.py'
FAMILY = {'STIXError': None, 'ValueError': None, 'TypeError': None}


# ------------------------------------------------------------------ _validate_type: returns <=> spec-valid
def validate_type_contract():
    def valid(a):
        t = a['type_'].t; v = a['spec_version'].t
        lang = z3.If(v == z3.StringVal('2.0'), z3.InRe(t, SP.TYPE_20), z3.InRe(t, SP.TYPE_21))
        return z3.And(lang, z3.Length(t) >= 3, z3.Length(t) <= 250)

    def call(py):
        import stix2.properties as P
        return P._validate_type(py['type_'], py['spec_version'])
    return Contract(f'{PR}::_validate_type', props=['C02', 'C03', 'C19'],
                    params={'type_': 'str', 'spec_version': 'str'},
                    requires=[('a known spec version', lambda a: z3.Or(a['spec_version'].t == z3.StringVal('2.0'), a['spec_version'].t == z3.StringVal('2.1')))],
                    ensures=[('accepted type names are specification-valid', lambda a, r: valid(a))],
                    raises={'ValueError': lambda a: z3.Not(valid(a))},
                    replay=Replay(call=call), note='iff: accepted <=> in the specification language for the version and 3..250 long')


# ------------------------------------------------------------------ IntegerProperty.clean
def integer_clean_contract():
    mn, mx = E.named('opt:int', 'self.min'), E.named('opt:int', 'self.max')
    value = Val('int', z3.Int('value'))          # an int, or anything int() maps to an int (A)

    def inrange(n): return z3.And(z3.Or(mn.t[0], n >= mn.t[1].t), z3.Or(mx.t[0], n <= mx.t[1].t))

    def ens(a, r):
        if r.sort != 'tuple' or len(r.x) != 2 or r.x[0].sort != 'int' or r.x[1].sort != 'bool': raise SortMismatch('result shape')
        return z3.And(inrange(r.x[0].t), r.x[0].t == value.t, z3.Not(r.x[1].t))
    return Contract(f'{PR}::IntegerProperty.clean', props=['C02', 'C03'],
                    params={'self': Rec(min=mn, max=mx), 'value': value, 'allow_custom': 'bool', 'interoperability': 'bool'},
                    ensures=[('returns the integer unchanged, inside [min, max], never custom', ens)],
                    raises={'ValueError': lambda a: z3.Not(inrange(value.t))},
                    assumptions=['A: int(v) returns an int or raises; for an int argument it is the identity'],
                    note='iff: an integer is accepted exactly when it lies in the declared range (boundaries included)')


# ------------------------------------------------------------------ timestamp-order co-constraints
ORDER_TABLE = [   # (file, class, earlier, later, strict) -- from the specification text of each type
    ('stix2/v21/sdo.py', 'Campaign', 'first_seen', 'last_seen', False), ('stix2/v21/sdo.py', 'Indicator', 'valid_from', 'valid_until', True),
    ('stix2/v21/sdo.py', 'Infrastructure', 'first_seen', 'last_seen', False), ('stix2/v21/sdo.py', 'IntrusionSet', 'first_seen', 'last_seen', False),
    ('stix2/v21/sdo.py', 'Malware', 'first_seen', 'last_seen', False, ('is_family',)), ('stix2/v21/sdo.py', 'ObservedData', 'first_observed', 'last_observed', False),
    ('stix2/v21/sdo.py', 'ThreatActor', 'first_seen', 'last_seen', False),
    ('stix2/v21/sro.py', 'Relationship', 'start_time', 'stop_time', True), ('stix2/v21/sro.py', 'Sighting', 'first_seen', 'last_seen', False),
    ('stix2/v21/observables.py', 'NetworkTraffic', 'start', 'end', False, (), True),
]


def order_contract(relpath, cls, earlier, later, strict, required=(), other_value_errors=False):
    me = mk_map('self', {earlier: 'dt', later: 'dt', 'is_family': 'bool', 'name': 'str', 'pattern_type': 'str', 'is_active': 'bool'}, open_keys=True)
    pe, pl = me.x['present'](earlier), me.x['present'](later)
    ve, vl = me.x['value'](earlier).t, me.x['value'](later).t
    ok = (vl > ve) if strict else (vl >= ve)

    def h_super(x, e, p, site):
        yield p, Val('opaque', x='super()')

    def m_base_constraints(x, e, p, site):
        for exn in FAMILY: yield p.fork(), Exc(exn, site + ':base-class')
        yield p, NONE

    def outcomes(x, outs, add):
        for i, (kind, p, v) in enumerate(outs):
            if kind == 'return':
                add(f'normal return => {later} {">" if strict else ">="} {earlier} when both are present @path{i}', p.pc, z3.Implies(z3.And(pe, pl), ok), p.exact)
            elif kind == 'raise' and v.name == 'ValueError' and ':raise' in v.site and not other_value_errors:
                add(f'ValueError raised here only when the order constraint is violated @path{i}', p.pc, z3.And(pe, pl, z3.Not(ok)), p.exact and v.exact)
    return Contract(f'{relpath}::{cls}._check_object_constraints', props=['C02', 'C03'],
                    params={'self': me}, raises=dict(FAMILY), ignore_unknown_exceptions=True,
                    requires=[('required properties are present (established by the constructor before constraints run)', lambda a: z3.And(*[me.x['present'](r) for r in required]) if required else z3.BoolVal(True))],
                    registry_ext={'attrs': {('map', '__class__'): lambda x, o, p, site: iter([(p, Val('opaque', x='cls'))])}},
                    handlers={'super': h_super, f'super({cls}, self)._check_object_constraints': m_base_constraints, 'super()._check_object_constraints': m_base_constraints},
                    on_outcomes=outcomes,
                    note=f'{cls}: {later} {"strictly later than" if strict else "not earlier than"} {earlier}')


# ------------------------------------------------------------------ HashesProperty.clean: custom flag accumulation
KEY = z3.Function('hash.key', z3.IntSort(), S)
NKEYS = z3.Int('n_hashes')
HAS_ALG = z3.Function('infer_hash_algorithm.recognised', S, z3.BoolSort())
ALG_IN_SPEC = z3.Function('algorithm.has_spec_name', S, z3.BoolSort())
SPEC_NAME_OF = z3.Function('algorithm.spec_name', S, S)
SPEC_NAMES = z3.Const('spec_hash_names', SetS)
CHECK_OK = z3.Function('check_hash.ok', z3.IntSort(), z3.BoolSort())


def custom_entry(j):
    k = KEY(j)
    return z3.If(HAS_ALG(k), z3.Not(ALG_IN_SPEC(k)), z3.Not(SPEC_NAMES[k]))


def hashes_clean_contract():
    def h_super_clean(x, e, p, site):
        for exn in FAMILY: yield p.fork(), Exc(exn, site + ':DictionaryProperty.clean')
        yield p.fork(NKEYS >= 0), Val('tuple', x=[Val('hashdict', x='clean_dict'), Val('opaque', x='_')])

    def m_items(x, recv, args, e, p, site):
        yield p, Seq(lambda i: Val('tuple', x=[Str(KEY(i)), Val('hashval', i)]), NKEYS)

    def h_infer(x, e, p, site):
        for p1, vs in x.ev_seq(list(e.args), p):
            if isinstance(vs, Exc): yield p1, vs
            else: yield p1, Opt(z3.Not(HAS_ALG(vs[0].t)), Val('alg', vs[0].t))

    def h_check_hash(x, e, p, site):
        for p1, vs in x.ev_seq(list(e.args), p):
            if isinstance(vs, Exc): yield p1, vs
            else: yield p1, Bool(z3.FreshConst(z3.BoolSort(), 'check_hash'))

    def m_specname_get(x, recv, args, e, p, site):
        a = args[0]
        if a.sort == 'opt:alg': a = a.t[1]          # on this path the algorithm was recognised (truthy test passed)
        if a.sort != 'alg': raise Unsupported(site)
        yield p, Opt(z3.Not(ALG_IN_SPEC(a.t)), Str(SPEC_NAME_OF(a.t)))

    def store(x, tgt, v, q): pass      # spec_dict[spec_name] = hash_v : the output dictionary is not part of this contract

    def inv(x, env, i, it):
        j = z3.Int('j!h')
        return z3.And(env['has_custom'].t == z3.Exists([j], z3.And(0 <= j, j < i, custom_entry(j))),
                      z3.Or(env['allow_custom'].t, z3.Not(env['has_custom'].t)))      # strict mode never gets past a custom entry

    def ens(a, r):
        j = z3.Int('j!he')
        if r.sort != 'tuple' or len(r.x) != 2 or r.x[1].sort != 'bool': raise SortMismatch('result shape')
        anyc = z3.Exists([j], z3.And(0 <= j, j < NKEYS, custom_entry(j)))
        return z3.And(r.x[1].t == anyc, z3.Implies(z3.Not(a['allow_custom'].t), z3.Not(anyc)))
    me = Rec(**{'__spec_hash_names': SetV(SPEC_NAMES), '__alg_to_spec_name': Val('specnamemap', x='m')})
    return Contract(f'{PR}::HashesProperty.clean', props=['C04', 'C02'],
                    params={'self': me, 'value': 'opaque', 'allow_custom': 'bool', 'interoperability': 'bool'},
                    requires=[('specification hash names are non-empty strings', lambda a: z3.ForAll([z3.String('k!r')], z3.Length(SPEC_NAME_OF(z3.String('k!r'))) > 0))],
                    ensures=[('has_custom <=> some entry names a non-specification algorithm; strict mode => none does', ens)],
                    raises=dict(FAMILY),
                    handlers={'super().clean': h_super_clean, 'stix2.hashes.infer_hash_algorithm': h_infer, 'stix2.hashes.check_hash': h_check_hash},
                    registry_ext={'methods': {('.items', 'hashdict'): m_items, ('.get', 'specnamemap'): m_specname_get}},
                    expr_hooks={'{}': lambda x, e, p: iter([(p, Val('opaque', x='spec_dict'))])},
                    store_handler=store, loops={0: {'kind': 'inv', 'inv': inv}}, truthy_handlers={'alg': lambda x, v: z3.BoolVal(True)},
                    note='the custom flag is the OR over all entries (prefix invariant): a later specification entry cannot reset it')


# ------------------------------------------------------------------ ListProperty.clean: custom flag accumulation, non-empty, strict refusal
ITEM_CUSTOM = z3.Function('item.custom', z3.IntSort(), z3.BoolSort())
NITEMS = z3.Int('n_items')


def list_clean_contract():
    IS_PROP = z3.Bool('isinstance(self.contained, Property)')
    IS_SINGLE = z3.Bool('isinstance(value, (_STIXBase, str))')

    def h_iter(x, e, p, site):
        yield p.fork(), Exc('TypeError', site)
        yield p, Val('opaque', x='iterator')

    def isinst(b):
        def h(x, v, p, site): yield p, Bool(b)
        return h

    def h_isinstance_item(x, v, p, site):
        yield p, Bool(z3.FreshConst(z3.BoolSort(), 'isinst_item'))

    def m_contained_clean(x, e, p, site):
        for p1, vs in x.ev_seq(list(e.args), p):
            if isinstance(vs, Exc):
                yield p1, vs; continue
            for exn in FAMILY: yield p1.fork(), Exc(exn, site + ':contained.clean')
            item = vs[0]
            idx = item.x if item.sort == 'item' else None
            c = ITEM_CUSTOM(idx) if idx is not None else z3.FreshConst(z3.BoolSort(), 'c')
            x.oblige('contained.clean receives this call\'s allow_custom', p1.pc, z3.BoolVal(vs[1] is x.params['allow_custom']), p1.exact, 'call-requires')
            yield p1, Val('tuple', x=[Val('opaque', x='valid'), Bool(c)])

    def h_contained_ctor(x, e, p, site):
        kw = {k.arg: k.value for k in e.keywords if k.arg}
        for p1, vs in x.ev_seq(list(kw.values()), p):
            if isinstance(vs, Exc):
                yield p1, vs; continue
            named_args = dict(zip(kw, vs))
            x.oblige('embedded constructor receives this call\'s allow_custom', p1.pc, z3.BoolVal(named_args.get('allow_custom') is x.params['allow_custom']), p1.exact, 'call-requires')
            for exn in FAMILY: yield p1.fork(), Exc(exn, site + ':constructor')
            idx = p1.ghost.get('iter_index')
            yield p1, Rec(has_custom=Bool(ITEM_CUSTOM(idx) if idx is not None else z3.FreshConst(z3.BoolSort(), 'c')))

    def m_append(x, recv, args, e, p, site):
        q = p.fork(); q.env['result'] = Val('lenlist', recv.t + 1)
        yield q, NONE

    def h_len(x, e, p, site):
        for p1, vs in x.ev_seq(list(e.args), p):
            if isinstance(vs, Exc): yield p1, vs
            elif vs[0].sort == 'lenlist': yield p1, Int(vs[0].t)
            else: raise Unsupported(site)

    def inv(x, env, i, it):
        j = z3.Int('j!l')
        return z3.And(env['has_custom'].t == z3.Exists([j], z3.And(0 <= j, j < i, ITEM_CUSTOM(j))), env['result'].t == i)

    def value_iter(x, it, p, site):
        yield p.fork(NITEMS >= 0), Seq(lambda i: Val('item', x=i, t=None), NITEMS)

    def attr_has_custom(x, o, p, site): yield p, Bool(ITEM_CUSTOM(o.x))

    def ens(a, r):
        j = z3.Int('j!le')
        if r.sort != 'tuple' or len(r.x) != 2 or r.x[1].sort != 'bool' or r.x[0].sort != 'lenlist': raise SortMismatch('result shape')
        n = z3.If(IS_SINGLE, 1, NITEMS)
        anyc = z3.Exists([j], z3.And(0 <= j, j < n, ITEM_CUSTOM(j)))
        return z3.And(r.x[1].t == anyc, z3.Implies(z3.Not(a['allow_custom'].t), z3.Not(anyc)), r.x[0].t == n, n >= 1)
    return Contract(f'{PR}::ListProperty.clean', props=['C04', 'C02', 'C03'],
                    params={'self': Rec(contained=Val('contained', x='c')), 'value': Val('listvalue', x='value'), 'allow_custom': 'bool', 'interoperability': 'bool'},
                    ensures=[('one cleaned element per input element, non-empty; has_custom <=> some element is custom; strict => none is', ens)],
                    raises=dict(FAMILY),
                    handlers={'iter': h_iter, 'isinstance:(_STIXBase, str)': isinst(IS_SINGLE), 'isinstance:Property': isinst(IS_PROP), 'isinstance:self.contained': h_isinstance_item,
                              'isinstance:collections.abc.Mapping': h_isinstance_item, 'self.contained.clean': m_contained_clean, 'self.contained': h_contained_ctor, 'len': h_len},
                    registry_ext={'iterables': {'listvalue': value_iter, 'single': lambda x, it, p, site: iter([(p, Seq(lambda i: Val('item', x=i), z3.IntVal(1)))])},
                                  'methods': {('.append', 'lenlist'): m_append}, 'attrs': {('item', 'has_custom'): attr_has_custom}},
                    expr_hooks={'[]': lambda x, e, p: iter([(p, Val('lenlist', z3.IntVal(0)))]), '[value]': lambda x, e, p: iter([(p, Val('single', x='[value]'))])},
                    loops={0: {'kind': 'inv', 'inv': inv}, 1: {'kind': 'inv', 'inv': inv}},
                    havoc={'result': lambda v: Val('lenlist', z3.FreshConst(z3.IntSort(), 'len'))},
                    note='both element kinds (property cleaner / embedded object class)')


# ------------------------------------------------------------------ ReferenceProperty.clean: custom flag and strict refusal
def reference_clean_contract():
    OBJ_TYPE = z3.String('obj_type'); IS_OBJECT = z3.Bool('is_object(obj_type, spec_version)')
    TYPE_OK = z3.Bool('type_ok')

    def opaque_ok(x, e, p, site):
        for p1, vs in x.ev_seq([a for a in e.args if not isinstance(a, ast.Starred)], p):
            yield p1, (vs if isinstance(vs, Exc) else Val('opaque', x=ast.unparse(e.func) + '()'))

    def h_validate_id(x, e, p, site):
        for p1, vs in x.ev_seq(list(e.args), p):
            if isinstance(vs, Exc):
                yield p1, vs; continue
            yield p1.fork(), Exc('ValueError', site + ':_validate_id')
            yield p1, NONE

    def h_gt(x, e, p, site): yield p, Str(OBJ_TYPE)
    def h_is_object(x, e, p, site): yield p, Bool(IS_OBJECT)
    def h_is_stix_type(x, e, p, site): yield p, Bool(z3.FreshConst(z3.BoolSort(), 'is_stix_type'))

    def ens(a, r):
        if r.sort != 'tuple' or len(r.x) != 2 or r.x[1].sort != 'bool': raise SortMismatch('result shape')
        custom = z3.Or(z3.Not(IS_OBJECT), z3.PrefixOf(z3.StringVal('x-'), OBJ_TYPE))
        return z3.And(r.x[1].t == custom, z3.Implies(z3.Not(a['allow_custom'].t), z3.Not(custom)))
    c = Contract(f'{PR}::ReferenceProperty.clean', props=['C04', 'C02'],
                 params={'self': 'opaque', 'value': 'opaque', 'allow_custom': 'bool', 'interoperability': 'bool'},
                 ensures=[('has_custom <=> the referenced type is not a registered object type or starts with "x-"; strict mode => not custom', ens)],
                 raises=dict(FAMILY), ignore_unknown_exceptions=True,
                 handlers={'isinstance:_STIXBase': lambda x, v, p, site: iter([(p, Bool(z3.Bool('value_is_object')))]), 'str': opaque_ok, '_validate_id': h_validate_id,
                           'get_type_from_id': h_gt, 'is_object': h_is_object, 'is_stix_type': h_is_stix_type, 'set': opaque_ok},
                 comprehensions={'*': lambda x, e, p: iter([(p, Val('opaque', x='generator'))])},
                 note='custom-flag formula and strict refusal only; the white/black-list type test is covered by the bounded check')
    return c
