"""C08 / C07: contracts for stix2/markings/utils.py selector validation and the object-level marking view."""
import ast
import z3
from vf.pyvc import engine as E
from vf.pyvc.engine import Val, Exc, Unsupported, NONE, Int, Bool, Str, Rec, Opt, SetV, Seq, S, SetS, sat
from vf.pyvc.contract import Contract, SortMismatch

MU = 'stix2/markings/utils.py'
PATH = z3.Function('iterpath.joined_path', z3.IntSort(), S)          # the i-th path iterpath yields, joined with '.'
NPATHS = z3.Int('n_paths')
SEL = z3.Function('selectors.item', z3.IntSort(), S); NSEL = z3.Int('n_selectors')
VALID = z3.Function('_validate_selector.ok', S, z3.BoolSort())


def evaluate_expression_contract():
    def h_iterpath(x, e, p, site):
        yield p.fork(NPATHS >= 0), Seq(lambda i: Val('tuple', x=[Val('pathitems', i), Val('opaque', x='value')]), NPATHS)

    def m_join(x, recv, args, e, p, site):
        a = args[0]
        if a.sort != 'pathitems': raise Unsupported(site)
        yield p, Str(PATH(a.t))

    def inv(x, env, i, it):
        j = z3.Int('j!ee')
        return z3.ForAll([j], z3.Implies(z3.And(0 <= j, j < i), PATH(j) != env['selector'].t))

    def ens(a, r):
        j = z3.Int('j!eo')
        if r.sort != 'litlist': raise SortMismatch('a list literal expected, got ' + r.sort)
        hit = z3.Exists([j], z3.And(0 <= j, j < NPATHS, PATH(j) == a['selector'].t))
        return z3.BoolVal(len(r.x) >= 1) == hit
    return Contract(f'{MU}::_evaluate_expression', props=['C08'],
                    params={'obj': 'opaque', 'selector': 'str'},
                    ensures=[('non-empty result <=> some path of the object equals the selector, whatever value is stored there', ens)],
                    raises={}, handlers={'iterpath': h_iterpath}, registry_ext={'methods': {('.join', 'str'): m_join}}, loops={0: {'kind': 'inv', 'inv': inv}},
                    assumptions=['iterpath yields exactly the paths of the object (bounded check against an independent path enumerator)'],
                    note='the stored value does not influence validity (falsy values, repeated elements)')


def validate_selector_contract():
    NRES = z3.Int('n_results')

    def h_eval(x, e, p, site): yield p.fork(NRES >= 0), Val('lenlist', NRES)
    def h_list(x, e, p, site):
        for p1, vs in x.ev_seq(list(e.args), p): yield p1, (vs if isinstance(vs, Exc) else vs[0])
    def h_len(x, e, p, site):
        for p1, vs in x.ev_seq(list(e.args), p):
            if isinstance(vs, Exc): yield p1, vs
            elif vs[0].sort == 'lenlist': yield p1, Int(vs[0].t)
            else: raise Unsupported(site)

    def ens(a, r):
        truthy = r.t if r.sort == 'bool' else z3.BoolVal(False) if r.sort == 'none' else None
        if truthy is None: raise SortMismatch('bool or None expected')
        return truthy == (NRES >= 1)
    return Contract(f'{MU}::_validate_selector', props=['C08'], params={'obj': 'opaque', 'selector': 'str'},
                    ensures=[('truthy <=> the selector matched at least one path', ens)], raises={},
                    handlers={'_evaluate_expression': h_eval, 'list': h_list, 'len': h_len})


def validate_contract():
    sels = Opt(z3.Bool('selectors.isnone'), Seq(lambda i: Str(SEL(i)), NSEL))

    def h_vs(x, e, p, site):
        for p1, vs in x.ev_seq(list(e.args), p):
            if isinstance(vs, Exc): yield p1, vs
            else: yield p1, Bool(VALID(vs[1].t))

    def inv(x, env, i, it):
        j = z3.Int('j!v')
        return z3.ForAll([j], z3.Implies(z3.And(0 <= j, j < i), VALID(SEL(j))))
    j = z3.Int('j!vr')
    bad = lambda a: z3.Or(sels.t[0], NSEL == 0, z3.Exists([j], z3.And(0 <= j, j < NSEL, z3.Not(VALID(SEL(j))))))
    return Contract(f'{MU}::validate', props=['C08', 'C03'], params={'obj': 'opaque', 'selectors': sels},
                    requires=[('length', lambda a: NSEL >= 0)],
                    raises={'InvalidSelectorError': bad}, handlers={'_validate_selector': h_vs}, loops={0: {'kind': 'inv', 'inv': inv}},
                    note='raises iff the list is empty/None or some selector addresses nothing')
