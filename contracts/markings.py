"""C08 / C07: contracts for stix2/markings/utils.py selector validation and the object-level marking view."""
import ast
import z3
from vf.pyvc import engine as E
from vf.pyvc.engine import Val, Exc, Unsupported, NONE, Int, Bool, Str, Rec, Opt, SetV, Seq, S, SetS, sat
from vf.pyvc.contract import Contract, SortMismatch

MU = 'stix2/markings/utils.py'
PATH = z3.Function('iterpath.joined_path', z3.IntSort(), S)          # the i-th path iterpath yields, joined with '.'
NPATHS = z3.Int('n_paths')
SEL = z3.Function('selectors.item', z3.IntSort(), S); NSEL = z3.Int('n_selectors')
VALID = z3.Function('_validate_selector.ok', S, z3.BoolSort())


# ---- native search family for the three selector functions (used when a contract is undecided on the current source, and to find a failing input
#      for a failed loop-invariant obligation): every path and a ring of near misses of objects chosen for the corners of the path tree
def _paths(d, prefix=''):
    """independent enumerator: mappings by key, sequences by .[i], nothing below a scalar"""
    import collections.abc as abc
    for k in d:
        v = d[k]; p = f'{prefix}{k}'
        yield p
        if isinstance(v, abc.Mapping): yield from _paths(v, p + '.')
        elif isinstance(v, (list, tuple)):
            for i, e in enumerate(v):
                yield f'{p}.[{i}]'
                if isinstance(e, abc.Mapping): yield from _paths(e, f'{p}.[{i}].')


def selector_family():
    import stix2
    d = {'type': 'x-vf-shape', 'id': 'x-vf-shape--00000000-0000-4000-8000-000000000001', 'name': 'n', 'description': '', 'revoked': False, 'confidence': 0, 'score': 0.0, 'nothing': None,
         'labels': [f'l{i}' for i in range(12)], 'ext': {'a': 1, 'b': {'c': [1, {'d': False}, []]}}, 'ext-more': {'x': ''}, 'e': {'k': {'z': None}}, 'pattern': 'p', 'pattern_type': 't',
         'empty_list': [], 'empty_dict': {}, 'external_references': [{'source_name': 's'}, {'source_name': 't', 'url': ''}]}
    ident = stix2.v21.Identity(name='n', description='', confidence=0, labels=[f'l{i}' for i in range(12)], external_references=[{'source_name': 's', 'external_id': 'e'}, {'source_name': 't', 'url': 'http://x', 'description': ''}])
    lang = stix2.v21.LanguageContent(object_ref=ident.id, object_modified=ident.modified, contents={'en': {'name': 'a'}, 'en-us': {'name': 'b', 'description': ''}})
    for name, o in (('dictionary', d), ('identity', ident), ('language-content', lang)):
        valid = {p for p in _paths(o) if not p.startswith('granular_markings')}
        near = set()
        for p in valid:
            near.update({p + '.x', p + '.[0]', p + 'x', p[:-1], p.replace('.[1]', '.[99]'), p.replace('.[11]', '.[12]'), p.rsplit('.', 1)[0] + '.zz' if '.' in p else 'zz'})
        near = {q for q in near if q and q not in valid and not q.startswith('granular_markings')}
        yield name, o, sorted(valid), sorted(near)


def _selector_search():
    for name, o, valid, near in selector_family():
        for sel in valid: yield {'obj': o, 'selector': sel, '_shape': name, '_valid': True}
        for sel in near: yield {'obj': o, 'selector': sel, '_shape': name, '_valid': False}


def _selector_replay(fn, truthy):
    from vf.check import Replay

    def call(py):
        import stix2.markings.utils as U
        return getattr(U, fn)(py['obj'], py['selector'])

    def judge(py, outcome, ob):
        kind, val = outcome
        if kind == 'raise': return [f'{fn}({py["_shape"]}, {py["selector"]!r}) raised {type(val).__name__}: {val}']
        if truthy(val) != py['_valid']:
            return [f'{fn}({py["_shape"]}, {py["selector"]!r}) -> {val!r}, but the selector ' + ('addresses an existing path' if py['_valid'] else 'addresses nothing')]
        return []
    rp = Replay(call=call, judge=judge); rp.search = _selector_search
    return rp


def _validate_replay():
    from vf.check import Replay

    def call(py):
        import stix2.markings.utils as U
        return U.validate(py['obj'], py['selectors'])

    def search():
        for name, o, valid, near in selector_family():
            yield {'obj': o, 'selectors': None, '_shape': name, '_bad': True}; yield {'obj': o, 'selectors': [], '_shape': name, '_bad': True}
            for i, v in enumerate(valid):
                yield {'obj': o, 'selectors': [v], '_shape': name, '_bad': False}
                yield {'obj': o, 'selectors': [valid[0], v, valid[-1]], '_shape': name, '_bad': False}
                yield {'obj': o, 'selectors': [valid[0], v, near[i % len(near)]], '_shape': name, '_bad': True}
                yield {'obj': o, 'selectors': [near[i % len(near)], v], '_shape': name, '_bad': True}

    def judge(py, outcome, ob):
        kind, val = outcome
        refused = kind == 'raise' and type(val).__name__ == 'InvalidSelectorError'
        if kind == 'raise' and not refused: return [f'validate({py["_shape"]}, {py["selectors"]!r}) raised {type(val).__name__}: {val}']
        if refused != py['_bad']: return [f'validate({py["_shape"]}, {py["selectors"]!r}) ' + ('refused although every selector addresses an existing path' if refused else 'accepted although the list is empty or a selector addresses nothing')]
        return []
    rp = Replay(call=call, judge=judge); rp.search = search
    return rp


def evaluate_expression_contract():
    def h_iterpath(x, e, p, site):
        yield p.fork(NPATHS >= 0), Seq(lambda i: Val('tuple', x=[Val('pathitems', i), Val('opaque', x='value')]), NPATHS)

    def m_join(x, recv, args, e, p, site):
        a = args[0]
        if a.sort != 'pathitems': raise Unsupported(site)
        yield p, Str(PATH(a.t))

    def inv(x, env, i, it):
        j = z3.Int('j!ee')
        return z3.ForAll([j], z3.Implies(z3.And(0 <= j, j < i), PATH(j) != env['selector'].t))

    def ens(a, r):
        j = z3.Int('j!eo')
        if r.sort != 'litlist': raise SortMismatch('a list literal expected, got ' + r.sort)
        hit = z3.Exists([j], z3.And(0 <= j, j < NPATHS, PATH(j) == a['selector'].t))
        return z3.BoolVal(len(r.x) >= 1) == hit
    return Contract(f'{MU}::_evaluate_expression', props=['C08', 'C07', 'C03', 'C17'],
                    params={'obj': 'opaque', 'selector': 'str'},
                    ensures=[('non-empty result <=> some path of the object equals the selector, whatever value is stored there', ens)],
                    raises={}, handlers={'iterpath': h_iterpath}, registry_ext={'methods': {('.join', 'str'): m_join}}, loops={0: {'kind': 'inv', 'inv': inv}},
                    replay=_selector_replay('_evaluate_expression', lambda v: isinstance(v, list) and len(v) >= 1),
                    assumptions=['iterpath yields exactly the paths of the object (bounded check against an independent path enumerator)'],
                    note='the stored value does not influence validity (falsy values, repeated elements)')


def validate_selector_contract():
    NRES = z3.Int('n_results')

    def h_eval(x, e, p, site): yield p.fork(NRES >= 0), Val('lenlist', NRES)
    def h_list(x, e, p, site):
        for p1, vs in x.ev_seq(list(e.args), p): yield p1, (vs if isinstance(vs, Exc) else vs[0])
    def h_len(x, e, p, site):
        for p1, vs in x.ev_seq(list(e.args), p):
            if isinstance(vs, Exc): yield p1, vs
            elif vs[0].sort == 'lenlist': yield p1, Int(vs[0].t)
            else: raise Unsupported(site)

    def ens(a, r):
        truthy = r.t if r.sort == 'bool' else z3.BoolVal(False) if r.sort == 'none' else None
        if truthy is None: raise SortMismatch('bool or None expected')
        return truthy == (NRES >= 1)
    return Contract(f'{MU}::_validate_selector', props=['C08'], params={'obj': 'opaque', 'selector': 'str'},
                    ensures=[('truthy <=> the selector matched at least one path', ens)], raises={}, replay=_selector_replay('_validate_selector', bool),
                    handlers={'_evaluate_expression': h_eval, 'list': h_list, 'len': h_len})


def validate_contract():
    sels = Opt(z3.Bool('selectors.isnone'), Seq(lambda i: Str(SEL(i)), NSEL))

    def h_vs(x, e, p, site):
        for p1, vs in x.ev_seq(list(e.args), p):
            if isinstance(vs, Exc): yield p1, vs
            else: yield p1, Bool(VALID(vs[1].t))

    def inv(x, env, i, it):
        j = z3.Int('j!v')
        return z3.ForAll([j], z3.Implies(z3.And(0 <= j, j < i), VALID(SEL(j))))
    j = z3.Int('j!vr')
    bad = lambda a: z3.Or(sels.t[0], NSEL == 0, z3.Exists([j], z3.And(0 <= j, j < NSEL, z3.Not(VALID(SEL(j))))))
    return Contract(f'{MU}::validate', props=['C08', 'C03'], params={'obj': 'opaque', 'selectors': sels},
                    requires=[('length', lambda a: NSEL >= 0)],
                    raises={'InvalidSelectorError': bad}, handlers={'_validate_selector': h_vs}, loops={0: {'kind': 'inv', 'inv': inv}}, replay=_validate_replay(),
                    note='raises iff the list is empty/None or some selector addresses nothing')


# ------------------------------------------------------------------ object-level markings as set algebra (C07)
OM = 'stix2/markings/object_markings.py'
REFS = z3.Const('obj.object_marking_refs', SetS)            # the object's current object-level markings (as a set)
HAS_REFS = z3.Bool('obj.has_object_marking_refs')
MARK = z3.Const('marking(list)', SetS)                      # the marking argument after convert_to_marking_list


def _sl(t, nonempty=None): return Val('strlist', t, x={'nonempty': nonempty} if nonempty is not None else None)


def _object_marking_common():
    def m_get(x, recv, args, e, p, site):
        if not (args and args[0].sort == 'str' and z3.is_string_value(args[0].t) and args[0].t.as_string() == 'object_marking_refs'): raise Unsupported(site)
        u = z3.FreshConst(S, 'u')
        yield p, _sl(z3.Lambda([u], z3.And(HAS_REFS, REFS[u])))     # absent => the default []

    def sub_obj(x, o, k, p, site):
        q = p.fork(z3.Not(HAS_REFS))
        if sat(q.pc): yield q, Exc('KeyError', site)
        q = p.fork(HAS_REFS)
        if sat(q.pc): yield q, _sl(REFS)

    def h_convert(x, e, p, site): yield p, _sl(MARK)

    def add_lists(x, a, b, p, site):
        u = z3.FreshConst(S, 'u'); yield p, _sl(z3.Lambda([u], z3.Or(a.t[u], b.t[u])))

    def h_set_list(x, e, p, site):
        for p1, vs in x.ev_seq(list(e.args), p):
            yield p1, (vs if isinstance(vs, Exc) else vs[0])

    def contains(x, c, item, p, site): yield p, Bool(c.t[item.t])

    def truthy(x, v):
        u = z3.FreshConst(S, 'u'); return z3.Exists([u], v.t[u])

    def it_strlist(x, it, p, site):
        raise Unsupported(site + ' direct iteration of a marking list')

    def comp(x, e, p):
        """[x for x in A if x not in B] -> A - B ;  (x not in A for x in B) / (x in A for x in B) -> quantified generator"""
        (g,) = e.generators; var = g.target.id
        for p1, src in x.ev(g.iter, p):
            if isinstance(src, Exc):
                yield p1, src; continue
            if src.sort != 'strlist': raise Unsupported(x.site(e) + ' comprehension source ' + src.sort)
            def member_pred(test, u):
                # test is `var in C` / `var not in C`
                if not (isinstance(test, ast.Compare) and isinstance(test.left, ast.Name) and test.left.id == var and len(test.ops) == 1): raise Unsupported(x.site(e) + ' comprehension test')
                outs = list(x.ev(test.comparators[0], p1))
                if len(outs) != 1 or isinstance(outs[0][1], Exc): raise Unsupported(x.site(e) + ' comprehension container')
                c = outs[0][1]
                if c.sort != 'strlist': raise Unsupported(x.site(e) + ' comprehension container sort ' + c.sort)
                return c.t[u] if isinstance(test.ops[0], ast.In) else z3.Not(c.t[u])
            u = z3.FreshConst(S, 'u')
            if isinstance(e.elt, ast.Name) and e.elt.id == var:
                cond = z3.And(*[member_pred(t, u) for t in g.ifs]) if g.ifs else z3.BoolVal(True)
                yield p1, _sl(z3.Lambda([u], z3.And(src.t[u], cond)))
            elif isinstance(e.elt, ast.Compare) and not g.ifs:
                yield p1, Val('boolgen', x=(src.t, lambda uu: member_pred(e.elt, uu)))
            else: raise Unsupported(x.site(e) + ' comprehension shape')

    def h_any(x, e, p, site):
        for p1, vs in x.ev_seq(list(e.args), p):
            if isinstance(vs, Exc):
                yield p1, vs; continue
            g = vs[0]
            if g.sort != 'boolgen': raise Unsupported(site + ' any over ' + g.sort)
            u = z3.FreshConst(S, 'u'); src, pred = g.x
            yield p1, Bool(z3.Exists([u], z3.And(src[u], pred(u))))

    def h_bool(x, e, p, site):
        for p1, vs in x.ev_seq(list(e.args), p):
            yield p1, (vs if isinstance(vs, Exc) else Bool(x.truthy(vs[0])))

    def h_new_version(x, e, p, site):
        kw = {k.arg: k.value for k in e.keywords}
        for p1, vs in x.ev_seq(list(e.args) + list(kw.values()), p):
            if isinstance(vs, Exc):
                yield p1, vs; continue
            named = dict(zip(kw, vs[len(e.args):]))
            x.oblige('call(new_version): the object itself is versioned, with allow_custom=True', p1.pc,
                     z3.BoolVal(len(e.args) == 1 and vs[0] is x.params['obj'] and named.get('allow_custom') is not None and named['allow_custom'].sort == 'bool' and z3.is_true(named['allow_custom'].t)
                                and set(named) == {'object_marking_refs', 'allow_custom'}), p1.exact, 'call-requires')
            for exn in ('STIXError', 'ValueError'): yield p1.fork(), Exc(exn, site + ':new_version')
            yield p1, Val('newver', x=named['object_marking_refs'])
    return dict(params={'obj': Val('markedobj', x='obj'), 'marking': 'opaque'},
                handlers={'utils.convert_to_marking_list': h_convert, 'set': h_set_list, 'list': h_set_list, 'any': h_any, 'bool': h_bool, 'new_version': h_new_version},
                registry_ext={'methods': {('.get', 'markedobj'): m_get}, 'subscript': {('markedobj', 'str'): sub_obj}, 'binops': {('strlist', 'Add', 'strlist'): add_lists},
                              'contains': {('strlist', 'str'): contains}},
                truthy_handlers={'strlist': truthy}, comprehensions={'*': comp})


def _new_refs(r):
    """the set handed to new_version as object_marking_refs (None => the property is removed => empty set)"""
    if r.sort != 'newver': raise SortMismatch('result is not a new version: ' + r.sort)
    v = r.x
    if v.sort == 'none': return z3.K(S, False), z3.BoolVal(True)
    if v.sort == 'strlist': return v.t, z3.BoolVal(False)
    raise SortMismatch('object_marking_refs value sort ' + v.sort)


def object_add_contract():
    u = z3.String('u!oa'); cur = lambda uu: z3.And(HAS_REFS, REFS[uu])
    k = _object_marking_common()
    return Contract(f'{OM}::add_markings', props=['C07'], ensures=[('new marking set == old | added (a set: idempotent, order-independent)',
                    lambda a, r: z3.ForAll([u], _new_refs(r)[0][u] == z3.Or(cur(u), MARK[u])))], raises={'STIXError': None, 'ValueError': None}, **k)


def object_remove_contract():
    u = z3.String('u!or'); cur = lambda uu: z3.And(HAS_REFS, REFS[uu])
    k = _object_marking_common()

    def ens(a, r):
        if r.sort == 'markedobj':       # nothing marked: the object itself is returned
            return z3.Not(z3.Exists([u], cur(u)))
        new, removed = _new_refs(r)
        return z3.And(z3.ForAll([u], new[u] == z3.And(cur(u), z3.Not(MARK[u]))), z3.ForAll([u], z3.Implies(MARK[u], cur(u))))
    return Contract(f'{OM}::remove_markings', props=['C07'], ensures=[('new marking set == old - removed; every removed marking was present', ens)],
                    raises={'MarkingNotFoundError': lambda a: z3.And(z3.Exists([u], cur(u)), z3.Exists([u], z3.And(MARK[u], z3.Not(cur(u))))), 'STIXError': None, 'ValueError': None}, **k)


def object_is_marked_contract():
    u = z3.String('u!oi'); cur = lambda uu: z3.And(HAS_REFS, REFS[uu])
    k = _object_marking_common()
    return Contract(f'{OM}::is_marked', props=['C07'],
                    ensures=[('marked with M <=> M among the object markings; no marking given <=> any object marking',
                              lambda a, r: (r.t if r.sort == 'bool' else z3.BoolVal(False)) == z3.If(z3.Exists([u], MARK[u]), z3.Exists([u], z3.And(MARK[u], cur(u))), z3.Exists([u], cur(u))))],
                    raises={}, **k)


def object_clear_contract():
    k = _object_marking_common()
    k['params'] = {'obj': k['params']['obj']}
    return Contract(f'{OM}::clear_markings', props=['C07'], ensures=[('all object markings removed', lambda a, r: _new_refs(r)[1])], raises={'STIXError': None, 'ValueError': None}, **k)


# ------------------------------------------------------------------ expand_markings: the abstract view of a granular-markings list is the set of (kind, marking, selector) triples
GM_REF = z3.Function('gm.marking_ref', z3.IntSort(), E.S); GM_HASREF = z3.Function('gm.has_marking_ref', z3.IntSort(), z3.BoolSort())
GM_LANG = z3.Function('gm.lang', z3.IntSort(), E.S); GM_HASLANG = z3.Function('gm.has_lang', z3.IntSort(), z3.BoolSort())
GM_SELS = z3.Function('gm.selectors', z3.IntSort(), E.SetS); GM_N = z3.Int('n_granular_markings')
TripleSet = z3.ArraySort(z3.BoolSort(), E.S, E.S, z3.BoolSort())          # (is a marking_ref entry?, marking id / language, selector) -> member?


def expand_markings_contract():
    from vf.pyvc.lib import rebinding
    entries = E.Seq(lambda i: Val('gm', i), GM_N)
    K_, M_, S_ = z3.Bool('k!tr'), z3.String('m!tr'), z3.String('s!tr')

    def contributes(j, k, m, s):
        return z3.And(GM_SELS(j)[s], z3.If(k, z3.And(GM_HASREF(j), z3.Length(GM_REF(j)) > 0, GM_REF(j) == m), z3.And(GM_HASLANG(j), z3.Length(GM_LANG(j)) > 0, GM_LANG(j) == m)))

    def m_get(x, recv, args, e, p, site):
        if len(args) != 1 or not z3.is_string_value(args[0].t): raise Unsupported(site + ' get with a non-literal key')
        key = args[0].t.as_string(); j = recv.t
        if key == 'selectors': yield p, Val('selset', GM_SELS(j))
        elif key == 'marking_ref': yield p, E.Opt(z3.Not(GM_HASREF(j)), Str(GM_REF(j)))
        elif key == 'lang': yield p, E.Opt(z3.Not(GM_HASLANG(j)), Str(GM_LANG(j)))
        else: raise Unsupported(site + f' get({key!r})')

    def comp(kind_is_ref, name):
        def h(x, e, p):
            m = p.env[name]; sels = p.env['selectors']
            if sels.sort != 'selset': raise Unsupported('comprehension over ' + sels.sort)
            mt = m.t[1].t if m.sort.startswith('opt:') else m.t
            yield p, Val('triples', z3.Lambda([K_, M_, S_], z3.And(K_ == z3.BoolVal(kind_is_ref), M_ == mt, sels.t[S_])))
        return h

    def m_extend(x, recv, args, p):
        if args[0].sort != 'triples': raise Unsupported('extend with ' + args[0].sort)
        base = z3.K(z3.BoolSort(), z3.K(E.S, z3.K(E.S, False))) if False else None
        if recv.sort == 'litlist':
            if recv.x: raise Unsupported('extend of a non-empty literal list')
            return Val('triples', args[0].t)
        return Val('triples', z3.Lambda([K_, M_, S_], z3.Or(recv.t[K_, M_, S_], args[0].t[K_, M_, S_])))

    def view_of(v):
        if v.sort == 'litlist' and not v.x: return z3.Lambda([K_, M_, S_], z3.BoolVal(False))
        if v.sort == 'triples': return v.t
        return None

    def inv(x, env, i, it):
        k, m, s = z3.Bool('k!inv'), z3.String('m!inv'), z3.String('s!inv'); j = z3.Int('j!inv')
        view = view_of(env['expanded'])
        return z3.ForAll([k, m, s], view[k, m, s] == z3.Exists([j], z3.And(0 <= j, j < i, contributes(j, k, m, s))))

    def ens(a, r):
        k, m, s = z3.Bool('k!ens'), z3.String('m!ens'), z3.String('s!ens'); j = z3.Int('j!ens')
        view = view_of(r)
        if view is None: return z3.BoolVal(False)
        return z3.ForAll([k, m, s], view[k, m, s] == z3.Exists([j], z3.And(0 <= j, j < GM_N, contributes(j, k, m, s))))
    return Contract('stix2/markings/utils.py::expand_markings', props=['C07', 'C13'], params={'granular_markings': entries},
                    requires=[('length', lambda a: GM_N >= 0)],
                    ensures=[('the expanded list holds exactly the (kind, marking, selector) triples of the input: one per selector of every entry, for its marking_ref and for its lang', ens)],
                    raises={},
                    comprehensions={"[{'marking_ref': marking_ref, 'selectors': [selector]} for selector in selectors]": comp(True, 'marking_ref'),
                                    "[{'lang': lang, 'selectors': [selector]} for selector in selectors]": comp(False, 'lang')},
                    registry_ext={'methods': {('.get', 'gm'): m_get, ('.extend', 'litlist'): rebinding(m_extend), ('.extend', 'triples'): rebinding(m_extend)}},
                    loops={0: {'kind': 'inv', 'inv': inv}},
                    havoc={'expanded': lambda v: Val('triples', z3.FreshConst(TripleSet, 'expanded'))},
                    assumptions=['entries are mappings with a collection under "selectors"; a list of single-selector entries is abstracted to the set of its (kind, marking, selector) triples '
                                 '(order and repetition of entries are not part of the view)'])


# ------------------------------------------------------------------ compress_markings: the same triples, one entry per marking (kinds recovered by utils.is_marking)
ISMARK = z3.Function('utils.is_marking', E.S, z3.BoolSort())
PairSet = z3.ArraySort(E.S, E.S, z3.BoolSort())


def compress_markings_contract():
    entries = E.Seq(lambda i: Val('gm', i), GM_N)
    K_, M_, S_ = z3.Bool('k!ct'), z3.String('m!ct'), z3.String('s!ct')

    def contributes(j, k, m, s):
        return z3.And(GM_SELS(j)[s], z3.If(k, z3.And(GM_HASREF(j), z3.Length(GM_REF(j)) > 0, GM_REF(j) == m), z3.And(GM_HASLANG(j), z3.Length(GM_LANG(j)) > 0, GM_LANG(j) == m)))

    def m_get(x, recv, args, e, p, site):
        if len(args) != 1 or not z3.is_string_value(args[0].t): raise Unsupported(site + ' get with a non-literal key')
        key = args[0].t.as_string(); j = recv.t
        if key == 'selectors': yield p, Val('selset', GM_SELS(j))
        elif key == 'marking_ref': yield p, E.Opt(z3.Not(GM_HASREF(j)), Str(GM_REF(j)))
        elif key == 'lang': yield p, E.Opt(z3.Not(GM_HASLANG(j)), Str(GM_LANG(j)))
        else: raise Unsupported(site + f' get({key!r})')

    def h_defaultdict(x, e, p, site):
        if [ast.unparse(a) for a in e.args] != ['set']: raise Unsupported(site + ' defaultdict of something else than set')
        yield p, Val('pairmap', z3.Lambda([M_, S_], z3.BoolVal(False)))

    def sub_slot(x, o, k, p, site):
        for q, k1 in x.narrow(k, p):
            if k1.sort != 'str': raise Unsupported(site + ' key sort ' + k1.sort)
            yield q, Val('mapslot', k1.t)

    def m_update_slot(x, recv, args, e, p, site):
        # map_[key].update(selectors): the set under `key` (created empty on first access: defaultdict) gains the selectors; every other key is untouched
        tgt = e.func.value
        if not (isinstance(tgt, ast.Subscript) and isinstance(tgt.value, ast.Name)) or args[0].sort != 'selset': raise Unsupported(site + ' update shape')
        name = tgt.value.id; q = p.fork(); old = q.env[name].t
        q.env[name] = Val('pairmap', z3.Lambda([M_, S_], z3.Or(old[M_, S_], z3.And(M_ == recv.t, args[0].t[S_]))))
        yield q, NONE

    def comp_final(x, e, p):
        mp = p.env['map_']
        if mp.sort != 'pairmap': raise Unsupported('final comprehension over ' + mp.sort)
        yield p, Val('triples', z3.Lambda([K_, M_, S_], z3.And(K_ == ISMARK(M_), mp.t[M_, S_])))

    def inv(x, env, i, it):
        m, s = z3.String('m!ci'), z3.String('s!ci'); j = z3.Int('j!ci')
        return z3.ForAll([m, s], env['map_'].t[m, s] == z3.Exists([j], z3.And(0 <= j, j < i, z3.Or(contributes(j, z3.BoolVal(True), m, s), contributes(j, z3.BoolVal(False), m, s)))))

    def well_formed(a):
        j = z3.Int('j!wf')
        return z3.ForAll([j], z3.Implies(z3.And(0 <= j, j < GM_N), z3.And(z3.Implies(z3.And(GM_HASREF(j), z3.Length(GM_REF(j)) > 0), ISMARK(GM_REF(j))),
                                                                     z3.Implies(z3.And(GM_HASLANG(j), z3.Length(GM_LANG(j)) > 0), z3.Not(ISMARK(GM_LANG(j)))))))

    def ens(a, r):
        k, m, s = z3.Bool('k!ce'), z3.String('m!ce'), z3.String('s!ce'); j = z3.Int('j!ce')
        if r.sort == 'none': view = z3.Lambda([K_, M_, S_], z3.BoolVal(False))
        elif r.sort == 'triples': view = r.t
        else: return z3.BoolVal(False)
        return z3.ForAll([k, m, s], view[k, m, s] == z3.Exists([j], z3.And(0 <= j, j < GM_N, contributes(j, k, m, s))))
    FINAL = ("[{'marking_ref': item, 'selectors': sorted(selectors)} if utils.is_marking(item) else {'lang': item, 'selectors': sorted(selectors)} for item, selectors in map_.items()]")
    return Contract('stix2/markings/utils.py::compress_markings', props=['C07', 'C13'], params={'granular_markings': entries},
                    requires=[('length', lambda a: GM_N >= 0), ('marking_ref values are marking-definition ids, lang values are not (what tells the kinds apart in the compressed form)', well_formed)],
                    ensures=[('the compressed list holds exactly the (kind, marking, selector) triples of the input', ens)],
                    raises={}, handlers={'collections.defaultdict': h_defaultdict}, comprehensions={FINAL: comp_final},
                    registry_ext={'methods': {('.get', 'gm'): m_get, ('.update', 'mapslot'): m_update_slot}, 'subscript': {('pairmap', 'str'): sub_slot, ('pairmap', 'opt:str'): sub_slot}},
                    loops={0: {'kind': 'inv', 'inv': inv}},
                    havoc={'map_': lambda v: Val('pairmap', z3.FreshConst(PairSet, 'map_'))},
                    assumptions=['sorted(selectors) holds exactly the selectors of the set; utils.is_marking is a function of the text (it tells a marking-definition id from a language code)'])


# ------------------------------------------------------------------ granular add_markings: view(result) == view(object) | { (kind(m), m, s) | m in markings, s in selectors }
OBJ_VIEW = z3.Const('obj.granular_markings.view', TripleSet); OBJ_HAS = z3.Bool('obj.granular_markings.nonempty')
MK = z3.Function('marking.item', z3.IntSort(), E.S); MK_N = z3.Int('n_markings'); SELQ = z3.Const('selectors.view', E.SetS)
GRAN = 'stix2/markings/granular_markings.py'


def granular_add_contract():
    from vf.pyvc.lib import rebinding
    K_, M_, S_ = z3.Bool('k!ga'), z3.String('m!ga'), z3.String('s!ga')
    empty = z3.Lambda([K_, M_, S_], z3.BoolVal(False))

    def view_of(v):
        if v.sort == 'litlist' and not v.x: return empty
        if v.sort == 'triples': return v.t
        if v.sort == 'none': return empty
        return None

    def h_to_list(x, e, p, site):
        if [ast.unparse(a) for a in e.args] != ['selectors']: raise Unsupported(site + ' convert_to_list of something else')
        yield p, Val('selset', SELQ)

    def h_to_markings(x, e, p, site):
        if [ast.unparse(a) for a in e.args] != ['marking']: raise Unsupported(site + ' convert_to_marking_list of something else')
        yield p, E.Seq(lambda i: Str(MK(i)), MK_N)

    def h_validate(x, e, p, site):
        actual = {k.arg: ast.unparse(k.value) for k in e.keywords}
        for name, a in zip(('obj', 'selectors'), e.args): actual[name] = ast.unparse(a)
        if set(actual) != {'obj', 'selectors'}: raise Unsupported(site + ' validate call shape')          # not recognised: undecided, not an alarm
        ok = actual == {'obj': 'obj', 'selectors': 'selectors'} and p.env['selectors'].sort == 'selset'
        x.oblige('call(utils.validate): the object and the selectors of this call are validated before anything is built', p.pc, z3.BoolVal(bool(ok)), p.exact, 'call-requires')
        yield p.fork(), Exc('InvalidSelectorError', site)
        q = p.fork(); q.ghost = dict(q.ghost, validated=True)
        yield q, NONE

    def h_is_marking(x, e, p, site):
        for p1, vs in x.ev_seq(list(e.args), p):
            yield p1, (vs if isinstance(vs, Exc) else Bool(ISMARK(vs[0].t)))

    def entry(is_ref):
        def h(x, e, p):
            m = p.env['m']; sels = p.env['selectors']
            if m.sort != 'str' or sels.sort != 'selset': raise Unsupported('entry literal over ' + m.sort + ' / ' + sels.sort)
            yield p, Val('triples', z3.Lambda([K_, M_, S_], z3.And(K_ == z3.BoolVal(is_ref), M_ == m.t, sels.t[S_])))
        return h

    def m_union(x, recv, args, p):
        a = view_of(args[0]); b = view_of(recv)
        if a is None or b is None: raise Unsupported(f'append/extend of {args[0].sort} to {recv.sort}')
        return Val('triples', z3.Lambda([K_, M_, S_], z3.Or(b[K_, M_, S_], a[K_, M_, S_])))

    def m_obj_get(x, recv, args, e, p, site):
        if not (len(args) == 1 and z3.is_string_value(args[0].t) and args[0].t.as_string() == 'granular_markings'): raise Unsupported(site + ' obj.get of another key')
        yield p, Val('triples', OBJ_VIEW, x={'of': 'obj'})

    def h_expand(x, e, p, site):
        """callee contract (proved): the same triples"""
        for p1, vs in x.ev_seq(list(e.args), p):
            if isinstance(vs, Exc): yield p1, vs; continue
            v = view_of(vs[0])
            if v is None: raise Unsupported(site + ' expand of ' + vs[0].sort)
            yield p1, Val('triples', v)

    def h_compress(x, e, p, site):
        """callee contract (proved): the same triples, provided the kinds can be told apart by is_marking"""
        for p1, vs in x.ev_seq(list(e.args), p):
            if isinstance(vs, Exc): yield p1, vs; continue
            v = view_of(vs[0])
            if v is None: raise Unsupported(site + ' compress of ' + vs[0].sort)
            k, m, s = z3.Bool('k!wf'), z3.String('m!wf'), z3.String('s!wf')
            x.oblige('call(utils.compress_markings).requires: marking_ref entries hold marking ids, lang entries do not', p1.pc, z3.ForAll([k, m, s], z3.Implies(v[k, m, s], k == ISMARK(m))), p1.exact, 'call-requires')
            yield p1, Val('triples', v)

    def h_new_version(x, e, p, site):
        kws = {k.arg: k.value for k in e.keywords}
        first = ast.unparse(e.args[0]) if len(e.args) == 1 else ast.unparse(kws.pop('data')) if (not e.args and 'data' in kws) else None
        if first is None: raise Unsupported(site + ' new_version call shape')          # not recognised: undecided, not an alarm
        ok = first == 'obj' and set(kws) == {'granular_markings', 'allow_custom'}
        x.oblige('call(new_version): the new version is made from this object, changing granular_markings only', p.pc, z3.BoolVal(bool(ok)), p.exact, 'call-requires')
        if 'granular_markings' not in kws: raise Unsupported(site + ' new_version call shape')
        for p1, v in x.ev(kws['granular_markings'], p):
            if isinstance(v, Exc): yield p1, v; continue
            vv = view_of(v)
            if vv is None: raise Unsupported(site + ' granular_markings argument of sort ' + v.sort)
            yield p1.fork(), Exc('InvalidValueError', site)            # the constructor may refuse (C02)
            yield p1, Val('newobj', vv)

    def inv(x, env, i, it):
        k, m, s = z3.Bool('k!gi'), z3.String('m!gi'), z3.String('s!gi'); j = z3.Int('j!gi')
        view = view_of(env['granular_marking'])
        return z3.ForAll([k, m, s], view[k, m, s] == z3.Exists([j], z3.And(0 <= j, j < i, MK(j) == m, k == ISMARK(m), SELQ[s])))

    def ens(a, r):
        k, m, s = z3.Bool('k!ge'), z3.String('m!ge'), z3.String('s!ge'); j = z3.Int('j!ge')
        if r.sort != 'newobj': return z3.BoolVal(False)
        return z3.ForAll([k, m, s], r.t[k, m, s] == z3.Or(OBJ_VIEW[k, m, s], z3.Exists([j], z3.And(0 <= j, j < MK_N, MK(j) == m, k == ISMARK(m), SELQ[s]))))

    def obj_wf(a):
        k, m, s = z3.Bool('k!ow'), z3.String('m!ow'), z3.String('s!ow')
        return z3.And(z3.ForAll([k, m, s], z3.Implies(OBJ_VIEW[k, m, s], k == ISMARK(m))), z3.Or(OBJ_HAS, z3.ForAll([k, m, s], z3.Not(OBJ_VIEW[k, m, s]))))
    def outcomes(x, outs, add):
        for i, (kind, p, v) in enumerate(outs):
            if kind == 'return':
                add(f'the selectors were validated against the object on the way to this result (a caller that stops calling utils.validate is a failed obligation) @path{i}', p.pc, z3.BoolVal(bool(p.ghost.get('validated'))), p.exact)
    return Contract(f'{GRAN}::add_markings', props=['C07'], on_outcomes=outcomes, params={'obj': Val('markedobj', x={}), 'marking': 'opaque', 'selectors': 'opaque'},
                    requires=[('lengths', lambda a: MK_N >= 0), ('the object\'s own granular markings are well formed (marking_ref entries hold marking ids, lang entries language codes); an empty list has no triples', obj_wf)],
                    ensures=[('view(result) == view(object) united with { (kind(m), m, s) | m among the markings, s among the selectors } -- nothing else is added, nothing is lost', ens)],
                    raises={'InvalidSelectorError': None, 'InvalidValueError': None},
                    handlers={'utils.convert_to_list': h_to_list, 'utils.convert_to_marking_list': h_to_markings, 'utils.validate': h_validate, 'is_marking': h_is_marking,
                              'utils.expand_markings': h_expand, 'utils.compress_markings': h_compress, 'new_version': h_new_version},
                    expr_hooks={"{'marking_ref': m, 'selectors': sorted(selectors)}": entry(True), "{'lang': m, 'selectors': sorted(selectors)}": entry(False)},
                    registry_ext={'methods': {('.get', 'markedobj'): m_obj_get, ('.append', 'litlist'): rebinding(m_union), ('.append', 'triples'): rebinding(m_union),
                                              ('.extend', 'litlist'): rebinding(m_union), ('.extend', 'triples'): rebinding(m_union)}},
                    truthy_handlers={'triples': lambda x, v: OBJ_HAS if (v.x or {}).get('of') == 'obj' else z3.BoolVal(True)},
                    loops={0: {'kind': 'inv', 'inv': inv}},
                    havoc={'granular_marking': lambda v: Val('triples', z3.FreshConst(TripleSet, 'granular_marking'))},
                    assumptions=['callee contracts of granular add_markings: expand_markings and compress_markings (proved: the same triples), utils.validate (proved), new_version (proved in C05: '
                                 'exactly the requested change), convert_to_list / convert_to_marking_list (the selectors / marking ids of the call, as collections)'])


def add_law_lemmas():
    """from the contract of add_markings alone: adding is idempotent and order-independent (set union)"""
    V = z3.Const('V', TripleSet); A = z3.Const('A', TripleSet); B = z3.Const('B', TripleSet)
    k, m, s = z3.Bool('k!al'), z3.String('m!al'), z3.String('s!al')
    add = lambda v, a: z3.Lambda([k, m, s], z3.Or(v[k, m, s], a[k, m, s]))
    same = lambda x, y: z3.ForAll([k, m, s], x[k, m, s] == y[k, m, s])
    return [('add is idempotent: add(add(V, A), A) == add(V, A)', same(add(add(V, A), A), add(V, A))),
            ('add is order-independent: add(add(V, A), B) == add(add(V, B), A)', same(add(add(V, A), B), add(add(V, B), A))),
            ('after adding, the added pairs are reported: A is a subset of add(V, A)', z3.ForAll([k, m, s], z3.Implies(A[k, m, s], add(V, A)[k, m, s]))),
            ('removing what was just added restores the previous set (for pairs that were not there before): remove(add(V, A), A) == V when V and A are disjoint',
             z3.Implies(z3.ForAll([k, m, s], z3.Not(z3.And(V[k, m, s], A[k, m, s]))),
                        same(z3.Lambda([k, m, s], z3.And(add(V, A)[k, m, s], z3.Not(A[k, m, s]))), V)))]


# ------------------------------------------------------------------ granular remove_markings: view(result) == view(object) minus the named pairs; MarkingNotFoundError iff none of them is there
def granular_remove_contract():
    base = granular_add_contract()
    K_, M_, S_ = z3.Bool('k!gr'), z3.String('m!gr'), z3.String('s!gr')
    empty = z3.Lambda([K_, M_, S_], z3.BoolVal(False))

    def view_of(v):
        if v.sort == 'litlist' and not v.x: return empty
        if v.sort == 'triples': return v.t
        if v.sort == 'none': return empty
        return None

    def entry(is_ref):
        def h(x, e, p):
            m = p.env['m']; sels = p.env['selectors']
            if m.sort != 'str' or sels.sort != 'selset': raise Unsupported('entry literal over ' + m.sort + ' / ' + sels.sort)
            yield p, Val('triples', z3.Lambda([K_, M_, S_], z3.And(K_ == z3.BoolVal(is_ref), M_ == m.t, sels.t[S_])))
        return h

    def hook_build(x, e, p):
        # utils.build_granular_marking(to_remove).get('granular_markings') == expand_markings(to_remove): the same triples (callee contract, proved)
        v = view_of(p.env['to_remove'])
        if v is None: raise Unsupported('build_granular_marking of ' + p.env['to_remove'].sort)
        yield p, Val('triples', v)

    def hook_any(x, e, p):
        k, m, s = z3.Bool('k!an'), z3.String('m!an'), z3.String('s!an')
        r, g = view_of(p.env['remove']), view_of(p.env['granular_markings'])
        if r is None or g is None: raise Unsupported('any(...) over unmodelled lists')
        yield p, Bool(z3.Exists([k, m, s], z3.And(r[k, m, s], g[k, m, s])))

    def hook_filter(x, e, p):
        r, g = view_of(p.env['remove']), view_of(p.env['granular_markings'])
        if r is None or g is None: raise Unsupported('filter comprehension over unmodelled lists')
        yield p, Val('triples', z3.Lambda([K_, M_, S_], z3.And(g[K_, M_, S_], z3.Not(r[K_, M_, S_]))), x={'of': 'filtered'})

    def h_compress(x, e, p, site):
        for p1, vs in x.ev_seq(list(e.args), p):
            if isinstance(vs, Exc): yield p1, vs; continue
            v = view_of(vs[0])
            if v is None: raise Unsupported(site + ' compress of ' + vs[0].sort)
            k, m, s = z3.Bool('k!wf'), z3.String('m!wf'), z3.String('s!wf')
            x.oblige('call(utils.compress_markings).requires: marking_ref entries hold marking ids, lang entries do not', p1.pc, z3.ForAll([k, m, s], z3.Implies(v[k, m, s], k == ISMARK(m))), p1.exact, 'call-requires')
            yield p1, Val('triples', v, x={'of': 'compressed'})       # (None for an empty list: falsy either way)

    def h_new_version(x, e, p, site):
        kws = {k.arg: k.value for k in e.keywords}
        first = ast.unparse(e.args[0]) if len(e.args) == 1 else ast.unparse(kws.pop('data')) if (not e.args and 'data' in kws) else None
        if first is None: raise Unsupported(site + ' new_version call shape')          # not recognised: undecided, not an alarm
        ok = first == 'obj' and set(kws) == {'granular_markings', 'allow_custom'}
        x.oblige('call(new_version): the new version is made from this object, changing granular_markings only', p.pc, z3.BoolVal(bool(ok)), p.exact, 'call-requires')
        if 'granular_markings' not in kws: raise Unsupported(site + ' new_version call shape')
        for p1, v in x.ev(kws['granular_markings'], p):
            if isinstance(v, Exc): yield p1, v; continue
            vv = view_of(v)
            if vv is None: raise Unsupported(site + ' granular_markings argument of sort ' + v.sort)
            yield p1.fork(), Exc('InvalidValueError', site)
            yield p1, Val('newobj', vv)

    def truthy_triples(x, v):
        tag = (v.x or {}).get('of')
        if tag == 'obj': return OBJ_HAS
        k, m, s = z3.Bool('k!tt'), z3.String('m!tt'), z3.String('s!tt')
        return z3.Exists([k, m, s], v.t[k, m, s])          # a compressed / expanded list is empty exactly when it has no triple

    def named(k, m, s):
        j = z3.Int('j!nm')
        return z3.Exists([j], z3.And(0 <= j, j < MK_N, MK(j) == m, k == ISMARK(m), SELQ[s]))

    def inv(x, env, i, it):
        k, m, s = z3.Bool('k!ri'), z3.String('m!ri'), z3.String('s!ri'); j = z3.Int('j!ri')
        view = view_of(env['to_remove'])
        return z3.ForAll([k, m, s], view[k, m, s] == z3.Exists([j], z3.And(0 <= j, j < i, MK(j) == m, k == ISMARK(m), SELQ[s])))

    def ens(a, r):
        k, m, s = z3.Bool('k!re'), z3.String('m!re'), z3.String('s!re')
        if r.sort == 'markedobj': view = OBJ_VIEW          # the object itself is returned: nothing to remove from an object without granular markings
        elif r.sort == 'newobj': view = r.t
        else: return z3.BoolVal(False)
        return z3.ForAll([k, m, s], view[k, m, s] == z3.And(OBJ_VIEW[k, m, s], z3.Not(named(k, m, s))))

    def not_found(a):
        k, m, s = z3.Bool('k!nf'), z3.String('m!nf'), z3.String('s!nf')
        return z3.And(OBJ_HAS, z3.Not(z3.Exists([k, m, s], z3.And(OBJ_VIEW[k, m, s], named(k, m, s)))))

    def outcomes(x, outs, add):
        for i, (kind, p, v) in enumerate(outs):
            if kind == 'return':
                add(f'the selectors were validated against the object on the way to this result @path{i}', p.pc, z3.BoolVal(bool(p.ghost.get('validated'))), p.exact)
    handlers = dict(base.handlers); handlers.update({'utils.compress_markings': h_compress, 'new_version': h_new_version})
    ANY1 = 'any((marking in granular_markings for marking in remove))'
    return Contract(f'{GRAN}::remove_markings', props=['C07'], on_outcomes=outcomes, params={'obj': Val('markedobj', x={}), 'marking': 'opaque', 'selectors': 'opaque'},
                    requires=list(base.requires) + [('an object that has granular markings has at least one (kind, marking, selector) triple', lambda a: z3.Implies(OBJ_HAS, truthy_triples(None, Val('triples', OBJ_VIEW))))],
                    ensures=[('view(result) == view(object) minus { (kind(m), m, s) | m among the markings, s among the selectors } -- exactly those pairs go, everything else stays', ens)],
                    raises={'InvalidSelectorError': None, 'InvalidValueError': None, 'MarkingNotFoundError': not_found},
                    handlers=handlers,
                    expr_hooks={"{'marking_ref': m, 'selectors': selectors}": entry(True), "{'lang': m, 'selectors': selectors}": entry(False),
                                "utils.build_granular_marking(to_remove).get('granular_markings')": hook_build, ANY1: hook_any,
                                'not any((marking in granular_markings for marking in remove))': lambda x, e, p: ((q, Bool(z3.Not(v.t))) for q, v in hook_any(x, e, p))},
                    comprehensions={'[m for m in granular_markings if m not in remove]': hook_filter},
                    registry_ext=base.registry_ext, truthy_handlers={'triples': truthy_triples},
                    loops={0: {'kind': 'inv', 'inv': inv}},
                    havoc={'to_remove': lambda v: Val('triples', z3.FreshConst(TripleSet, 'to_remove'))},
                    assumptions=['callee contracts of granular remove_markings: expand_markings / build_granular_marking / compress_markings (proved: the same triples), utils.validate, new_version; '
                                 'an entry of an expanded list is equal to another exactly when they are the same (kind, marking, selector) triple'])


# ------------------------------------------------------------------ granular set_markings: "setting equals clearing then adding"
CLEARED = z3.Function('clear_markings.result.view', TripleSet, E.SetS, z3.BoolSort(), z3.BoolSort(), TripleSet)     # view after clear_markings(obj, selectors, marking_ref, lang)
ADDED = z3.Function('add_markings.result.view', TripleSet, E.SetS, E.SetS, TripleSet)                               # view after add_markings(obj, marking, selectors) -- characterised by its own contract


def granular_set_contract():
    from vf.pyvc.lib import real_sig, bind_actuals
    MKSET = z3.Const('marking.view', E.SetS)

    def view_of(v):
        if v.sort == 'markedobj': return v.t if v.t is not None else OBJ_VIEW
        raise Unsupported('view of ' + v.sort)

    def bound_call(x, e, p, site, name):
        sig = real_sig(x.src_root, GRAN, name)
        nodes = list(e.args) + [k.value for k in e.keywords]
        outs = list(x.ev_seq(nodes, p))
        if len(outs) != 1 or isinstance(outs[0][1], Exc): raise Unsupported(site + ' arguments')
        p1, vs = outs[0]
        bound, errors = bind_actuals(sig, e, vs)
        if errors: raise Unsupported(site + f' call does not bind to the real signature of {name}: {errors}')
        return p1, bound

    def same_param(x, v, name): return v is x.params.get(name)

    def h_clear(x, e, p, site):
        p1, b = bound_call(x, e, p, site, 'clear_markings')
        ok = all(not isinstance(b.get(f), tuple) and same_param(x, b.get(f), f) for f in ('obj', 'selectors', 'marking_ref', 'lang'))
        x.oblige('call(clear_markings): the object, the selectors and the two kind flags of this call are what is cleared', p1.pc, z3.BoolVal(bool(ok)), p1.exact, 'call-requires')
        yield p1.fork(), Exc('MarkingNotFoundError', site)
        yield p1.fork(), Exc('InvalidSelectorError', site)
        yield p1, Val('markedobj', CLEARED(OBJ_VIEW, SELQ, x.params['marking_ref'].t, x.params['lang'].t), x={'cleared': True})

    def h_add(x, e, p, site):
        p1, b = bound_call(x, e, p, site, 'add_markings')
        o = b.get('obj')
        ok = isinstance(o, Val) and o.sort == 'markedobj' and (o.x or {}).get('cleared') and same_param(x, b.get('marking'), 'marking') and same_param(x, b.get('selectors'), 'selectors')
        x.oblige('call(add_markings): the markings of this call are added, on the same selectors, to what clear_markings returned', p1.pc, z3.BoolVal(bool(ok)), p1.exact, 'call-requires')
        if not (isinstance(o, Val) and o.sort == 'markedobj'): raise Unsupported(site + ' add_markings on ' + getattr(o, 'sort', '?'))
        yield p1.fork(), Exc('InvalidSelectorError', site)
        yield p1.fork(), Exc('InvalidValueError', site)
        yield p1, Val('newobj', ADDED(view_of(o), MKSET, SELQ))
    return Contract(f'{GRAN}::set_markings', props=['C07'],
                    params={'obj': Val('markedobj', x={}), 'marking': Val('markingarg', MKSET), 'selectors': Val('selset', SELQ), 'marking_ref': 'bool', 'lang': 'bool'},
                    ensures=[('setting equals clearing then adding: the result is add_markings(clear_markings(obj, selectors, marking_ref, lang), marking, selectors)',
                              lambda a, r: r.t == ADDED(CLEARED(OBJ_VIEW, SELQ, a['marking_ref'].t, a['lang'].t), MKSET, SELQ) if r.sort == 'newobj' else z3.BoolVal(False))],
                    raises={'MarkingNotFoundError': None, 'InvalidSelectorError': None, 'InvalidValueError': None},
                    handlers={'clear_markings': h_clear, 'add_markings': h_add},
                    assumptions=['callee contracts of granular set_markings: add_markings (proved above), clear_markings (not under contract: in-place updates of entries in nested loops; its result is an uninterpreted function of the view of the object, the selectors and the two flags)'])
