"""C05: contracts for stix2/versioning.py (_fudge_modified, new_version, revoke)."""
import ast
import z3
from vf.pyvc import engine as E
from vf.pyvc.engine import Val, Exc, Unsupported, NONE, Int, Bool, Str, Rec, Opt, SetV, Seq, S, sat, EMPTY
from vf.pyvc.contract import Contract, expect
from vf.pyvc.lib import pure, mk_map, map_store, map_update, map_val, rebinding, real_sig, bind_actuals
from vf.check import Replay

SRC = 'stix2/versioning.py'
M = 10**6


# ------------------------------------------------------------------ _fudge_modified
def good(old, new, u21):
    return z3.If(u21, new > old, new - old >= 1000)


FUDGE_REQUIRES = [('2.0 timestamps reach here truncated to the millisecond',
                   lambda a: z3.And(a['old_modified'].t >= 0, a['new_modified'].t >= 0, z3.Or(a['use_stix21'].t, a['old_modified'].t % 1000 == 0)))]
FUDGE_ENSURES = [
    ('result >= new_modified (the clock reading is never moved back)', lambda a, r: expect(r, 'dt') >= a['new_modified'].t),
    ('2.1: result strictly later than old_modified', lambda a, r: z3.Implies(a['use_stix21'].t, expect(r, 'dt') > a['old_modified'].t)),
    ('2.0: result strictly later than old_modified after truncation to milliseconds',
     lambda a, r: z3.Implies(z3.Not(a['use_stix21'].t), expect(r, 'dt') / 1000 > a['old_modified'].t / 1000)),
    ('result == new_modified whenever that is already late enough', lambda a, r: z3.Implies(good(a['old_modified'].t, a['new_modified'].t, a['use_stix21'].t), expect(r, 'dt') == a['new_modified'].t)),
    ('pushed no further than one unit past old_modified', lambda a, r: z3.Implies(z3.Not(good(a['old_modified'].t, a['new_modified'].t, a['use_stix21'].t)),
                                                                                   expect(r, 'dt') == a['old_modified'].t + z3.If(a['use_stix21'].t, 1, 1000))),
]


def fudge_contract():
    def call(py):
        import stix2.versioning as V
        return V._fudge_modified(py['old_modified'], py['new_modified'], py['use_stix21'])
    return Contract(f'{SRC}::_fudge_modified', props=['C05'],
                    params={'old_modified': 'dt', 'new_modified': 'dt', 'use_stix21': 'bool'},
                    requires=FUDGE_REQUIRES, ensures=FUDGE_ENSURES, raises={},
                    assumptions=['A(datetime): comparison, subtraction and + timedelta are integer arithmetic on microseconds (no OverflowError: year 9999 boundary excluded)'],
                    replay=Replay(call=call))


# ------------------------------------------------------------------ new_version (slice contract)
UNMOD = ['created', 'created_by_ref', 'id', 'type']
LOCKED = z3.Function('sco_locked_props', z3.IntSort(), S)
NLOCKED = z3.Int('n_sco_locked_props')
IS_SCO21 = z3.Bool('is_sco(data, 2.1)'); IS_OBS = z3.Bool('isinstance(data, _Observable)'); IS_BASE = z3.Bool('isinstance(data, _STIXBase)')
PARSE = z3.Function('parsed_instant', z3.IntSort(), z3.BoolSort(), z3.IntSort())     # parse_into_datetime(value, 'millisecond', exact?) as an instant


CP = z3.Const('kwargs.custom_properties.keys', E.SetS); CP_IS_MAPPING = z3.Bool('isinstance(kwargs.custom_properties, Mapping)')


def supplied(a):
    """property names the change set supplies: keyword arguments, and the keys of a custom_properties mapping"""
    K = a['kwargs'].x['present']
    return lambda k: z3.Or(K(k), z3.And(K('custom_properties'), CP_IS_MAPPING, CP[k if not isinstance(k, str) else z3.StringVal(k)]))


def new_version_contract():
    from vf.pyvc import lib as L
    L.E_AS_SET['cprops'] = lambda v: v.t
    data = mk_map('data', {'revoked': 'bool', 'modified': 'dt', 'created': 'dt', 'id': 'str', 'type': 'str', 'created_by_ref': 'str', 'name': 'str'})
    kwargs = mk_map('kwargs', {'modified': 'dt', 'created': 'dt', 'id': 'str', 'type': 'str', 'created_by_ref': 'str', 'revoked': 'opt:bool', 'name': 'opt:str',
                               'custom_properties': lambda nm: Val('cprops', CP)})

    def h_is_mapping(x, v, p, site):
        if v.sort == 'cprops': yield p, Bool(CP_IS_MAPPING)
        else: yield from L.isinstance_model(x, v, 'Mapping', p, site)
    stix_version = E.named('opt:str', 'stix_version')

    def h_check_versionable(x, e, p, site):
        yield p.fork(), Exc('TypeNotVersionableError', site)
        yield p.fork(), Exc('ObjectNotVersionableError', site)
        # callee postcondition: for a library object or a dictionary the detected version is "2.0" or "2.1", never None
        # (proved separately: get_stix_version_contract; that every library class derives from the base of its version is the class-table invariant of C05)
        sv = stix_version.t[1].t
        yield p.fork(z3.Not(stix_version.t[0]), z3.Or(sv == z3.StringVal('2.0'), sv == z3.StringVal('2.1'))), stix_version

    def h_deepcopy(x, e, p, site):
        for p1, vs in x.ev_seq(list(e.args), p):
            yield p1, (vs if isinstance(vs, Exc) else vs[0])          # A(copy.deepcopy): an equal value (value semantics in the model)

    def attr_inner(x, o, p, site):
        q = p.fork(IS_BASE)
        if sat(q.pc): yield q, o
        q = p.fork(z3.Not(IS_BASE))
        if sat(q.pc): yield q, Exc('AttributeError', site)

    def h_is_sco(x, e, p, site): yield p, Bool(IS_SCO21)

    def h_uuid(x, e, p, site):
        for p1, vs in x.ev_seq(list(e.args), p):
            if isinstance(vs, Exc): yield p1, vs
            else:
                yield p1.fork(), Exc('ValueError', site)
                yield p1, Rec(variant=Str(z3.String('uuid.variant')), version=Int(z3.Int('uuid.version')))

    def h_isinstance(which):
        def h(x, v, p, site): yield p, Bool(which)
        return h

    def h_class_for_type(x, e, p, site):
        for p1, vs in x.ev_seq(list(e.args), p):
            yield p1, (vs if isinstance(vs, Exc) else Val('opaque', x='cls'))

    def attr_locked(x, o, p, site):
        yield p.fork(NLOCKED >= 0), Seq(lambda i: Str(LOCKED(i)), NLOCKED)

    def attr_class(x, o, p, site): yield p, Val('opaque', x='cls')

    def h_chain(x, e, p, site):
        for p1, vs in x.ev_seq(list(e.args), p):
            if isinstance(vs, Exc):
                yield p1, vs; continue
            a, b = vs
            if not (a.sort == 'const' and isinstance(a.x, list)): raise Unsupported(site + ' chain head')
            lits = [z3.StringVal(s) for s in a.x]; k = len(lits)
            if b.sort == 'litlist' and not b.x: tail_f, tail_n = (lambda i: z3.StringVal('')), z3.IntVal(0)
            elif b.sort == 'seq': tail_f, tail_n = (lambda i: b.t[0](i).t), b.t[1]
            else: raise Unsupported(site + ' chain tail ' + b.sort)

            def el(i, lits=lits, k=k, tail_f=tail_f):
                t = tail_f(i - k)
                for j in reversed(range(k)): t = z3.If(i == j, lits[j], t)
                return Str(t)
            yield p1, Seq(el, tail_n + k, head=a.x)

    def h_parse(x, e, p, site):
        """callee contract of parse_into_datetime (proved in C15): with precision 'millisecond' the result is the instant,
        truncated to the millisecond iff the constraint is 'exact'; ValueError on unparseable text"""
        sig = real_sig(x.src_root, 'stix2/utils.py', 'parse_into_datetime')
        for p1, vs in x.ev_seq(list(e.args) + [k.value for k in e.keywords], p):
            if isinstance(vs, Exc):
                yield p1, vs; continue
            bound, errors = bind_actuals(sig, e, vs)
            prec, con, value = bound.get('precision'), bound.get('precision_constraint'), bound.get('value')
            ok = isinstance(prec, Val) and prec.sort == 'str' and z3.is_string_value(prec.t) and prec.t.as_string() == 'millisecond' and not errors
            x.oblige('call(parse_into_datetime): precision is "millisecond", arguments bind to the real signature', p1.pc, z3.BoolVal(bool(ok)), p1.exact, 'call-requires')
            for nm_ in ('prec', 'con'):        # an omitted argument takes the default of the callee's REAL signature (re-read from source)
                v_ = prec if nm_ == 'prec' else con
                if isinstance(v_, tuple) and v_[0] == 'default':
                    d_ = v_[1]; lit = None
                    if isinstance(d_, ast.Constant) and isinstance(d_.value, str): lit = d_.value
                    elif isinstance(d_, ast.Attribute) and isinstance(d_.value, ast.Name) and d_.value.id in ('Precision', 'PrecisionConstraint'): lit = d_.attr.lower()    # enum member: the text names it
                    if lit is not None:
                        if nm_ == 'prec': prec = Str(lit)
                        else: con = Str(lit)
            if not (isinstance(con, Val) and con.sort == 'str'): raise Unsupported(site + ' precision_constraint sort')
            x.oblige('call(parse_into_datetime): precision_constraint names a member', p1.pc, z3.Or(con.t == z3.StringVal('min'), con.t == z3.StringVal('exact')), p1.exact, 'call-requires')
            yield p1.fork(), Exc('ValueError', site)
            raw = value.t if value.sort == 'dt' else z3.FreshConst(z3.IntSort(), 'raw')
            exact = con.t == z3.StringVal('exact')
            r = z3.FreshConst(z3.IntSort(), 'parsed')
            q = p1.fork(raw >= 0, r == z3.If(exact, raw - raw % 1000, raw))
            yield q, Val('dt', r, x={'raw': raw, 'exact': exact})

    def h_get_timestamp(x, e, p, site):
        now = z3.FreshConst(z3.IntSort(), 'clock')
        yield p.fork(now >= 0), Val('dt', now)          # the wall clock is unconstrained

    def h_fudge(x, e, p, site):
        sig = real_sig(x.src_root, SRC, '_fudge_modified')
        for p1, vs in x.ev_seq(list(e.args), p):
            if isinstance(vs, Exc):
                yield p1, vs; continue
            bound, errors = bind_actuals(sig, e, vs)
            a = {k: bound[k] for k in ('old_modified', 'new_modified', 'use_stix21')}
            sorts_ok = a['old_modified'].sort == 'dt' and a['new_modified'].sort == 'dt' and a['use_stix21'].sort == 'bool' and not errors
            x.oblige('call(_fudge_modified): argument sorts and binding', p1.pc, z3.BoolVal(sorts_ok), p1.exact, 'call-requires')
            if not sorts_ok: raise Unsupported(site + ' fudge args')
            for name, r in FUDGE_REQUIRES:
                x.oblige(f'call(_fudge_modified).requires: {name}', p1.pc, r(a), p1.exact, 'call-requires')
            res = Val('dt', z3.FreshConst(z3.IntSort(), 'fudged'))
            q = p1.fork(*[fn(a, res) for _, fn in FUDGE_ENSURES])
            q.ghost = dict(q.ghost, fudged=(a, res))
            yield q, res

    def h_type(x, e, p, site): yield p, Val('opaque', x='cls')

    def store(x, tgt, v, q):
        if isinstance(tgt.value, ast.Name) and q.env[tgt.value.id].sort == 'map' and isinstance(tgt.slice, ast.Constant):
            q.env[tgt.value.id] = map_store(q.env[tgt.value.id], tgt.slice.value, v)
        else: raise Unsupported('store ' + ast.unparse(tgt) + ' into ' + q.env[tgt.value.id].sort)

    def m_update(x, recv, args, p):
        if args[0].sort != 'map': raise Unsupported('update with ' + args[0].sort)
        return map_update(recv, args[0])

    def attr_has_custom(x, o, p, site): yield p, Bool(z3.Bool('data.has_custom'))

    def comp_filter_none(x, e, p):
        """{k: v for k, v in new_obj_inner.items() if v is not None}: drops exactly the keys whose value is None"""
        m = p.env['new_obj_inner']
        pres = {}; vals = {}
        for k in m.x['pres']:
            v = m.x['value'](k)
            if v.sort == 'cond':
                op, ov, mv = v.x
                isnone = z3.If(op, _isnone(ov), _isnone(mv))
            else: isnone = _isnone(v)
            pres[k] = z3.And(m.x['present'](k), z3.Not(isnone)); vals[k] = v
        yield p, map_val(pres, vals, m.x['other'], dict(m.x['sorts']))

    def h_cls(x, e, p, site):
        if not (len(e.keywords) == 1 and e.keywords[0].arg is None and not e.args): raise Unsupported(site + ' constructor call shape')
        for p1, m in x.ev(e.keywords[0].value, p):
            if isinstance(m, Exc):
                yield p1, m; continue
            yield p1.fork(), Exc('InvalidValueError', site)      # constructor validation may refuse the new content (C02)
            yield p1, Val('ctor', x=m)

    # ---- postconditions
    def parsed_old(a):
        return None

    def ens_identity(a, r):
        m = expect_ctor(r)
        cl = []
        for k in UNMOD:
            cl.append(m.x['present'](k) == a['data'].x['present'](k))
            cl.append(z3.Implies(a['data'].x['present'](k), same_value(m.x['value'](k), a['data'].x['value'](k))))
        return z3.And(*cl)

    def ens_changes(a, r):
        m = expect_ctor(r); cl = []
        for k in ('name', 'revoked'):
            kv = a['kwargs'].x['value'](k); kp = a['kwargs'].x['present'](k)
            cl.append(z3.Implies(z3.And(kp, z3.Not(_isnone(kv))), z3.And(m.x['present'](k), same_value(m.x['value'](k), kv))))     # requested value applied
            cl.append(z3.Implies(z3.And(kp, _isnone(kv)), z3.Not(m.x['present'](k))))                                                # None removes the property
            via_cp = z3.And(a['kwargs'].x['present']('custom_properties'), CP_IS_MAPPING, CP[z3.StringVal(k)], IS_BASE)
            # requested through custom_properties (objects): the original's value is not handed to the constructor beside it -- it would take precedence there
            cl.append(z3.Implies(z3.And(z3.Not(kp), via_cp), z3.Not(m.x['present'](k))))
            cl.append(z3.Implies(z3.And(z3.Not(kp), z3.Not(via_cp)), z3.And(m.x['present'](k) == a['data'].x['present'](k),
                                                    z3.Implies(a['data'].x['present'](k), same_value(m.x['value'](k), a['data'].x['value'](k))))))  # untouched otherwise
        return z3.And(*cl)

    def comp_drop_shadowed(x, e, p):
        """{k: v for k, v in new_obj_inner.items() if k in kwargs or k not in kwargs["custom_properties"]}: a filtered copy -- a key stays exactly when it is a
        keyword of this call or is not named in custom_properties; values are not touched (set-builder semantics of a comprehension filter, no quantifier needed)"""
        m = p.env['new_obj_inner']; K = p.env['kwargs'].x['present']
        keep = lambda k: z3.Or(K(k), z3.Not(CP[z3.StringVal(k) if isinstance(k, str) else k]))
        u = z3.FreshConst(S, 'u')
        pres = {k: z3.And(m.x['present'](k), keep(k)) for k in m.x['pres']}
        yield p, map_val(pres, dict(m.x['vals']), z3.Lambda([u], z3.And(m.x['other'][u], keep(u))), dict(m.x['sorts']))

    c = Contract(
        f'{SRC}::new_version', props=['C05'],
        params={'data': data, 'allow_custom': 'opt:bool', 'kwargs': kwargs},
        requires=[('data is a STIX object or dictionary: it has type and id, and holds no None values (declared keys are non-optional in the model)',
                   lambda a: z3.And(a['data'].x['present']('type'), a['data'].x['present']('id')))],
        ensures=[('type, id, created, created_by_ref are those of the original', ens_identity),
                 ('exactly the requested changes: value applied, None removes, everything else untouched', ens_changes)],
        raises={'RevokeError': lambda a: z3.And(a['data'].x['present']('revoked'), a['data'].x['value']('revoked').t),
                'UnmodifiablePropertyError': None,
                'TypeNotVersionableError': None, 'ObjectNotVersionableError': None, 'InvalidValueError': None, 'ValueError': None},
        loops={0: {'kind': 'inv', 'inv': inv_unchangeable}},
        handlers={'_check_versionable_object': h_check_versionable, 'copy.deepcopy': h_deepcopy, 'is_sco': h_is_sco, 'uuid.UUID': h_uuid,
                  'isinstance:Mapping': h_is_mapping, 'isinstance:stix2.base._Observable': h_isinstance(IS_OBS), 'isinstance:stix2.base._STIXBase': h_isinstance(IS_BASE),
                  'stix2.registry.class_for_type': h_class_for_type, 'itertools.chain': h_chain, 'parse_into_datetime': h_parse,
                  'get_timestamp': h_get_timestamp, '_fudge_modified': h_fudge, 'type': h_type, 'cls': h_cls},
        globals={'uuid.RFC_4122': Str('specified in RFC 4122')},
        registry_ext={'attrs': {('map', '_inner'): attr_inner, ('opaque', '_id_contributing_properties'): attr_locked, ('map', '__class__'): attr_class,
                                ('map', 'has_custom'): attr_has_custom},
                      'methods': {('.update', 'map'): rebinding(m_update)}},
        store_handler=store,
        comprehensions={'{k: v for k, v in new_obj_inner.items() if v is not None}': comp_filter_none,
                        "{k: v for k, v in new_obj_inner.items() if k in kwargs or k not in kwargs['custom_properties']}": comp_drop_shadowed},
        on_outcomes=new_version_outcomes,
        assumptions=['A(copy.deepcopy): returns an equal value sharing no mutable state [probed natively in C13]',
                     'callee contracts used: _check_versionable_object (returns the detected version or raises), parse_into_datetime (C15), _fudge_modified (proved here), the class constructor (C02; may refuse)',
                     'slice contract: the object is modelled as a map with the declared keys {revoked, modified, created, id, type, created_by_ref, name} plus an arbitrary set of other keys'],
        expr_hooks={'isinstance(kwargs.get("custom_properties"), Mapping)': lambda x, e, p: iter([(p, Bool(z3.And(kwargs.x['present']('custom_properties'), CP_IS_MAPPING)))]),
                    "isinstance(kwargs.get('custom_properties'), Mapping)": lambda x, e, p: iter([(p, Bool(z3.And(kwargs.x['present']('custom_properties'), CP_IS_MAPPING)))])},
        merge_set_branches=True, note='slice contract of DESIGN Appendix A.3')
    c.prune_quantifier_free = True
    return c


_j = z3.Int('j!lock')
LOCKED_ACTIVE = z3.Bool('locked_active')


def _isnone(v):
    if v.sort == 'none': return z3.BoolVal(True)
    if v.sort.startswith('opt:'): return v.t[0]
    return z3.BoolVal(False)


def same_value(a, b):
    if a is b: return z3.BoolVal(True)
    if a.sort == 'cond':
        op, ov, mv = a.x
        return z3.If(op, same_value(ov, b), same_value(mv, b))
    if a.sort.startswith('opt:') and b.sort == a.sort:
        return z3.And(a.t[0] == b.t[0], z3.Implies(z3.Not(a.t[0]), same_value(a.t[1], b.t[1])))
    if a.sort.startswith('opt:') and b.sort == a.sort[4:]: return z3.And(z3.Not(a.t[0]), same_value(a.t[1], b))
    if b.sort.startswith('opt:') and a.sort == b.sort[4:]: return z3.And(z3.Not(b.t[0]), same_value(a, b.t[1]))
    if a.sort == b.sort and a.sort in ('int', 'bool', 'str', 'dt'): return a.t == b.t
    return z3.BoolVal(False)


def expect_ctor(r):
    from vf.pyvc.contract import SortMismatch
    if r.sort != 'ctor': raise SortMismatch('result is not the constructor call: ' + r.sort)
    return r.x


def inv_unchangeable(x, env, i, it):
    """unchangable_properties == { seq[j] | j < i and seq[j] in kwargs }"""
    u = z3.Int('j!inv'); s = z3.String('s!inv')
    K = env['kwargs'].x['present']; un = env['unchangable_properties'].t
    sup = (lambda k: env['supplied_properties'].t[k]) if 'supplied_properties' in env and env['supplied_properties'].sort == 'set' else K
    return z3.ForAll([s], un[s] == z3.Exists([u], z3.And(0 <= u, u < i, it.t[0](u).t == s, sup(s))))


def new_version_outcomes(x, outs, add):
    """ordering obligations over the ghost record of the path: the modified time handed to the constructor is strictly later
    than the original's at the spec version's serialization precision; unmodifiable properties are refused"""
    a = x.params
    for idx, (kind, p, v) in enumerate(outs):
        K = a['kwargs'].x['present']; SUP = supplied(a)
        touched = z3.Or(*[SUP(k) for k in UNMOD])
        if kind == 'return':
            add(f'unmodifiable properties (type, id, created, created_by_ref) in the change set -- keyword arguments or custom_properties keys -- are refused @path{idx}', p.pc, z3.Not(touched), p.exact)
            if v.sort != 'ctor': continue
            m = v.x
            newm = m.x['value']('modified')
            if 'fudged' in p.ghost:
                args, res = p.ghost['fudged']
                old = args['old_modified'].t; u21 = args['use_stix21'].t
                add(f'clock path: the constructor receives the fudged time as modified @path{idx}', p.pc, z3.And(m.x['present']('modified'), same_value(newm, res)), p.exact)
                add(f'clock path: modified strictly later than the original at serialization precision, whatever the clock reads @path{idx}', p.pc,
                    z3.If(u21, res.t > old, res.t / 1000 > old / 1000), p.exact)
                raw_old = (args['old_modified'].x or {}).get('raw') if isinstance(args['old_modified'].x, dict) else None
                if raw_old is not None:      # ... and later than the instant the original actually carries (2.1 keeps microseconds: a bound truncated to the millisecond is not enough)
                    add(f'clock path: modified strictly later than the instant the original carries, at serialization precision @path{idx}', p.pc,
                        z3.If(u21, res.t > raw_old, res.t / 1000 > raw_old / 1000), p.exact)
            else:
                add(f'supplied modified path: caller gave modified @path{idx}', p.pc, K('modified'), p.exact)
        elif kind == 'raise' and v.name == 'UnmodifiablePropertyError':
            jj = z3.Int('j!post')
            add(f'UnmodifiablePropertyError only when the change set names an unmodifiable or identifier-contributing property @path{idx}', p.pc,
                z3.Or(touched, z3.Exists([jj], z3.And(0 <= jj, jj < NLOCKED, SUP(LOCKED(jj))))), p.exact)


# ------------------------------------------------------------------ revoke
def revoke_contract():
    data = mk_map('data', {'revoked': 'bool'})
    IS_MAPPING = z3.Bool('isinstance(data, Mapping)')

    def h_new_version(x, e, p, site):
        sig = real_sig(x.src_root, SRC, 'new_version')
        for p1, vs in x.ev_seq(list(e.args) + [k.value for k in e.keywords], p):
            if isinstance(vs, Exc):
                yield p1, vs; continue
            bound, errors = bind_actuals(sig, e, vs)
            kw = bound.get('**kwargs', {})
            ok = not errors and bound.get('data') is x.params['data'] and set(kw) == {'revoked'} and kw['revoked'].sort == 'bool' and z3.is_true(kw['revoked'].t)
            x.oblige('call(new_version): data forwarded, change set is exactly revoked=True', p1.pc, z3.BoolVal(bool(ok)), p1.exact, 'call-requires')
            for exn in ('RevokeError', 'UnmodifiablePropertyError', 'TypeNotVersionableError', 'ObjectNotVersionableError', 'InvalidValueError', 'ValueError'):
                yield p1.fork(), Exc(exn, site + ':callee')
            yield p1, Val('newver', x=bound)
    return Contract(f'{SRC}::revoke', props=['C05'],
                    params={'data': data},
                    ensures=[('result is new_version(data, revoked=True)', lambda a, r: z3.BoolVal(r.sort == 'newver'))],
                    raises={'ValueError': None, 'RevokeError': None, 'UnmodifiablePropertyError': None, 'TypeNotVersionableError': None, 'ObjectNotVersionableError': None, 'InvalidValueError': None},
                    handlers={'new_version': h_new_version, 'isinstance:Mapping': lambda x, v, p, site: iter([(p, Bool(IS_MAPPING))])},
                    on_outcomes=lambda x, outs, add: [add(f'already revoked => RevokeError, not a second revocation @path{i}', p.pc,
                                                          z3.Not(z3.And(IS_MAPPING, x.params['data'].x['present']('revoked'), x.params['data'].x['value']('revoked').t)), p.exact)
                                                      for i, (k, p, v) in enumerate(outs) if k == 'return'],
                    note='a revoked object cannot be revoked again')


def get_stix_version_contract():
    """_get_stix_version: an instance of one of the two version base classes gets that version; a dictionary gets what detect_spec_version says ("2.0"/"2.1", C14);
    None only for values that are neither"""
    IS_MAP = z3.Bool('isinstance(data, Mapping)'); IS20 = z3.Bool('isinstance(data, _STIXBase20)'); IS21 = z3.Bool('isinstance(data, _STIXBase21)'); IS_DICT = z3.Bool('isinstance(data, dict)')
    DET = z3.String('detect_spec_version(data)')

    def isinst(t):
        def h(x, v, p, site): yield p, Bool(t)
        return h

    def h_detect(x, e, p, site): yield p.fork(z3.Or(DET == z3.StringVal('2.0'), DET == z3.StringVal('2.1'))), Str(DET)

    def ens(a, r):
        if r.sort == 'none': return z3.Not(z3.And(IS_MAP, z3.Or(IS20, IS21, IS_DICT)))
        if r.sort == 'str': return z3.And(IS_MAP, z3.If(IS20, r.t == z3.StringVal('2.0'), z3.If(IS21, r.t == z3.StringVal('2.1'), z3.And(IS_DICT, r.t == DET))))
        if r.sort == 'opt:str': return z3.If(r.t[0], z3.Not(z3.And(IS_MAP, z3.Or(IS20, IS21, IS_DICT))),
                                             z3.And(IS_MAP, z3.If(IS20, r.t[1].t == z3.StringVal('2.0'), z3.If(IS21, r.t[1].t == z3.StringVal('2.1'), z3.And(IS_DICT, r.t[1].t == DET)))))
        from vf.pyvc.contract import SortMismatch
        raise SortMismatch('version result ' + r.sort)
    return Contract(f'{SRC}::_get_stix_version', props=['C05'], params={'data': Val('opaque', x='data')},
                    requires=[('library objects are mappings (class hierarchy)', lambda a: z3.Implies(z3.Or(IS20, IS21, IS_DICT), IS_MAP))],
                    ensures=[('version of the base class, else the detected version of a dictionary; None only for values that are neither', ens)], raises={},
                    handlers={'isinstance:Mapping': isinst(IS_MAP), 'isinstance:stix2.v20._STIXBase20': isinst(IS20), 'isinstance:stix2.v21._STIXBase21': isinst(IS21), 'isinstance:dict': isinst(IS_DICT),
                              'detect_spec_version': h_detect},
                    local_sorts={'stix_version': 'opt:str'},
                    assumptions=['callee contract used: detect_spec_version returns "2.0" or "2.1" (C14)'], note='the version new_version works with is never None for library objects and dictionaries')


def chain_lemmas():
    """strict increase along any chain of versions, from the per-step contract (transitivity)"""
    a, b, c = z3.Ints('m0 m1 m2')
    return [('chain 2.1: m0 < m1 and m1 < m2 => m0 < m2', z3.ForAll([a, b, c], z3.Implies(z3.And(a < b, b < c), a < c))),
            ('chain 2.0: strict at millisecond precision is transitive', z3.ForAll([a, b, c], z3.Implies(z3.And(a / 1000 < b / 1000, b / 1000 < c / 1000), a / 1000 < c / 1000))),
            ('2.0 step: strict at ms precision implies the truncated serializations differ and are ordered',
             z3.ForAll([a, b], z3.Implies(z3.And(a >= 0, b >= 0, b / 1000 > a / 1000), (b - b % 1000) > (a - a % 1000))))]
