"""C11 / C18: contracts for the memory version family, federated newest-version selection and de-duplication."""
import ast, os
import z3
from vf.pyvc import engine as E
from vf.pyvc.engine import Val, Exc, Unsupported, NONE, Int, Bool, Str, Rec, Opt, SetV, Seq, S, sat
from vf.pyvc.contract import Contract, expect
from vf.pyvc.lib import mk_map, map_val

IntSet = z3.ArraySort(z3.IntSort(), z3.BoolSort())


# ------------------------------------------------------------------ _ObjectFamily.add: representation invariant
def family_invariant(keys, latest_none, latest_mod):
    k = z3.Int('k!inv')
    return z3.And(latest_none == z3.Not(z3.Exists([k], keys[k])),
                  z3.Implies(z3.Not(latest_none), z3.And(keys[latest_mod], z3.ForAll([k], z3.Implies(keys[k], k <= latest_mod)))))


def object_family_add_contract():
    keys = z3.Const('self.all_versions.keys', IntSet)
    latest = mk_map('self.latest_version', {'modified': 'dt'}, open_keys=False)
    latest_none = z3.Bool('self.latest_version.isnone')
    obj = mk_map('obj', {'modified': 'dt'}, open_keys=True)
    self_ = Rec(all_versions=Val('dtdict', keys), latest_version=Opt(latest_none, latest))

    def store(x, tgt, v, q):
        # self.all_versions[obj["modified"]] = obj  : the key set gains that instant (the value stored is the object added)
        if ast.unparse(tgt.value) == 'self.all_versions':
            outs = list(x.ev(tgt.slice, q))
            if len(outs) != 1 or isinstance(outs[0][1], Exc) or outs[0][1].sort != 'dt': raise Unsupported('family key ' + ast.unparse(tgt.slice))
            kv = outs[0][1]
            me = q.env['self']; old = me.x['all_versions'].t
            q.env['self'] = Val('rec', x=dict(me.x, all_versions=Val('dtdict', z3.Store(old, kv.t, True), x={'last_value': v})))
        else: raise Unsupported('store ' + ast.unparse(tgt))

    def outcomes(x, outs, add):
        a = x.params; om = obj.x['value']('modified').t
        for i, (kind, p, v) in enumerate(outs):
            if kind != 'return': continue
            me = p.env['self']; nk = me.x['all_versions'].t; nl = me.x['latest_version']
            k = z3.Int('k!post')
            add(f'all_versions gains exactly the added version\'s modified time (nothing else changes) @path{i}', p.pc,
                z3.ForAll([k], nk[k] == z3.Or(keys[k], k == om)), p.exact)
            if nl.sort.startswith('opt:'): ln, lm = nl.t[0], nl.t[1].x['value']('modified').t
            elif nl.sort == 'map': ln, lm = z3.BoolVal(False), nl.x['value']('modified').t
            else:
                add(f'latest_version is an object @path{i}', p.pc, z3.BoolVal(False), p.exact); continue
            add(f'representation invariant preserved: latest_version carries the greatest modified time of all versions held @path{i}', p.pc, family_invariant(nk, ln, lm), p.exact)
            add(f'latest_version changes only to the added object, and only when that is strictly newer @path{i}', p.pc,
                z3.And(z3.Not(ln), lm == z3.If(z3.Or(latest_none, om > latest.x['value']('modified').t), om, latest.x['value']('modified').t)), p.exact)
    return Contract('stix2/datastore/memory.py::_ObjectFamily.add', props=['C11'],
                    params={'self': self_, 'obj': obj},
                    requires=[('representation invariant holds on entry', lambda a: family_invariant(keys, latest_none, latest.x['value']('modified').t)),
                              ('versioned objects carry modified', lambda a: z3.And(obj.x['present']('modified'), z3.Implies(z3.Not(latest_none), latest.x['present']('modified'))))],
                    raises={}, store_handler=store, on_outcomes=outcomes,
                    assumptions=['modified values of one family are mutually comparable instants (datetime objects); unregistered custom objects kept as dictionaries carry strings -- see known finding'],
                    note='stated over the whole key set, not the touched key')


# ------------------------------------------------------------------ CompositeDataSource.get: newest answer, independent of member order
ANS_MOD = z3.Function('answer.modified', z3.IntSort(), z3.IntSort())
NANS = z3.Int('n_answers')


def composite_get_contract():
    def answer(i):
        return map_val({'modified': z3.BoolVal(True)}, {'modified': Val('dt', ANS_MOD(i))}, E.EMPTY, {'modified': 'dt'})

    def inv(x, env, i, it):
        j = z3.Int('j!cg')
        so, lv = env['stix_obj'], env['latest_ver']
        so_none = so.t[0] if so.sort.startswith('opt:') else z3.BoolVal(so.sort == 'none')
        lv_t = lv.t[1].t if lv.sort.startswith('opt:') else (lv.t if lv.sort == 'dt' else z3.IntVal(0))
        lv_none = lv.t[0] if lv.sort.startswith('opt:') else z3.BoolVal(lv.sort == 'none')
        return z3.And(so_none == (i == 0), lv_none == (i == 0),
                      z3.Implies(i > 0, z3.And(z3.Exists([j], z3.And(0 <= j, j < i, ANS_MOD(j) == lv_t)), z3.ForAll([j], z3.Implies(z3.And(0 <= j, j < i), ANS_MOD(j) <= lv_t)),
                                               _obj_mod(so) == lv_t)))

    def _obj_mod(so):
        v = so.t[1] if so.sort.startswith('opt:') else so
        if v.sort == 'map' and 'value' in v.x: return v.x['value']('modified').t
        return z3.IntVal(-1)

    def ens(a, r):
        j = z3.Int('j!ens')
        none = r.t[0] if r.sort.startswith('opt:') else z3.BoolVal(r.sort == 'none')
        mod = _obj_mod(r)
        return z3.And(none == (NANS == 0),
                      z3.Implies(NANS > 0, z3.And(z3.Exists([j], z3.And(0 <= j, j < NANS, ANS_MOD(j) == mod)), z3.ForAll([j], z3.Implies(z3.And(0 <= j, j < NANS), ANS_MOD(j) <= mod)))))

    def opaque_ok(x, e, p, site):
        for p1, vs in x.ev_seq([a for a in e.args] + [k.value for k in e.keywords], p):
            yield p1, (vs if isinstance(vs, Exc) else Val('opaque', x='r'))

    def h_has_ds(x, e, p, site):
        yield p, Bool(z3.Bool('has_data_sources'))

    def m_add(x, recv, args, e, p, site): yield p, NONE
    c = Contract('stix2/datastore/__init__.py::CompositeDataSource.get', props=['C18'],
                    params={'self': 'opaque', 'stix_id': 'str', '_composite_filters': 'opaque'},
                    requires=[('answers', lambda a: NANS >= 0)],
                    ensures=[('result is an answer with the greatest modified time; None iff there are no answers (max is symmetric, so member order is irrelevant)', ens)],
                    raises={'AttributeError': None}, ignore_unknown_exceptions=True,
                    handlers={'self.has_data_sources': h_has_ds, 'FilterSet': opaque_ok, 'all_filters.add': opaque_ok, 'ds.get': opaque_ok, 'all_data.append': opaque_ok},
                    loops={0: {'kind': 'inv', 'inv': lambda x, env, i, it: z3.BoolVal(True)}, 1: {'kind': 'inv', 'inv': inv}},
                    local_sorts={'stix_obj': 'opt:map', 'latest_ver': 'opt:dt'},
                    havoc={'all_data': lambda v: Seq(answer, NANS),
                           'stix_obj': lambda v: Opt(z3.FreshConst(z3.BoolSort(), 'so.none'), map_val({'modified': z3.BoolVal(True)}, {'modified': Val('dt', z3.FreshConst(z3.IntSort(), 'so.mod'))}, E.EMPTY, {'modified': 'dt'})),
                           'latest_ver': lambda v: Opt(z3.FreshConst(z3.BoolSort(), 'lv.none'), Val('dt', z3.FreshConst(z3.IntSort(), 'lv')))},
                    assumptions=['answers are versioned objects whose modified values are mutually comparable; the member loop (ds.get + append) is abstracted: after it all_data is an arbitrary sequence of answers'],
                    note='selection loop of get()')
    c.exact_opaque_iteration = True      # the member list is an arbitrary input: its length is universally quantified, the loop body is abstracted by the declared havoc
    return c


def order_independence_lemma():
    """max over a multiset is invariant under permutation: stated for the pair case + by the contract for n (result determined by the answer *set*)"""
    a, b = z3.Ints('a b')
    mx = lambda x, y: z3.If(x >= y, x, y)
    return [('newest-of-two is symmetric', z3.ForAll([a, b], mx(a, b) == mx(b, a))),
            ('newest is associative (any attachment order gives the same newest version)', z3.ForAll([a, b, z3.Int('c')], mx(mx(a, b), z3.Int('c')) == mx(a, mx(b, z3.Int('c')))))]


# ------------------------------------------------------------------ utils.deduplicate
OB_ID = z3.Function('obj.id', z3.IntSort(), S); OB_MOD = z3.Function('obj.modified', z3.IntSort(), z3.IntSort())
OB_HASMOD = z3.Function('obj.has_modified', z3.IntSort(), z3.BoolSort()); OB_CRE = z3.Function('obj.created', z3.IntSort(), z3.IntSort())
OB_HASCRE = z3.Function('obj.has_created', z3.IntSort(), z3.BoolSort())
NOBJ = z3.Int('n_objs')
KeyS, mkKey, (key_id, key_hasver, key_ver) = z3.TupleSort('DedupKey', [S, z3.BoolSort(), z3.IntSort()])
KeySet = z3.ArraySort(KeyS, z3.BoolSort())


def spec_key(i):
    hasver = z3.Or(OB_HASMOD(i), OB_HASCRE(i))
    ver = z3.If(OB_HASMOD(i), OB_MOD(i), OB_CRE(i))
    return mkKey(OB_ID(i), hasver, z3.If(hasver, ver, 0))


def deduplicate_contract():
    def obj(i):
        return map_val({'id': z3.BoolVal(True), 'modified': OB_HASMOD(i), 'created': OB_HASCRE(i)},
                       {'id': Str(OB_ID(i)), 'modified': Val('dt', OB_MOD(i)), 'created': Val('dt', OB_CRE(i))}, E.EMPTY, {'id': 'str', 'modified': 'dt', 'created': 'dt'})

    def store(x, tgt, v, q):
        if not (isinstance(tgt.value, ast.Name) and tgt.value.id == 'unique_objs'): raise Unsupported('store ' + ast.unparse(tgt))
        outs = list(x.ev(tgt.slice, q))
        if len(outs) != 1 or isinstance(outs[0][1], Exc): raise Unsupported('dedup key')
        kv = outs[0][1]
        if kv.sort == 'str': k = mkKey(kv.t, z3.BoolVal(False), z3.IntVal(0))
        elif kv.sort == 'tuple' and len(kv.x) == 2 and kv.x[0].sort == 'str':
            ver = kv.x[1]
            if ver.sort == 'dt': k = mkKey(kv.x[0].t, z3.BoolVal(True), ver.t)
            elif ver.sort == 'opt:dt': k = mkKey(kv.x[0].t, z3.Not(ver.t[0]), ver.t[1].t)
            else: raise Unsupported('dedup version sort ' + ver.sort)
        else: raise Unsupported('dedup key sort ' + kv.sort)
        d = q.env['unique_objs']
        q.env['unique_objs'] = Val('keydict', z3.Store(d.t, k, True))

    def ev_empty_dict(x, e, p): yield p, Val('keydict', z3.K(KeyS, False))

    def inv(x, env, i, it):
        kk = z3.Const('kk!inv', KeyS); j = z3.Int('j!dd')
        return z3.ForAll([kk], env['unique_objs'].t[kk] == z3.Exists([j], z3.And(0 <= j, j < i, spec_key(j) == kk)))

    def h_list(x, e, p, site):
        for p1, vs in x.ev_seq(list(e.args), p):
            yield p1, (vs if isinstance(vs, Exc) else vs[0])

    def m_values(x, recv, args, e, p, site): yield p, Val('keydict.values', recv.t)

    def ens(a, r):
        kk = z3.Const('kk!ens', KeyS); j = z3.Int('j!ens')
        if r.sort != 'keydict.values': return z3.BoolVal(False)
        return z3.ForAll([kk], r.t[kk] == z3.Exists([j], z3.And(0 <= j, j < NOBJ, spec_key(j) == kk)))
    return Contract('stix2/utils.py::deduplicate', props=['C18', 'C11'],
                    params={'stix_obj_list': Seq(obj, NOBJ)},
                    requires=[('objects carry id; timestamps are truthy when present', lambda a: NOBJ >= 0)],
                    ensures=[('result holds exactly one entry per distinct (id, modified-or-created) of the input', ens)],
                    raises={}, store_handler=store, expr_hooks={'{}': ev_empty_dict}, loops={0: {'kind': 'inv', 'inv': inv}},
                    handlers={'list': h_list}, registry_ext={'methods': {('.values', 'keydict'): m_values}},
                    havoc={'unique_objs': lambda v: Val('keydict', z3.FreshConst(KeySet, 'uo'))},
                    note='a dict keyed by the version key: keys of the result == image of the input under the key function, each once (dict keys are unique)')


# ------------------------------------------------------------------ DataSource.relationships: exactly what a scan of the stored relationship objects implies (C18), given
# the contract of query() (C12: exactly the stored objects satisfying every filter).  Objects are abstracted to identities (strings); their four relevant properties are
# uninterpreted functions of the identity; the store is an arbitrary set of identities.
STORED = z3.Const('stored', E.SetS)
PROP = {p: z3.Function('prop.' + p, E.S, E.S) for p in ('type', 'relationship_type', 'source_ref', 'target_ref')}


def relationships_contract(variant):
    """variant 'object': `obj` is a mapping with an id; 'id': `obj` is the identifier itself (obj['id'] raises TypeError, which the function turns into "use obj")"""
    from vf.pyvc.lib import rebinding, mk_map
    obj = mk_map('obj', {'id': 'str'}, open_keys=True) if variant == 'object' else Str(z3.String('obj'))
    oid = (lambda a: a['obj'].x['value']('id').t) if variant == 'object' else (lambda a: a['obj'].t)

    def h_filter(x, e, p, site):
        for p1, vs in x.ev_seq(list(e.args), p):
            if isinstance(vs, Exc): yield p1, vs; continue
            pr, op, v = vs
            if not (pr.sort == 'str' and z3.is_string_value(pr.t) and op.sort == 'str' and z3.is_string_value(op.t) and op.t.as_string() == '=' and pr.t.as_string() in PROP):
                raise Unsupported(site + ' filter outside the four equality filters of the query contract')
            v1 = v if v.sort == 'str' else (v.t[1] if v.sort == 'opt:str' else None)
            if v1 is None: raise Unsupported(site + ' filter value sort ' + v.sort)
            yield p1, Val('filter', x=(pr.t.as_string(), v1.t))

    def h_query(x, e, p, site):
        """callee contract of self.query (C12): exactly the stored objects for which every filter holds"""
        for p1, vs in x.ev_seq(list(e.args), p):
            if isinstance(vs, Exc): yield p1, vs; continue
            fl = vs[0]
            if fl.sort != 'litlist' or any(f.sort != 'filter' for f in fl.x): raise Unsupported(site + ' query argument is not a list of filters')
            u = z3.FreshConst(E.S, 'u')
            yield p1, SetV(z3.Lambda([u], z3.And(STORED[u], *[PROP[pn](u) == val for pn, val in (f.x for f in fl.x)])))

    def list_add(x, a, b, p, site): yield p, Val('litlist', x=list(a.x) + list(b.x))

    def m_append(x, recv, args, p): return Val('litlist', x=list(recv.x) + [args[0]])

    def m_extend(x, recv, args, p):
        if args[0].sort != 'set': raise Unsupported('extend with ' + args[0].sort)
        if recv.sort == 'litlist':
            if recv.x: raise Unsupported('extend of a non-empty literal list')
            return args[0]
        u = z3.FreshConst(E.S, 'u')
        return SetV(z3.Lambda([u], z3.Or(recv.t[u], args[0].t[u])))

    def subscript_id(x, e, p):
        # obj['id'] on an identifier string: TypeError (string indices must be integers) -- the function's own way of telling ids from objects
        yield p, Exc('TypeError', 'obj[id]')

    def spec(a, r):
        u = z3.FreshConst(E.S, 'u'); rt = a['relationship_type']
        rt_ok = z3.Or(rt.t[0], z3.Length(rt.t[1].t) == 0, PROP['relationship_type'](u) == rt.t[1].t)
        side = z3.Or(z3.And(z3.Not(a['target_only'].t), PROP['source_ref'](u) == oid(a)), z3.And(z3.Not(a['source_only'].t), PROP['target_ref'](u) == oid(a)))
        got = r.t if r.sort == 'set' else (E.EMPTY if r.sort == 'litlist' and not r.x else None)
        if got is None: return z3.BoolVal(False)
        return z3.ForAll([u], got[u] == z3.And(STORED[u], PROP['type'](u) == z3.StringVal('relationship'), rt_ok, side))
    return Contract('stix2/datastore/__init__.py::DataSource.relationships', props=['C18'], note=f'obj given as {variant}',
                    params={'self': 'opaque', 'obj': obj, 'relationship_type': 'opt:str', 'source_only': 'bool', 'target_only': 'bool'},
                    ensures=[('the result is exactly the stored relationship objects of the requested type in which the object is source (unless target_only) or target (unless source_only)', spec)],
                    raises={'ValueError': (lambda a: z3.Or(z3.And(a['source_only'].t, a['target_only'].t), z3.Not(a['obj'].x['present']('id')))) if variant == 'object'
                            else (lambda a: z3.And(a['source_only'].t, a['target_only'].t))},
                    handlers={'Filter': h_filter, 'self.query': h_query},
                    registry_ext={'binops': {('litlist', 'Add', 'litlist'): list_add},
                                  'methods': {('.append', 'litlist'): rebinding(m_append), ('.extend', 'litlist'): rebinding(m_extend), ('.extend', 'set'): rebinding(m_extend)}},
                    expr_hooks=({"obj['id']": subscript_id} if variant == 'id' else {}),
                    assumptions=['callee contract of self.query (property C12): exactly the stored objects satisfying every filter; objects abstracted to identities, results to sets of identities '
                                 '(each stored (id, version) is one identity: nothing is said about order or repetition of the returned list)'])


# ------------------------------------------------------------------ CompositeDataSource.all_versions / query: every member is asked, with the composite's own filters and the
# ones handed down, and the answer is the union of the members' answers (C18: "filters attached to the composite apply to every member", "de-duplicated union").
SELF_F = z3.Const('self.filters.view', E.SetS); DOWN_F = z3.Const('_composite_filters.view', E.SetS); DOWN_NONE = z3.Bool('_composite_filters.isnone')
MEMBER_ANS = z3.Function('member.answer', z3.IntSort(), E.SetS)        # what member i answers (identities of (id, version) objects) when asked with the filters it is given
N_MEMBERS = z3.Int('n_members')


def composite_federation_contract(method):
    """method: 'all_versions' | 'query'"""
    from vf.pyvc.lib import rebinding
    down = Val('opt:set', (DOWN_NONE, SetV(DOWN_F)))
    members = Seq(lambda i: Val('member', i), N_MEMBERS)
    u0 = z3.FreshConst(E.S, 'u')
    down_nonempty = z3.Exists([u0], DOWN_F[u0])

    def h_filterset(x, e, p, site):
        if e.args or e.keywords: raise Unsupported(site + ' FilterSet with arguments')
        yield p, Val('set', E.EMPTY, x={'nonempty': z3.BoolVal(False)})

    def m_fs_add(x, recv, args, p):
        """callee contract of FilterSet.add (proved in contracts/filters.py): view' = view | view(argument)"""
        a = args[0]; u = z3.FreshConst(E.S, 'u')
        if a.sort == 'opt:set':          # add(None) adds nothing (FilterSet.add returns at once for a falsy argument)
            return SetV(z3.Lambda([u], z3.Or(recv.t[u], z3.And(z3.Not(a.t[0]), a.t[1].t[u]))))
        if a.sort != 'set': raise Unsupported('FilterSet.add of ' + a.sort)
        return SetV(z3.Lambda([u], z3.Or(recv.t[u], a.t[u])))

    def m_member_call(x, recv, args, e, p, site):
        kws = {k.arg: k.value for k in e.keywords}
        if args or set(kws) - {'stix_id', 'query', '_composite_filters'}: raise Unsupported(site + ' member call shape')
        if '_composite_filters' not in kws:
            x.oblige('call(member): the composite\'s filters are handed to the member', p.pc, z3.BoolVal(False), p.exact, 'call-requires'); cf = None
        else:
            outs = list(x.ev(kws['_composite_filters'], p))
            if len(outs) != 1 or isinstance(outs[0][1], Exc) or outs[0][1].sort not in ('set', 'opt:set', 'none'): raise Unsupported(site + ' _composite_filters argument')
            u = z3.FreshConst(E.S, 'u'); v_ = outs[0][1]
            if v_.sort == 'set': cf = v_.t
            elif v_.sort == 'none': cf = E.EMPTY
            else: cf = z3.Lambda([u], z3.And(z3.Not(v_.t[0]), v_.t[1].t[u]))          # None or a FilterSet: None hands down nothing
            x.oblige('call(member): the filters handed to the member include every filter attached to the composite and every filter handed down to it', p.pc,
                     z3.ForAll([u], z3.Implies(z3.Or(SELF_F[u], z3.And(z3.Not(DOWN_NONE), DOWN_F[u])), cf[u])), p.exact, 'call-requires')
            x.oblige('call(member): nothing but those filters is added', p.pc, z3.ForAll([u], z3.Implies(cf[u], z3.Or(SELF_F[u], z3.And(z3.Not(DOWN_NONE), DOWN_F[u])))), p.exact, 'call-requires')
        for name in ('stix_id', 'query'):
            if name in kws and ast.unparse(kws[name]) != name and not (name == 'query' and ast.unparse(kws[name]) in ('query',)):
                x.oblige(f'call(member): the caller\'s own `{name}` is forwarded', p.pc, z3.BoolVal(False), p.exact, 'call-requires')
        if method == 'get': yield p, Val('opaque', x='answer'); return
        yield p, SetV(MEMBER_ANS(recv.t))

    def m_append_answer(x, recv, args, p): return Val('opaque', x="all_data'")          # (get: the selection among the answers is the business of composite_get_contract)

    def m_extend(x, recv, args, p):
        if args[0].sort != 'set': raise Unsupported('extend with ' + args[0].sort)
        base = E.EMPTY if recv.sort == 'litlist' and not recv.x else recv.t
        if base is None: raise Unsupported('extend of a non-empty literal list')
        u = z3.FreshConst(E.S, 'u')
        return SetV(z3.Lambda([u], z3.Or(base[u], args[0].t[u])))

    def h_len(x, e, p, site):
        for p1, vs in x.ev_seq(list(e.args), p):
            if isinstance(vs, Exc): yield p1, vs
            elif vs[0].sort == 'set':
                n = z3.FreshConst(z3.IntSort(), 'len'); u = z3.FreshConst(E.S, 'u')
                yield p1.fork(n >= 0, (n > 0) == z3.Exists([u], vs[0].t[u])), Int(n)
            elif vs[0].sort == 'litlist': yield p1, Int(len(vs[0].x))
            else: raise Unsupported(site + ' len of ' + vs[0].sort)

    def h_dedup(x, e, p, site):
        """callee contract of utils.deduplicate (proved in this file): the same set of (id, version) identities, each once"""
        for p1, vs in x.ev_seq(list(e.args), p):
            yield p1, (vs if isinstance(vs, Exc) else vs[0])

    def h_has(x, e, p, site): yield p, Bool(N_MEMBERS > 0)

    def attr_ds(x, o, p, site): yield p, members

    def attr_filters(x, o, p, site): yield p, SetV(SELF_F)

    def inv(x, env, i, it):
        s = z3.String('s!fed'); j = z3.Int('j!fed')
        ad = env['all_data']
        view = E.EMPTY if ad.sort == 'litlist' and not ad.x else ad.t
        return z3.ForAll([s], view[s] == z3.Exists([j], z3.And(0 <= j, j < i, MEMBER_ANS(j)[s])))

    def ens(a, r):
        s = z3.String('s!ens'); j = z3.Int('j!ens')
        view = E.EMPTY if r.sort == 'litlist' and not r.x else (r.t if r.sort == 'set' else None)
        if view is None: return z3.BoolVal(False)
        return z3.ForAll([s], view[s] == z3.Exists([j], z3.And(0 <= j, j < N_MEMBERS, MEMBER_ANS(j)[s])))
    params = {'self': Val('composite', x={}), '_composite_filters': down}
    params['query' if method == 'query' else 'stix_id'] = 'opaque' if method == 'query' else 'str'
    is_get = method == 'get'
    c = Contract(f'stix2/datastore/__init__.py::CompositeDataSource.{method}', props=['C18', 'C12'], params=params,
                 requires=[('members', lambda a: N_MEMBERS >= 0)],
                 ensures=[] if is_get else [('the answer is the union of what the members answer (each distinct (id, version) once)', ens)],
                 raises={'AttributeError': (None if is_get else (lambda a: N_MEMBERS == 0))},
                 cut=(lambda st: isinstance(st, ast.Assign) and ast.unparse(st).startswith('stix_obj = latest_ver')) if is_get else None,
                 note='forwarding slice: up to the selection among the answers' if is_get else '',
                 handlers={'self.has_data_sources': h_has, 'FilterSet': h_filterset, 'deduplicate': h_dedup, 'len': h_len},
                 registry_ext={'attrs': {('composite', 'data_sources'): attr_ds, ('composite', 'filters'): attr_filters},
                               'methods': {('.add', 'set'): rebinding(m_fs_add), ('.extend', 'litlist'): rebinding(m_extend), ('.extend', 'set'): rebinding(m_extend),
                                           ('.append', 'litlist'): rebinding(m_append_answer), ('.append', 'opaque'): rebinding(m_append_answer), ('.append', 'set'): rebinding(m_append_answer),
                                           ('.' + method, 'member'): m_member_call}},
                 loops={0: {'kind': 'inv', 'inv': (lambda x, env, i, it: z3.BoolVal(True)) if is_get else inv}},
                 havoc={'all_data': lambda v: SetV(z3.FreshConst(E.SetS, 'all_data')), 'data': lambda v: SetV(z3.FreshConst(E.SetS, 'data'))},
                 assumptions=['callee contracts: FilterSet.add (proved: view after == view before | argument), deduplicate (proved: same set of (id, version) identities), the members\' own '
                              f'{method} (an arbitrary answer per member); a FilterSet is abstracted to the set of its filters, answers to sets of (id, version) identities'])
    return c


# ------------------------------------------------------------------ DataSource.related_to: on top of relationships() and query(), both under contract
RELS = z3.Const('relationships.result', E.SetS)                   # what self.relationships(...) returns (identities of relationship objects)
EXTRA = z3.Const('filters.view', E.SetS)                          # the caller's additional filters (identities)
SATALL = z3.Function('satisfies_all', E.SetS, E.S, z3.BoolSort())  # object u satisfies every filter of the set (the meaning of a conjunction of filters, C12)
_viewctr = [0]


def related_to_contract(variant):
    from vf.pyvc.lib import rebinding, mk_map, real_sig, bind_actuals
    obj = mk_map('obj', {'id': 'str'}, open_keys=True) if variant == 'object' else Str(z3.String('obj'))
    oid = (lambda a: a['obj'].x['value']('id').t) if variant == 'object' else (lambda a: a['obj'].t)

    def set_as_seq(x, it, p, site):
        """iterating over a set: some enumeration of exactly its members"""
        _viewctr[0] += 1
        el = z3.Function(f'enum!{_viewctr[0]}', z3.IntSort(), E.S); n = z3.Int(f'n_enum!{_viewctr[0]}')
        s = z3.String(f's!en{_viewctr[0]}'); j = z3.Int(f'j!en{_viewctr[0]}')
        q = p.fork(n >= 0, z3.ForAll([s], it.t[s] == z3.Exists([j], z3.And(0 <= j, j < n, el(j) == s))))
        yield q, Seq(lambda i: Val('relobj' if it.x and it.x.get('of') == 'rels' else 'str', el(i)), n, of_set=it.t)

    def h_relationships(x, e, p, site):
        sig = real_sig(x.src_root, 'stix2/datastore/__init__.py', 'DataSource.relationships')
        for p1, vs in x.ev_seq(list(e.args) + [k.value for k in e.keywords], p):
            if isinstance(vs, Exc): yield p1, vs; continue
            bound, errors = bind_actuals(sig, e, vs, skip_self=True)
            ok = not errors
            for formal in ('obj', 'relationship_type', 'source_only', 'target_only'):
                ok = ok and bound.get(formal) is x.params.get(formal)
            x.oblige('call(self.relationships): the caller\'s obj, relationship_type, source_only, target_only are forwarded to the formals of the same name (real signature)', p1.pc, z3.BoolVal(bool(ok)), p1.exact, 'call-requires')
            yield p1.fork(), Exc('ValueError', site)                # (both flags set / no id: the callee's refusal passes through)
            yield p1, Val('set', RELS, x={'of': 'rels'})

    def attr_ref(name):
        def h(x, o, p, site): yield p, Str(PROP[name](o.t))
        return h

    def m_update(x, recv, args, p):
        a = args[0]
        if a.sort != 'tuple' or any(i.sort != 'str' for i in a.x): raise Unsupported('ids.update argument')
        u = z3.FreshConst(E.S, 'u')
        return SetV(z3.Lambda([u], z3.Or(recv.t[u], *[u == i.t for i in a.x])))

    def m_discard(x, recv, args, p):
        u = z3.FreshConst(E.S, 'u')
        return SetV(z3.Lambda([u], z3.And(recv.t[u], u != args[0].t)))

    def h_set(x, e, p, site):
        if e.args: raise Unsupported(site + ' set(...) with arguments')
        yield p, SetV(E.EMPTY)

    def h_filterset(x, e, p, site):
        if len(e.args) != 1 or ast.unparse(e.args[0]) != 'filters': raise Unsupported(site + ' FilterSet(...) of something else than the caller\'s filters')
        yield p, Val('fset', EXTRA)           # callee contract of FilterSet(filters) / FilterSet.add: the view is exactly the filters handed in

    def comp_all(x, e, p):
        yield p, Val('fseq', p.env['filter_list'].t)

    def fseq_add(x, a, b, p, site):
        if b.sort != 'litlist' or len(b.x) != 1 or b.x[0].sort != 'filter' or b.x[0].x[0] != 'id': raise Unsupported(site + ' query filters shape')
        yield p, Val('qfilters', x=(a.t, b.x[0].x[1]))

    def h_filter(x, e, p, site):
        for p1, vs in x.ev_seq(list(e.args), p):
            if isinstance(vs, Exc): yield p1, vs; continue
            pr, op, v = vs
            if not (z3.is_string_value(pr.t) and pr.t.as_string() == 'id' and z3.is_string_value(op.t) and op.t.as_string() == '=' and v.sort == 'str'): raise Unsupported(site + ' filter')
            yield p1, Val('filter', x=('id', v.t))

    def h_query(x, e, p, site):
        for p1, vs in x.ev_seq(list(e.args), p):
            if isinstance(vs, Exc): yield p1, vs; continue
            if vs[0].sort != 'qfilters': raise Unsupported(site + ' query argument')
            fl, idv = vs[0].x; u = z3.FreshConst(E.S, 'u')
            yield p1, SetV(z3.Lambda([u], z3.And(STORED[u], SATALL(fl, u), PROP_ID(u) == idv)))

    def m_extend(x, recv, args, p):
        if args[0].sort != 'set': raise Unsupported('extend with ' + args[0].sort)
        base = E.EMPTY if recv.sort == 'litlist' and not recv.x else recv.t
        if base is None: raise Unsupported('extend of a non-empty literal list')
        u = z3.FreshConst(E.S, 'u')
        return SetV(z3.Lambda([u], z3.Or(base[u], args[0].t[u])))

    def inv_ids(x, env, i, it):
        s = z3.String('s!ids'); j = z3.Int('j!ids')
        rr = z3.String('r!ids')
        indexed = z3.ForAll([s], env['ids'].t[s] == z3.Exists([j], z3.And(0 <= j, j < i, z3.Or(PROP['source_ref'](it.t[0](j).t) == s, PROP['target_ref'](it.t[0](j).t) == s))))
        # at the end of the enumeration the index-free form holds (what the rest of the function needs; proved here, where only one enumeration is in play)
        closed = z3.ForAll([s], env['ids'].t[s] == z3.Exists([rr], z3.And(it.x['of_set'][rr], z3.Or(PROP['source_ref'](rr) == s, PROP['target_ref'](rr) == s))))
        return z3.And(indexed, z3.Implies(i == it.t[1], closed))

    def inv_res(x, env, i, it):
        s = z3.String('s!res'); j = z3.Int('j!res')
        r = env['results']; view = E.EMPTY if r.sort == 'litlist' and not r.x else r.t
        indexed = z3.ForAll([s], view[s] == z3.And(STORED[s], SATALL(EXTRA, s), z3.Exists([j], z3.And(0 <= j, j < i, it.t[0](j).t == PROP_ID(s)))))
        closed = z3.ForAll([s], view[s] == z3.And(STORED[s], SATALL(EXTRA, s), it.x['of_set'][PROP_ID(s)]))
        return z3.And(indexed, z3.Implies(i == it.t[1], closed))

    def subscript_id(x, e, p): yield p, Exc('TypeError', 'obj[id]')

    def ens(a, r):
        s = z3.String('s!ens'); rr = z3.String('r!ens')
        view = E.EMPTY if r.sort == 'litlist' and not r.x else (r.t if r.sort == 'set' else None)
        if view is None: return z3.BoolVal(False)
        linked = z3.Exists([rr], z3.And(RELS[rr], z3.Or(PROP['source_ref'](rr) == PROP_ID(s), PROP['target_ref'](rr) == PROP_ID(s))))
        return z3.ForAll([s], view[s] == z3.And(STORED[s], SATALL(EXTRA, s), PROP_ID(s) != oid(a), linked))
    return Contract('stix2/datastore/__init__.py::DataSource.related_to', props=['C18'], note=f'obj given as {variant}',
                    params={'self': 'opaque', 'obj': obj, 'relationship_type': 'opt:str', 'source_only': 'bool', 'target_only': 'bool', 'filters': 'opaque'},
                    requires=[('the object has an id', lambda a: a['obj'].x['present']('id'))] if variant == 'object' else [],
                    ensures=[('exactly the stored objects, other than the object itself, that satisfy the extra filters and are the other end of one of its relationships', ens)],
                    raises={'ValueError': None},
                    handlers={'self.relationships': h_relationships, 'set': h_set, 'FilterSet': h_filterset, 'Filter': h_filter, 'self.query': h_query},
                    comprehensions={'[f for f in filter_list]': comp_all},
                    registry_ext={'iterables': {'set': set_as_seq}, 'attrs': {('relobj', 'source_ref'): attr_ref('source_ref'), ('relobj', 'target_ref'): attr_ref('target_ref')},
                                  'methods': {('.update', 'set'): rebinding(m_update), ('.discard', 'set'): rebinding(m_discard), ('.extend', 'litlist'): rebinding(m_extend), ('.extend', 'set'): rebinding(m_extend)},
                                  'binops': {('fseq', 'Add', 'litlist'): fseq_add}},
                    loops={0: {'kind': 'inv', 'inv': inv_ids}, 1: {'kind': 'inv', 'inv': inv_res}},
                    havoc={'ids': lambda v: SetV(z3.FreshConst(E.SetS, 'ids')), 'results': lambda v: SetV(z3.FreshConst(E.SetS, 'results'))},
                    expr_hooks=({"obj['id']": subscript_id} if variant == 'id' else {}),
                    assumptions=['callee contracts of related_to: self.relationships (proved separately: exactly the scan), self.query (C12: exactly the stored objects satisfying every filter), '
                                 'FilterSet(filters) (view == the filters handed in); objects abstracted to identities, every stored (id, version) being one identity'])


PROP_ID = z3.Function('prop.id', E.S, E.S)


# ------------------------------------------------------------------ filesystem._timestamp2filename: distinct serialized instants get distinct file names (C11: "no addition silently
# replaces or loses a different version")
def filename_obligations(chk, src_root):
    """The function is `format_datetime` (proved in C15: 4-2-2T2:2:2 civil fields of the UTC instant, then '.' and the fraction digits the precision asks for, then 'Z') followed by
    the removal of a set of separator characters.  Call-site obligations (syntactic, re-read from the source): the text comes from format_datetime of the argument, the removed
    class holds every separator the format uses and no digit.  Lemma (z3, one case per fraction length): a 14-digit prefix followed by a fraction of known length decomposes
    uniquely, so equal names mean equal civil second and equal fraction digits -- hence equal serialized instants (civil calendar fields are a bijection on seconds: assumed)."""
    import re as _re
    from vf.pyvc.contract import Obligation
    rel = 'stix2/datastore/filesystem.py'

    def ob(name, verdict, detail=''):
        o = Obligation('datastore.filesystem._timestamp2filename', name, 'call-requires', [], z3.BoolVal(bool(verdict)), True)
        o.result = 'discharged' if verdict else ('undecided' if verdict is None else 'failed'); o.backend = 'trivial'; o.detail = detail
        chk.lemmas.append(o)
        if verdict is None: chk.undecided_notes.append(f'_timestamp2filename: obligation not decidable on the current source: {name} {detail}')
        elif not verdict: chk.violation('datastore.filesystem._timestamp2filename#' + name.split(':')[0], f'call-site obligation fails: {name} {detail}', {'obligation': name}, no_input=True)
    try:
        tree = ast.parse(open(os.path.join(src_root, rel)).read()); fn = E.find_def(tree, '_timestamp2filename')
    except (Unsupported, OSError) as u:
        chk.undecided_notes.append(f'_timestamp2filename: {u}'); return
    calls = [c for c in ast.walk(fn) if isinstance(c, ast.Call)]
    fmt = [c for c in calls if ast.unparse(c.func).split('.')[-1] == 'format_datetime']
    ob('the name is derived from format_datetime(<the timestamp>)', True if (len(fmt) == 1 and len(fmt[0].args) == 1 and not fmt[0].keywords) else None, f'{[ast.unparse(c) for c in fmt]}')
    subs = [c for c in calls if ast.unparse(c.func) == 're.sub' and len(c.args) == 3 and isinstance(c.args[0], ast.Constant) and isinstance(c.args[1], ast.Constant)]
    if len(subs) != 1: ob('separators are removed by one re.sub with literal pattern and replacement', None, f'{len(subs)} candidates')
    else:
        pat, repl = subs[0].args[0].value, subs[0].args[1].value
        try: rx = _re.compile(pat)
        except _re.error: rx = None
        removed = {chr(c) for c in range(128) if rx is not None and rx.fullmatch(chr(c))}
        ob('the removed characters are replaced by nothing, include every separator of the timestamp format (- T : . Z) and no digit',
           repl == '' and {'-', 'T', ':', '.', 'Z'} <= removed and not (removed & set('0123456789')), f'pattern {pat!r} removes {sorted(removed)}, replacement {repl!r}')
    # unique decomposition: name = prefix (exactly 14 digits) ++ fraction digits (0..6 of them, value v < 10^len); two names are equal strings iff they have the same length and value
    p1, p2, v1, v2 = z3.Ints('prefix1 prefix2 frac1 frac2')
    for l1 in range(7):
        for l2 in range(7):
            dom = z3.And(p1 >= 0, p1 < 10**14, p2 >= 0, p2 < 10**14, v1 >= 0, v1 < 10**l1, v2 >= 0, v2 < 10**l2)
            same_text = z3.And(z3.BoolVal(l1 == l2), p1 * 10**l1 + v1 == p2 * 10**l2 + v2)        # equal length (14 + len) and equal digits
            if l1 != l2: continue          # different lengths: different texts, nothing to show
            chk.lemma(f'file name: 14-digit prefix + {l1} fraction digits decomposes uniquely (equal names => equal second and equal fraction)',
                      z3.ForAll([p1, p2, v1, v2], z3.Implies(z3.And(dom, same_text), z3.And(p1 == p2, v1 == v2))))
    # fraction digits are the microsecond value without trailing zeros: (value, length) determines the microseconds
    f1, f2, a, b = z3.Ints('us1 us2 a b')
    for ln in range(7):
        chk.lemma(f'file name: {ln} fraction digits without trailing zeros determine the microseconds',
                  z3.ForAll([f1, f2, a], z3.Implies(z3.And(0 <= f1, f1 < 10**6, 0 <= f2, f2 < 10**6, f1 == a * 10**(6 - ln), f2 == a * 10**(6 - ln)), f1 == f2)))
    chk.assume('civil calendar fields (year..second) of the UTC instant are a bijection on whole seconds for years 0001-9999; format_datetime as proved in C15 (years are written with four digits)')


# ------------------------------------------------------------------ MemorySource.query: exactly the stored objects satisfying the query, the source's own filters and the handed-down
# ones; the caller's query object is never written to (C12: "filters attached to a source apply to every one of its answers"; C13: arguments stay what they were)
Q_VIEW = z3.Const('query.view', E.SetS); Q_NONE = z3.Bool('query.isnone')


def memory_query_contract():
    from vf.pyvc.lib import rebinding
    qparam = Val('opt:set', (Q_NONE, Val('set', Q_VIEW, x={'param': 'query'})))
    down = Val('opt:set', (DOWN_NONE, Val('set', DOWN_F, x={'param': '_composite_filters'})))

    def nonempty(t):
        u = z3.FreshConst(E.S, 'u'); return z3.Exists([u], t[u])

    def h_filterset(x, e, p, site):
        """callee contract of FilterSet(filters) (FilterSet.add proved): a NEW object whose view is the argument's (empty for None)"""
        if len(e.args) != 1 or e.keywords: raise Unsupported(site + ' FilterSet call shape')
        for p1, v in x.ev(e.args[0], p):
            if isinstance(v, Exc): yield p1, v; continue
            u = z3.FreshConst(E.S, 'u')
            if v.sort == 'opt:set': t = z3.Lambda([u], z3.And(z3.Not(v.t[0]), v.t[1].t[u]))
            elif v.sort == 'set': t = v.t
            elif v.sort == 'none': t = E.EMPTY
            else: raise Unsupported(site + ' FilterSet of ' + v.sort)
            yield p1, Val('set', t, x={'fresh': True})

    def m_add(x, recv, args, e, p, site):
        tag = (recv.x or {}).get('param')
        if tag:
            x.oblige(f'frame: the argument `{tag}` is not modified (in-place `{ast.unparse(e)[:60]}`)', p.pc, z3.BoolVal(False), p.exact, 'frame')
        a = args[0]; u = z3.FreshConst(E.S, 'u')
        at = z3.Lambda([u], z3.And(z3.Not(a.t[0]), a.t[1].t[u])) if a.sort == 'opt:set' else (a.t if a.sort == 'set' else None)
        if at is None: raise Unsupported(site + ' add of ' + a.sort)
        new = Val('set', z3.Lambda([u], z3.Or(recv.t[u], at[u])), x=dict(recv.x or {}))
        q = p.fork(); tgt = e.func.value
        if not isinstance(tgt, ast.Name): raise Unsupported(site + ' add through ' + ast.unparse(tgt))
        q.env[tgt.id] = new
        yield q, NONE

    def h_is_filterset(x, v, p, site):
        tag = (v.x or {}).get('param') if v.sort == 'set' else None
        if v.sort == 'none': yield p, Bool(False)
        elif v.sort == 'set' and (v.x or {}).get('fresh'): yield p, Bool(True)
        elif tag == 'query': yield p, Bool(z3.Bool('isinstance(query, FilterSet)'))          # the caller may hand in a FilterSet, a list or a single Filter
        elif tag: yield p, Bool(True)
        else: raise Unsupported(site + ' isinstance(FilterSet) of ' + v.sort)

    def attr_filters(x, o, p, site): yield p, Val('set', SELF_F, x={'param': 'self.filters', 'nonempty': nonempty(SELF_F)})

    def hook_all(x, e, p): yield p, Val('objset', STORED)         # every version of every family and every unversioned object held (assumed of the chain over self._data)

    def h_acf(x, e, p, site):
        """callee contract of apply_common_filters (proved): the objects of the first argument for which every filter of the second holds"""
        for p1, vs in x.ev_seq(list(e.args), p):
            if isinstance(vs, Exc): yield p1, vs; continue
            objs, fl = vs; u = z3.FreshConst(E.S, 'u')
            if fl.sort == 'opt:set': fl = Val('set', z3.Lambda([u], z3.And(z3.Not(fl.t[0]), fl.t[1].t[u])))          # None: no filter
            if objs.sort != 'objset' or fl.sort != 'set': raise Unsupported(site + f' apply_common_filters({objs.sort}, {fl.sort})')
            x.oblige('call(apply_common_filters): the filters applied are exactly the query, the source\'s own filters and the ones handed down', p1.pc,
                     z3.ForAll([u], fl.t[u] == z3.Or(z3.And(z3.Not(Q_NONE), Q_VIEW[u]), SELF_F[u], z3.And(z3.Not(DOWN_NONE), DOWN_F[u]))), p1.exact, 'call-requires')
            yield p1, Val('objset', z3.Lambda([u], z3.And(objs.t[u], SATALL(fl.t, u))))

    def h_list(x, e, p, site):
        for p1, vs in x.ev_seq(list(e.args), p):
            yield p1, (vs if isinstance(vs, Exc) else vs[0])

    def ens(a, r):
        u = z3.String('u!mq'); f = z3.FreshConst(E.S, 'f')
        if r.sort != 'objset': return z3.BoolVal(False)
        union = z3.Lambda([f], z3.Or(z3.And(z3.Not(Q_NONE), Q_VIEW[f]), SELF_F[f], z3.And(z3.Not(DOWN_NONE), DOWN_F[f])))
        return z3.ForAll([u], r.t[u] == z3.And(STORED[u], SATALL(union, u)))
    CHAIN = 'itertools.chain.from_iterable((value.all_versions.values() if isinstance(value, _ObjectFamily) else [value] for value in self._data.values()))'
    return Contract('stix2/datastore/memory.py::MemorySource.query', props=['C12', 'C11', 'C13'],
                    params={'self': Val('memsource', x={}), 'query': qparam, '_composite_filters': down},
                    ensures=[('exactly the stored objects for which every filter of the query, of the source and of the composite above holds', ens)],
                    raises={}, handlers={'FilterSet': h_filterset, 'apply_common_filters': h_acf, 'list': h_list, 'isinstance:FilterSet': h_is_filterset},
                    expr_hooks={CHAIN: hook_all},
                    registry_ext={'attrs': {('memsource', 'filters'): attr_filters}, 'methods': {('.add', 'set'): m_add}},
                    assumptions=['callee contracts of MemorySource.query: FilterSet(filters) builds a new object with the argument\'s view and FilterSet.add unites views (proved), apply_common_filters '
                                 '(proved); the chain over self._data enumerates every stored version (assumed; the store histories of the bounded part exercise it); SATALL is extensional in the filter set'])


def filesystem_query_contract():
    """Slice contract of FileSystemSource.query: the filter bookkeeping.  The search shortcuts and every per-directory search see exactly the query, the source's own filters and the
    handed-down ones; `auth_ids` and `version` are forwarded; the caller's query object is never written to.  What the directory walk returns is the business of the bounded part
    (and of the optimiser's own contract, _find_search_optimizations, proved in contracts/filters.py)."""
    base = memory_query_contract()
    union_is = lambda t, u: t[u] == z3.Or(z3.And(z3.Not(Q_NONE), Q_VIEW[u]), SELF_F[u], z3.And(z3.Not(DOWN_NONE), DOWN_F[u]))

    def filters_arg(x, node, p, site):
        outs = list(x.ev(node, p))
        if len(outs) != 1 or isinstance(outs[0][1], Exc): raise Unsupported(site + ' filter argument')
        v = outs[0][1]; u = z3.FreshConst(E.S, 'u')
        if v.sort == 'opt:set': return z3.Lambda([u], z3.And(z3.Not(v.t[0]), v.t[1].t[u]))
        if v.sort == 'set': return v.t
        raise Unsupported(site + ' filter argument of sort ' + v.sort)

    def h_find_opt(x, e, p, site):
        if len(e.args) != 1 or e.keywords: raise Unsupported(site + ' call shape')
        t = filters_arg(x, e.args[0], p, site); u = z3.FreshConst(E.S, 'u')
        x.oblige('call(_find_search_optimizations): the shortcuts are derived from exactly the query, the source\'s own filters and the ones handed down', p.pc, z3.ForAll([u], union_is(t, u)), p.exact, 'call-requires')
        yield p, Val('tuple', x=[Val('opaque', x='auth_types'), Val('opaque', x='auth_ids')])

    def h_search(name):
        def h(x, e, p, site):
            # actuals bound to the callee's REAL signature (positional or keyword, any order): what reaches the formals auth_ids / version / query
            from vf.pyvc.lib import real_sig, bind_actuals
            sig = real_sig(x.src_root, 'stix2/datastore/filesystem.py', name)
            nodes = list(e.args) + [k.value for k in e.keywords]
            bound, errors = bind_actuals(sig, e, nodes)
            if errors or not all(f in bound for f in ('query', 'auth_ids', 'version')) or any(isinstance(bound[f], tuple) for f in ('query', 'auth_ids')):
                raise Unsupported(site + f' call does not bind to the real signature of {name}: {errors}')
            ok = ast.unparse(bound['auth_ids']) == 'auth_ids' and not isinstance(bound['version'], tuple) and ast.unparse(bound['version']) == 'version'
            x.oblige(f'call({name}): auth_ids and the caller\'s version are forwarded', p.pc, z3.BoolVal(bool(ok)), p.exact, 'call-requires')
            t = filters_arg(x, bound['query'], p, site); u = z3.FreshConst(E.S, 'u')
            x.oblige(f'call({name}): every object read is filtered by exactly the query, the source\'s own filters and the ones handed down', p.pc, z3.ForAll([u], union_is(t, u)), p.exact, 'call-requires')
            yield p, Val('opaque', x='type_results')
        return h

    def opaque_exact(label):
        def h(x, e, p, site): yield p, Val('opaque', x=label)
        return h

    def h_is_versioned(x, e, p, site): yield p, Bool(z3.FreshConst(z3.BoolSort(), 'versioned_dir'))

    def m_extend(x, recv, args, e, p, site): yield p, NONE

    handlers = {'FilterSet': base.handlers['FilterSet'], 'isinstance:FilterSet': base.handlers['isinstance:FilterSet'], '_find_search_optimizations': h_find_opt,
                '_search_versioned': h_search('_search_versioned'), '_search_unversioned': h_search('_search_unversioned'), '_get_matching_dir_entries': opaque_exact('type_dirs'),
                'os.path.join': opaque_exact('type_path'), '_is_versioned_type_dir': h_is_versioned}
    reg = {'attrs': {('fssource', 'filters'): base.registry_ext['attrs'][('memsource', 'filters')]},
           'methods': {('.add', 'set'): base.registry_ext['methods'][('.add', 'set')], ('.extend', 'litlist'): m_extend, ('.extend', 'opaque'): m_extend}}
    c = Contract('stix2/datastore/filesystem.py::FileSystemSource.query', props=['C12', 'C13'],
                 params={'self': Val('fssource', x={}), 'query': base.params['query'], 'version': 'opaque', '_composite_filters': base.params['_composite_filters']},
                 ensures=[], raises={}, handlers=handlers, registry_ext=reg, loops={0: {'kind': 'inv', 'inv': lambda x, env, i, it: z3.BoolVal(True)}},
                 havoc={'all_data': lambda v: Val('opaque', x="all_data'"), 'type_results': lambda v: Val('opaque', x="type_results'")}, note='slice: filter bookkeeping and forwarding',
                 assumptions=['slice contract: the directory walk and what the per-directory searches return are not modelled (bounded part); callee contracts FilterSet(filters) / FilterSet.add (proved)'])
    c.exact_opaque_iteration = True
    return c


# ------------------------------------------------------------------ MemorySource.all_versions: every version held under the id that passes the source's and the handed-down filters
IDSET = z3.Const('stored_under(stix_id)', E.SetS); IS_FAMILY = z3.Bool('isinstance(mapped_value, _ObjectFamily)'); HAS_ID = z3.Bool('stix_id in self._data')
ONE = z3.String('the single object held under stix_id')


def memory_all_versions_contract():
    base = memory_query_contract()

    def m_data_get(x, recv, args, e, p, site):
        if len(args) != 1 or ast.unparse(e.args[0]) != 'stix_id': raise Unsupported(site + ' _data.get of something else than stix_id')
        yield p, Val('mapped', x={})

    def attr_data(x, o, p, site): yield p, Val('datamap', x={})

    def h_is_family(x, v, p, site):
        if v.sort != 'mapped': raise Unsupported(site + ' isinstance(_ObjectFamily) of ' + v.sort)
        yield p, Bool(IS_FAMILY)

    def hook_family_versions(x, e, p): yield p, Val('objset', IDSET)          # representation invariant of _data (requires): a family holds exactly the versions stored under its id

    def hook_single(x, e, p):
        u = z3.FreshConst(E.S, 'u'); yield p, Val('objset', z3.Lambda([u], u == ONE))

    def hook_filters(x, e, p):
        u = z3.FreshConst(E.S, 'u')
        yield p, Val('set', z3.Lambda([u], z3.Or(z3.And(z3.Not(DOWN_NONE), DOWN_F[u]), SELF_F[u])), x={'fresh': True})

    def h_chain(x, e, p, site):
        # itertools.chain over collections of filters: the union of their views
        for p1, vs in x.ev_seq(list(e.args), p):
            if isinstance(vs, Exc): yield p1, vs; continue
            u = z3.FreshConst(E.S, 'u'); parts = []
            for v in vs:
                if v.sort == 'set': parts.append(v.t[u])
                elif v.sort == 'opt:set': parts.append(z3.And(z3.Not(v.t[0]), v.t[1].t[u]))
                elif v.sort == 'litlist' and not v.x: pass
                else: raise Unsupported(site + ' chain over ' + v.sort)
            yield p1, Val('set', z3.Lambda([u], z3.Or(*parts) if parts else z3.BoolVal(False)), x={'fresh': True})

    def h_list(x, e, p, site):
        for p1, vs in x.ev_seq(list(e.args), p):
            yield p1, (vs if isinstance(vs, Exc) else vs[0])

    def h_acf(x, e, p, site):
        for p1, vs in x.ev_seq(list(e.args), p):
            if isinstance(vs, Exc): yield p1, vs; continue
            objs, fl = vs
            if objs.sort != 'objset' or fl.sort != 'set': raise Unsupported(site + f' apply_common_filters({objs.sort}, {fl.sort})')
            u = z3.FreshConst(E.S, 'u')
            x.oblige('call(apply_common_filters): the filters applied are exactly the source\'s own and the ones handed down', p1.pc,
                     z3.ForAll([u], fl.t[u] == z3.Or(SELF_F[u], z3.And(z3.Not(DOWN_NONE), DOWN_F[u]))), p1.exact, 'call-requires')
            yield p1, Val('objset', z3.Lambda([u], z3.And(objs.t[u], SATALL(fl.t, u))))

    def m_extend(x, recv, args, e, p, site):
        if args[0].sort != 'objset' or not (recv.sort == 'litlist' and not recv.x): raise Unsupported(site + ' extend shape')
        q = p.fork(); q.env[e.func.value.id] = args[0]
        yield q, NONE

    def inv_repr(a):
        u = z3.String('u!rp')
        return z3.And(z3.Implies(z3.Not(HAS_ID), z3.ForAll([u], z3.Not(IDSET[u]))), z3.Implies(z3.And(HAS_ID, z3.Not(IS_FAMILY)), z3.ForAll([u], IDSET[u] == (u == ONE))))

    def ens(a, r):
        u = z3.String('u!av'); f = z3.FreshConst(E.S, 'f')
        view = E.EMPTY if (r.sort == 'litlist' and not r.x) else (r.t if r.sort == 'objset' else None)
        if view is None: return z3.BoolVal(False)
        union = z3.Lambda([f], z3.Or(SELF_F[f], z3.And(z3.Not(DOWN_NONE), DOWN_F[f])))
        return z3.ForAll([u], view[u] == z3.And(IDSET[u], SATALL(union, u)))
    FILTERS = 'list(itertools.chain(_composite_filters or [], self.filters))'
    return Contract('stix2/datastore/memory.py::MemorySource.all_versions', props=['C11', 'C12'],
                    params={'self': Val('memsource', x={}), 'stix_id': 'str', '_composite_filters': base.params['_composite_filters']},
                    requires=[('representation invariant of the memory store (kept by _add / _ObjectFamily.add, proved): under an id there is nothing, one unversioned object, or a family holding exactly the versions stored under it', inv_repr)],
                    ensures=[('every version held under the id for which the source\'s own and the handed-down filters all hold, and nothing else', ens)],
                    raises={}, handlers={'apply_common_filters': h_acf, 'isinstance:_ObjectFamily': h_is_family, 'itertools.chain': h_chain, 'list': h_list},
                    expr_hooks={'mapped_value.all_versions.values()': hook_family_versions, '[mapped_value]': hook_single},
                    registry_ext={'attrs': {('memsource', 'filters'): base.registry_ext['attrs'][('memsource', 'filters')], ('memsource', '_data'): attr_data},
                                  'methods': {('.get', 'datamap'): m_data_get, ('.extend', 'litlist'): m_extend}},
                    truthy_handlers={'mapped': lambda x, v: HAS_ID},
                    assumptions=['callee contract apply_common_filters (proved); the representation invariant of _data is a precondition here (its preservation is the contract of _ObjectFamily.add / _add in C11)'])


# ------------------------------------------------------------------ MemorySource.get: the newest version held under the id, if it passes the filters in force; otherwise nothing
LATEST = z3.String('the newest version held under stix_id')


def memory_get_contract():
    av = memory_all_versions_contract()

    def attr_latest(x, o, p, site): yield p, Val('objtok', LATEST)          # _ObjectFamily.latest_version: the version with the greatest modified time (representation invariant, proved for _ObjectFamily.add)

    def narrow_mapped(x, e, p):
        # `stix_obj = mapped_value` for an unversioned object: that object is the newest (only) one held
        yield p, Val('objtok', LATEST)

    def h_acf(x, e, p, site):
        for p1, vs in x.ev_seq(list(e.args), p):
            if isinstance(vs, Exc): yield p1, vs; continue
            objs, fl = vs
            if not (objs.sort == 'litlist' and len(objs.x) == 1 and objs.x[0].sort in ('objtok', 'mapped')) or fl.sort != 'set': raise Unsupported(site + f' apply_common_filters({objs.sort}, {fl.sort})')
            tok = objs.x[0].t if objs.x[0].sort == 'objtok' else LATEST          # an unversioned object held directly under the id is the newest (only) one
            objs = Val('litlist', x=[Val('objtok', tok)])
            u = z3.FreshConst(E.S, 'u')
            x.oblige('call(apply_common_filters): the filters applied are exactly the source\'s own and the ones handed down', p1.pc,
                     z3.ForAll([u], fl.t[u] == z3.Or(SELF_F[u], z3.And(z3.Not(DOWN_NONE), DOWN_F[u]))), p1.exact, 'call-requires')
            yield p1, Val('filtered1', (objs.x[0].t, SATALL(fl.t, objs.x[0].t)))

    def h_next(x, e, p, site):
        if len(e.args) != 2 or ast.unparse(e.args[1]) != 'None': raise Unsupported(site + ' next(...) shape')
        for p1, v in x.ev(e.args[0], p):
            if isinstance(v, Exc): yield p1, v; continue
            if v.sort != 'filtered1': raise Unsupported(site + ' next of ' + v.sort)
            tok, cond = v.t
            yield p1, Val('opt:objtok', (z3.Not(cond), Val('objtok', tok)))

    def ens(a, r):
        f = z3.FreshConst(E.S, 'f')
        union = z3.Lambda([f], z3.Or(SELF_F[f], z3.And(z3.Not(DOWN_NONE), DOWN_F[f])))
        if r.sort == 'none': none, tok = z3.BoolVal(True), LATEST
        elif r.sort == 'objtok': none, tok = z3.BoolVal(False), r.t
        elif r.sort == 'opt:objtok': none, tok = r.t[0], r.t[1].t
        else: return z3.BoolVal(False)
        return z3.And(z3.Not(none) == z3.And(HAS_ID, SATALL(union, LATEST)), z3.Implies(z3.Not(none), tok == LATEST))
    return Contract('stix2/datastore/memory.py::MemorySource.get', props=['C11', 'C12'],
                    params={'self': Val('memsource', x={}), 'stix_id': 'str', '_composite_filters': av.params['_composite_filters']},
                    ensures=[('the newest version held under the id when it passes the source\'s own and the handed-down filters, otherwise nothing', ens)],
                    raises={}, handlers={'apply_common_filters': h_acf, 'isinstance:_ObjectFamily': av.handlers['isinstance:_ObjectFamily'], 'itertools.chain': av.handlers['itertools.chain'],
                                         'list': av.handlers['list'], 'next': h_next},
                    registry_ext={'attrs': {('memsource', 'filters'): av.registry_ext['attrs'][('memsource', 'filters')], ('memsource', '_data'): av.registry_ext['attrs'][('memsource', '_data')],
                                            ('mapped', 'latest_version'): attr_latest},
                                  'methods': {('.get', 'datamap'): av.registry_ext['methods'][('.get', 'datamap')]}},
                    truthy_handlers={'mapped': lambda x, v: HAS_ID, 'objtok': lambda x, v: z3.BoolVal(True)},
                    assumptions=['callee contract apply_common_filters (proved); _ObjectFamily.latest_version carries the greatest modified time of the family (representation invariant, proved for '
                                 '_ObjectFamily.add); a STIX object (a non-empty mapping) is truthy'])
