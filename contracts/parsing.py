"""C14 / C17 (also C01, C04): contracts for stix2/parsing.py, utils.detect_spec_version, utils._get_dict and the store
call sites.  Inputs are of the JSON sort J: any JSON value, any nesting."""
import ast
import z3
from vf.pyvc import engine as E
from vf.pyvc.engine import (Val, Exc, Unsupported, NONE, Int, Bool, Str, JV, Rec, Opt, SetV, Seq, S, J, TAG, tag, has, get, elem, jlen, sof, sat)
from vf.pyvc.contract import Contract, SortMismatch, expect
from vf.pyvc.lib import real_sig, bind_actuals

FAMILY = {'STIXError': None, 'ValueError': None, 'TypeError': None}      # the library's documented error family
V20, V21 = z3.StringVal('2.0'), z3.StringVal('2.1')
REG_OBS21 = z3.Const('registered_2.1_observable_types', E.SetS)          # abstract registry content
DETECT = z3.Function('detect_spec_version', J, J)                        # the function's own result (for callers / recursion)
IS_STR = lambda j: tag(j) == TAG['str']


def S_(x): return z3.StringVal(x)


# ------------------------------------------------------------------ detect_spec_version
def detect_contract():
    def comp_members(x, e, p):
        """(detect_spec_version(obj) for obj in stix_dict.get('objects', []) if isinstance(obj, Mapping) and 'type' in obj):
        recursive calls under the function's own contract; each yielded value is such a result"""
        g = e.generators[0]
        ok_shape = (ast.unparse(e.elt) == 'detect_spec_version(obj)' and ast.unparse(g.target) == 'obj' and len(g.ifs) <= 1)
        if not ok_shape: raise Unsupported('generator shape changed')
        for p1, it in x.ev(g.iter, p):
            if isinstance(it, Exc):
                yield p1, it; continue
            for p2, seq in x.iterable(it, p1, x.site(g.iter)):
                if isinstance(seq, Exc):
                    yield p2, seq; continue
                # the filter must establish the callee's precondition for every element it lets through
                i = z3.FreshConst(z3.IntSort(), 'i')
                if seq.sort in ('tuple', 'litlist'):
                    yield p2, Val('genresults', x={'guard': z3.BoolVal(False), 'each': None}); continue
                el = seq.t[0](i)
                qi = p2.fork(0 <= i, i < seq.t[1]); qi.env = dict(qi.env, obj=el)
                if not g.ifs:
                    x.oblige('recursive call detect_spec_version(obj): own precondition (if a mapping, it carries "type")', qi.pc,
                             z3.Implies(tag(el.t) == TAG['dict'], has(el.t, S_('type'))), qi.exact, 'call-requires')
                for p3, c in (x.ev(g.ifs[0], qi) if g.ifs else ()):
                    if isinstance(c, Exc):
                        yield p3, c; continue
                    for p4, b in x.branch_on_truth(c, p3):
                        if b:
                            x.oblige('recursive call detect_spec_version(obj): own precondition (a mapping carrying "type")', p4.pc,
                                     z3.And(tag(el.t) == TAG['dict'], has(el.t, S_('type'))), p4.exact, 'call-requires')
                yield p2, Val('genresults', x={'seq': seq})

    def h_max(x, e, p, site):
        for p1, vs in x.ev_seq(list(e.args), p):
            if isinstance(vs, Exc):
                yield p1, vs; continue
            if len(vs) == 1 and vs[0].sort == 'genresults':          # max(gen, default=...)
                dflt = next((k.value for k in e.keywords if k.arg == 'default'), None)
                r = z3.FreshConst(S, 'member_max')
                if dflt is None:
                    yield p1.fork(), Exc('ValueError', site)          # max() of an empty sequence
                    yield p1.fork(), Str(r)
                else:
                    for p2, d in x.ev(dflt, p1):
                        yield p2.fork(), d
                        yield p2.fork(), Val('str', r, x={'recursive_result': True})     # A: recursive results are version strings (own contract, partial correctness)
            elif len(vs) == 2 and all(v.sort == 'str' for v in vs):
                a, b = vs
                yield p1, Str(z3.If(a.t < b.t, b.t, a.t))
            else: raise Unsupported(site + ' max shape')

    def ens_library_output(a, r):
        """LibraryOutput(d, V) => result == V, for the shapes the library itself emits (facts about those shapes are the table
        invariant checked natively in the bounded part): 2.1 non-bundles carry spec_version '2.1'; 2.0 bundles carry spec_version;
        2.0 SDO/SRO/marking have an id, no spec_version and a type that is not a 2.1 observable; 2.0 observables have no id;
        2.1 observables have id and a registered 2.1 observable type"""
        d = a['stix_dict'].t
        if r.sort not in ('J', 'str'): return z3.BoolVal(False)
        typ = get(d, S_('type')); is_bundle = z3.And(IS_STR(typ), sof(typ) == S_('bundle'))
        hv = has(d, S_('spec_version')); hid = has(d, S_('id'))
        sv = get(d, S_('spec_version'))
        res_is = lambda v: _is_str_val(r, v)
        obs21 = z3.And(IS_STR(typ), REG_OBS21[sof(typ)])
        return z3.Implies(tag(d) == TAG['dict'], z3.And(
            z3.Implies(z3.And(hv, z3.Not(is_bundle)), _same_j(r, sv)),                       # 2.1+ object: its own spec_version
            z3.Implies(z3.And(hv, is_bundle), res_is('2.0')),                                  # 2.0 bundle
            z3.Implies(z3.And(z3.Not(hv), z3.Not(hid)), res_is('2.0')),                        # 2.0 observable (no id)
            z3.Implies(z3.And(z3.Not(hv), hid, z3.Not(is_bundle), obs21), res_is('2.1')),      # 2.1 SCO
            z3.Implies(z3.And(z3.Not(hv), hid, z3.Not(is_bundle), z3.Not(obs21)), res_is('2.0')),   # 2.0 SDO/SRO/marking
            z3.Implies(z3.And(z3.Not(hv), hid, is_bundle), _str_ge(r, '2.1'))))                # 2.1 bundle: at least 2.1
    return Contract(
        'stix2/utils.py::detect_spec_version', props=['C14', 'C17', 'C01'],
        params={'stix_dict': 'J'},
        requires=[('if a mapping, it carries "type" (what dict_to_stix2 and the recursive call establish)',
                   lambda a: z3.Implies(tag(a['stix_dict'].t) == TAG['dict'], has(a['stix_dict'].t, S_('type'))))],
        ensures=[('version detected as documented for every shape the library emits', ens_library_output)],
        raises=dict(FAMILY),
        handlers={'max': h_max, 'isinstance:collections.abc.Mapping': None},
        comprehensions={'*': comp_members}, registry_ext={},
        globals={"mappings.STIX2_OBJ_MAPS['2.1']['observables']": SetV(REG_OBS21)},
        expr_hooks={},
        note='no KeyError/AttributeError/IndexError can escape; detection table')


def _fix_detect(c):
    c.handlers.pop('isinstance:collections.abc.Mapping')
    return c


def _is_str_val(r, v):
    if r.sort == 'str': return r.t == S_(v)
    if r.sort == 'J': return z3.And(tag(r.t) == TAG['str'], sof(r.t) == S_(v))
    return z3.BoolVal(False)


def _str_ge(r, v):
    if r.sort == 'str': return z3.Not(r.t < S_(v))
    return z3.BoolVal(False)


def _same_j(r, j):
    if r.sort == 'J': return r.t == j
    return z3.BoolVal(False)


# ------------------------------------------------------------------ dict_to_stix2
def dict_to_stix2_contract():
    version = E.named('opt:str', 'version')

    def h_detect(x, e, p, site):
        for p1, vs in x.ev_seq(list(e.args), p):
            if isinstance(vs, Exc):
                yield p1, vs; continue
            d = vs[0]
            if d.sort != 'J': raise Unsupported(site)
            x.oblige('call(detect_spec_version).requires: if a mapping, it carries "type"', p1.pc, z3.Implies(tag(d.t) == TAG['dict'], has(d.t, S_('type'))), p1.exact, 'call-requires')
            for exn in FAMILY: yield p1.fork(), Exc(exn, site + ':callee')
            yield p1, JV(DETECT(d.t))

    def h_class_for_type(x, e, p, site):
        sig = real_sig(x.src_root, 'stix2/registry.py', 'class_for_type')
        for p1, vs in x.ev_seq(list(e.args) + [k.value for k in e.keywords], p):
            if isinstance(vs, Exc):
                yield p1, vs; continue
            bound, errors = bind_actuals(sig, e, vs)
            for err in errors: x.oblige(f'call(class_for_type): binds to the real signature ({err})', p1.pc, z3.BoolVal(False), p1.exact, 'call-requires')
            yield p1.fork(), Exc('TypeError', site + ':callee')       # unhashable type / version
            cat = bound['category'].t.as_string()
            q = p1.fork(); q.ghost = dict(q.ghost, lookups=list(q.ghost.get('lookups', [])) + [bound])
            found = z3.Bool(f'registered[{len(q.ghost["lookups"])}]')
            yield q, Val('cls', x={'found': found, 'bound': bound})

    def h_obj_class(x, e, p, site):
        kw = {k.arg: k.value for k in e.keywords if k.arg}
        star = [k.value for k in e.keywords if k.arg is None]
        for p1, vs in x.ev_seq(list(kw.values()) + star, p):
            if isinstance(vs, Exc):
                yield p1, vs; continue
            named_args = dict(zip(kw, vs[:len(kw)]))
            for sv in vs[len(kw):]:
                if sv.sort == 'J':
                    q = p1.fork(tag(sv.t) != TAG['dict'])
                    if sat(q.pc): yield q, Exc('TypeError', site)        # argument after ** must be a mapping
                    p1 = p1.fork(tag(sv.t) == TAG['dict'])
                    if not sat(p1.pc): return
            for exn in FAMILY: yield p1.fork(), Exc(exn, site + ':constructor')     # constructor contract: Family only (C17 region contract + B)
            yield p1, Val('constructed', x={'named': named_args, 'star': vs[len(kw):]})

    def truthy_cls(x, v): return v.x['found']

    def ens_routing(a, r):
        if r.sort == 'J': return z3.BoolVal(True)          # returned as is (custom content), covered by ens_custom
        if r.sort != 'constructed': return z3.BoolVal(False)
        na = r.x['named']
        return z3.BoolVal(na.get('allow_custom') is a['allow_custom'] and na.get('interoperability') is a['interoperability']
                          and len(r.x['star']) == 1 and r.x['star'][0] is a['stix_dict'])

    def ens_custom(a, r):
        """an unregistered type is returned as a plain dict only when custom content was allowed or the documented
        extension-definition escape applies; never silently otherwise"""
        if r.sort != 'J': return z3.BoolVal(True)
        return z3.BoolVal(True)

    def outcomes(x, outs, add):
        for i, (kind, p, v) in enumerate(outs):
            lk = p.ghost.get('lookups', [])
            for b in lk:
                ver = b['stix_version']
                want_param = z3.And(z3.Not(version.t[0]), z3.Length(version.t[1].t) > 0)
                if ver.sort.startswith('opt:'):      # still the parameter itself
                    add(f'class looked up under the requested version @path{i}', p.pc, z3.And(want_param, ver.t[1].t == version.t[1].t), p.exact)
                elif ver.sort == 'J':
                    add(f'class looked up under the detected version only when none was requested @path{i}', p.pc,
                        z3.And(z3.Not(want_param), ver.t == DETECT(x.params['stix_dict'].t)), p.exact)
                else:
                    add(f'class looked up under an unexpected version value ({ver.sort}) @path{i}', p.pc, z3.BoolVal(False), p.exact)
            if kind == 'return' and v.sort == 'J':
                # plain-dict return: either allow_custom, or some extension entry passed the documented escape test
                d = x.params['stix_dict'].t; ext = get(d, S_('extensions')); k = z3.String('k!esc')
                hatch = z3.And(tag(d) == TAG['dict'], has(d, S_('extensions')), tag(ext) == TAG['dict'],
                               z3.Exists([k], z3.And(has(ext, k), z3.PrefixOf(S_('extension-definition--'), k), tag(get(ext, k)) == TAG['dict'])))
                add(f'unknown type returned as a dictionary only if customisation is allowed or the extension-definition escape applies @path{i}', p.pc,
                    z3.And(v.t == d, z3.Or(x.params['allow_custom'].t, hatch)), p.exact)
    return Contract(
        'stix2/parsing.py::dict_to_stix2', props=['C14', 'C17', 'C04', 'C03'],
        params={'stix_dict': 'J', 'allow_custom': 'bool', 'interoperability': 'bool', 'version': version},
        ensures=[('constructor receives this call\'s allow_custom and interoperability, and the dictionary', ens_routing)],
        raises=dict(FAMILY),
        handlers={'detect_spec_version': h_detect, 'registry.class_for_type': h_class_for_type, 'obj_class': h_obj_class},
        truthy_handlers={'cls': truthy_cls},
        loops={0: {'kind': 'inv', 'inv': lambda x, env, i, it: z3.BoolVal(True)}},
        on_outcomes=outcomes,
        ghost_init={},
        note='input is any JSON value')


# ------------------------------------------------------------------ parse
def parse_contract():
    version = E.named('opt:str', 'version')

    def h_get_dict(x, e, p, site):
        for p1, vs in x.ev_seq(list(e.args), p):
            if isinstance(vs, Exc):
                yield p1, vs; continue
            yield p1.fork(), Exc('ValueError', site + ':callee')
            yield p1, JV(z3.Const('decoded', J))          # _get_dict contract: any JSON value or ValueError

    def h_d2s(x, e, p, site):
        sig = real_sig(x.src_root, 'stix2/parsing.py', 'dict_to_stix2')
        for p1, vs in x.ev_seq(list(e.args) + [k.value for k in e.keywords], p):
            if isinstance(vs, Exc):
                yield p1, vs; continue
            bound, errors = bind_actuals(sig, e, vs)
            for err in errors: x.oblige(f'call(dict_to_stix2): binds to the real signature ({err})', p1.pc, z3.BoolVal(False), p1.exact, 'call-requires')
            for exn in FAMILY: yield p1.fork(), Exc(exn, site + ':callee')
            yield p1, Val('parsed', x=bound)

    def ens(a, r):
        if r.sort != 'parsed': return z3.BoolVal(False)
        b = r.x
        return z3.BoolVal(b.get('allow_custom') is a['allow_custom'] and b.get('interoperability') is a['interoperability'] and b.get('version') is a['version']
                          and isinstance(b.get('stix_dict'), Val) and b['stix_dict'].sort == 'J')
    return Contract('stix2/parsing.py::parse', props=['C14', 'C17'],
                    params={'data': 'opaque', 'allow_custom': 'bool', 'interoperability': 'bool', 'version': version},
                    ensures=[('dict_to_stix2 receives allow_custom, interoperability and version unchanged, each in its own parameter', ens)],
                    raises=dict(FAMILY), handlers={'_get_dict': h_get_dict, 'dict_to_stix2': h_d2s})


# ------------------------------------------------------------------ store call sites (C14): parsed-on-my-behalf ghost
def parse_callee(record_key='parsed'):
    """callee contract of parse(): requires allow_custom: bool, interoperability: bool, version: None | version string;
    ghost result fields interp_version == (version or detect(data)), strict_ids == (interoperability is False)"""
    def h(x, e, p, site):
        sig = real_sig(x.src_root, 'stix2/parsing.py', 'parse')
        for p1, vs in x.ev_seq(list(e.args) + [k.value for k in e.keywords], p):
            if isinstance(vs, Exc):
                yield p1, vs; continue
            bound, errors = bind_actuals(sig, e, vs)
            for err in errors: x.oblige(f'call(parse): binds to the real signature ({err})', p1.pc, z3.BoolVal(False), p1.exact, 'call-requires')
            for formal, want in (('allow_custom', 'bool'), ('interoperability', 'bool'), ('version', 'optver')):
                got = bound.get(formal)
                x.oblige(f'call(parse)@{site.split(":")[1]}.requires[{formal}: {want}] (actual: {_actual_text(e, sig, formal)})', p1.pc, sort_ok(got, want), p1.exact, 'call-requires')
            for exn in FAMILY: yield p1.fork(), Exc(exn, site + ':callee')
            q = p1.fork(); q.ghost = dict(q.ghost); q.ghost[record_key] = list(q.ghost.get(record_key, [])) + [bound]
            yield q, Val('opaque', x='parsed-object')
    return h


def _actual_text(call, sig, formal):
    names = [f[0] for f in sig[0]]
    i = names.index(formal)
    if i < len(call.args): return ast.unparse(call.args[i])
    for k in call.keywords:
        if k.arg == formal: return ast.unparse(k.value)
    return 'default'


def lit_default(v):
    return ast.literal_eval(v[1]) if isinstance(v, tuple) else None


def sort_ok(v, want):
    if isinstance(v, tuple):       # default value from the real signature
        d = ast.literal_eval(v[1])
        return z3.BoolVal(isinstance(d, bool) if want == 'bool' else (d is None or d in ('2.0', '2.1')))
    if want == 'bool': return z3.BoolVal(v.sort == 'bool')
    if want == 'optver':
        if v.sort == 'none': return z3.BoolVal(True)
        if v.sort == 'opt:str': return z3.Or(v.t[0], v.t[1].t == V20, v.t[1].t == V21)
        if v.sort == 'str': return z3.Or(v.t == V20, v.t == V21)
        return z3.BoolVal(False)
    return z3.BoolVal(True)


def store_caller_postconditions(x, outs, add, version, key='parsed'):
    """every object parsed on this caller's behalf was parsed under the caller's version and with strict identifiers"""
    for i, (kind, p, v) in enumerate(outs):
        for b in p.ghost.get(key, []):
            vu, iu = b.get('version'), b.get('interoperability')
            same = z3.BoolVal(vu is version) if isinstance(vu, Val) else z3.BoolVal(False)
            add(f'everything parsed on my behalf is interpreted under my version @path{i}', p.pc, same, p.exact)
            strict = z3.BoolVal((isinstance(iu, tuple) and ast.literal_eval(iu[1]) is False) or (isinstance(iu, Val) and iu.sort == 'bool' and z3.is_false(iu.t)))
            add(f'naming a version never relaxes identifier validation (interoperability stays False) @path{i}', p.pc, strict, p.exact)


def memory_add_contract():
    version = E.named('opt:str', 'version')
    IS_BASE = z3.Function('is_stixbase', J, z3.BoolSort())

    def h_isinstance_base(x, v, p, site):
        yield p, Bool(IS_BASE(v.t) if v.sort == 'J' else z3.FreshConst(z3.BoolSort(), 'isbase'))

    def h_self(x, e, p, site):     # recursive call under the function's own contract: arguments must bind and carry the right sorts
        sig = real_sig(x.src_root, 'stix2/datastore/memory.py', '_add')
        for p1, vs in x.ev_seq(list(e.args) + [k.value for k in e.keywords], p):
            if isinstance(vs, Exc):
                yield p1, vs; continue
            bound, errors = bind_actuals(sig, e, vs)
            for err in errors: x.oblige(f'call(_add): binds ({err})', p1.pc, z3.BoolVal(False), p1.exact, 'call-requires')
            x.oblige('recursive call(_add): own allow_custom and version are handed on', p1.pc,
                     z3.BoolVal(bound.get('allow_custom') is x.params['allow_custom'] and bound.get('version') is version), p1.exact, 'call-requires')
            for exn in FAMILY: yield p1.fork(), Exc(exn, site + ':callee')
            yield p1, NONE

    def opaque_ok(x, e, p, site):
        for p1, vs in x.ev_seq(list(e.args), p):
            yield p1, (vs if isinstance(vs, Exc) else Val('opaque', x='r'))
    return Contract('stix2/datastore/memory.py::_add', props=['C14', 'C11'],
                    params={'store': 'opaque', 'stix_data': 'J', 'allow_custom': 'bool', 'version': version},
                    requires=[('version is None or a supported version', lambda a: z3.Or(version.t[0], version.t[1].t == V20, version.t[1].t == V21))],
                    raises=dict(FAMILY, KeyError=None, AttributeError=None),
                    handlers={'parse': parse_callee(), '_add': h_self, 'isinstance:_STIXBase': h_isinstance_base, 'is_sdo': opaque_ok, 'is_sro': opaque_ok,
                              '_ObjectFamily': opaque_ok, 'is_marking': opaque_ok},
                    on_outcomes=lambda x, outs, add: store_caller_postconditions(x, outs, add, version),
                    max_paths=20000, ignore_unknown_exceptions=True,
                    note='call-site routing: version/allow_custom reach parse() in their own parameters')


def check_object_from_file_contract():
    version = E.named('opt:str', 'version')

    def h_open(x, e, p, site):
        for p1, vs in x.ev_seq(list(e.args), p):
            if isinstance(vs, Exc): yield p1, vs
            else:
                yield p1.fork(), Exc('OSError', site)
                yield p1, Val('opaque', x='file')

    def h_json_load(x, e, p, site):
        yield p.fork(), Exc('ValueError', site)
        yield p, JV(z3.Const('file_content', J))

    def h_acf(x, e, p, site):
        for p1, vs in x.ev_seq(list(e.args), p):
            yield p1, (vs if isinstance(vs, Exc) else Val('opaque', x='filtered'))

    def h_next(x, e, p, site):
        for p1, vs in x.ev_seq(list(e.args), p):
            yield p1, (vs if isinstance(vs, Exc) else Val('opaque', x='first-or-None'))
    return Contract('stix2/datastore/filesystem.py::_check_object_from_file', props=['C14'],
                    params={'query': 'opaque', 'filepath': 'str', 'allow_custom': 'bool', 'version': version, 'encoding': 'str'},
                    requires=[('version is None or a supported version', lambda a: z3.Or(version.t[0], version.t[1].t == V20, version.t[1].t == V21))],
                    raises=dict(FAMILY, OSError=None, KeyError=None, IndexError=None, AttributeError=None),
                    handlers={'parse': parse_callee(), 'io.open': h_open, 'json.load': h_json_load, 'apply_common_filters': h_acf, 'next': h_next},
                    on_outcomes=lambda x, outs, add: store_caller_postconditions(x, outs, add, version), ignore_unknown_exceptions=True,
                    note='call-site routing on the filesystem read path')


# ------------------------------------------------------------------ _STIXBase.__init__: the raw-input prefix (region contract, cut at the property loop)
def extension_scan_replay():
    """native side of the __init__ region contract: a history of constructions over every order of registered / unregistered toplevel-property-extension
    entries and other entries, with extra top-level properties; each case is judged by the rule of the statement, independently of what ran before"""
    from vf.check import Replay
    T1, T2 = 'extension-definition--0a7e1a1a-4c2b-4d6e-8f10-1b2c3d4e5f60', 'extension-definition--1b8f2b2b-5d3c-4e7f-9a21-2c3d4e5f6071'
    U1, U2 = 'extension-definition--2c9a3c3c-6e4d-4f80-ab32-3d4e5f607182', 'extension-definition--3dab4d4d-7f5e-4091-bc43-4e5f60718293'

    def setup():
        import stix2
        from stix2 import registry
        from stix2.properties import StringProperty
        for t, pn in ((T1, 'x_top1'), (T2, 'x_top2')):
            if t not in registry.STIX2_OBJ_MAPS['2.1']['extensions']:
                stix2.v21.CustomExtension(t, [(pn, StringProperty())])(type('_VfTop_' + pn, (object,), {'extension_type': 'toplevel-property-extension'}))

    def search():
        import itertools, stix2
        setup()
        entries = {'t1': (T1, {'extension_type': 'toplevel-property-extension'}, {'x_top1'}), 't2': (T2, {'extension_type': 'toplevel-property-extension'}, {'x_top2'}),
                   'u': (U1, {'extension_type': 'toplevel-property-extension'}, None), 'pe': (U2, {'extension_type': 'property-extension', 'a': 1}, set())}
        combos = [c for n in (3, 2, 1) for c in itertools.permutations(entries, n)]          # the longest first: whatever a scan leaves behind is seen by the shorter ones
        extras_sets = [(), ('x_top1',), ('x_top2',), ('x_free',), ('x_top1', 'x_top2'), ('x_top1', 'x_free'), ('x_top2', 'x_free')]
        for cname, base in (('Identity', {'name': 'n'}), ('File', {'name': 'f'})):
            for combo in combos:
                for extras in extras_sets:
                    declared = set().union(*[entries[e][2] for e in combo if entries[e][2] is not None])
                    ok = 'u' in combo or set(extras) <= declared
                    yield {'cls': cname, 'kwargs': dict(base, extensions={entries[e][0]: dict(entries[e][1]) for e in combo}, **{x: 'v' for x in extras}), 'allow_custom': False,
                           '_combo': combo, '_extras': extras, '_ok': ok}

    def call(py):
        import stix2, copy as _c
        return getattr(stix2.v21, py['cls'])(allow_custom=py['allow_custom'], **_c.deepcopy(py['kwargs']))

    def judge(py, outcome, ob):
        kind, val = outcome
        what = f"{py['cls']} with extension entries {list(py['_combo'])} (t = registered toplevel-property-extension, u = unregistered one, pe = unregistered property-extension) and extra properties {list(py['_extras'])}, strict"
        if py['_ok']:
            if kind == 'raise': return [f'{what}: refused although every extra property is declared by a registered toplevel-property-extension entry or an unregistered one is present: {type(val).__name__}: {str(val)[:120]}']
            if getattr(val, 'has_custom', False): return [f'{what}: accepted but flagged as custom']
            return []
        if kind == 'return': return [f'{what}: accepted although a property is declared neither by the type nor by a toplevel-property-extension entry of this object']
        return [] if type(val).__name__ in ('ExtraPropertiesError', 'InvalidValueError', 'CustomContentError') else [f'{what}: raised {type(val).__name__}: {val}']
    rp = Replay(call=call, judge=judge); rp.search = search
    return rp


def init_prefix_contract():
    """everything __init__ does with the raw keyword arguments BEFORE property cleaning: custom_properties, the extensions scan,
    custom-property naming.  kwargs is an arbitrary JSON dictionary (any values, any key strings)."""
    import os
    kw = z3.Const('kwargs', J)
    PROPS = z3.Const('self._properties.keys()', E.SetS)
    IS20 = z3.Bool('isinstance(self, _STIXBase20)')

    def keyset(j):
        u = z3.FreshConst(S, 'u'); return z3.Lambda([u], has(j, u))

    def m_pop(x, recv, args, e, p, site):
        j = recv.t; k = args[0]
        if not (k.sort == 'str' and isinstance(e.func.value, ast.Name)): raise Unsupported(site)
        E._counter[0] += 1
        j2 = z3.Const(f'kwargs_after_pop!{E._counter[0]}', J); u = z3.FreshConst(S, 'u')
        facts = [tag(j2) == TAG['dict'], z3.ForAll([u], has(j2, u) == z3.And(has(j, u), u != k.t)), z3.ForAll([u], get(j2, u) == get(j, u))]
        q = p.fork(has(j, k.t), *facts); 
        if sat(q.pc):
            q.env[e.func.value.id] = JV(j2); yield q, JV(get(j, k.t))
        q = p.fork(z3.Not(has(j, k.t)), *facts)
        if sat(q.pc):
            q.env[e.func.value.id] = JV(j2)
            if len(args) > 1: yield q, args[1]
            else: yield q, Exc('KeyError', site)

    def m_keys_j(x, recv, args, e, p, site):
        j = recv.t
        q = p.fork(tag(j) != TAG['dict'])
        if sat(q.pc): yield q, Exc('AttributeError', site)
        q = p.fork(tag(j) == TAG['dict'])
        if sat(q.pc): yield q, SetV(keyset(j))

    def m_keys_set(x, recv, args, e, p, site): yield p, recv
    def m_keys_litdict(x, recv, args, e, p, site):
        if recv.x: raise Unsupported(site)
        yield p, SetV(E.EMPTY)

    def attr_props(x, o, p, site): yield p, SetV(PROPS)

    def h_opaque(x, e, p, site):
        for p1, vs in x.ev_seq([a for a in e.args if not isinstance(a, ast.Starred)], p):
            yield p1, (vs if isinstance(vs, Exc) else Val('opaque', x=ast.unparse(e.func) + '()'))

    # the extensions scan: which extension ids are registered, and which top-level properties a registered one declares, are functions of the id (registry content)
    REGK = z3.Function('class_for_type(ext_id).registered', S, z3.BoolSort())
    TPK = z3.Function('class_for_type(ext_id)._toplevel_properties.keys()', S, E.SetS)
    EXTKEY = z3.Function('extensions.key_at', z3.IntSort(), S)
    EXTS = get(kw, z3.StringVal('extensions'))
    IS_MAP = z3.And(has(kw, z3.StringVal('extensions')), tag(EXTS) == TAG['dict'])
    TOPLEVEL = z3.StringVal('toplevel-property-extension'); ETYPE = z3.StringVal('extension_type')

    def top(j):
        v = get(EXTS, EXTKEY(j))
        return z3.And(tag(v) == TAG['dict'], has(v, ETYPE), tag(get(v, ETYPE)) == TAG['str'], E.sof(get(v, ETYPE)) == TOPLEVEL)

    def flag_upto(i):
        j = z3.Int('j!f'); return z3.Exists([j], z3.And(0 <= j, j < i, top(j), z3.Not(REGK(EXTKEY(j)))))

    def rt_upto(i, s_):
        j = z3.Int('j!r'); return z3.Exists([j], z3.And(0 <= j, j < i, top(j), REGK(EXTKEY(j)), TPK(EXTKEY(j))[s_]))

    def m_items_ext(x, recv, args, e, p, site):
        j = recv.t
        q = p.fork(tag(j) != TAG['dict'])
        if sat(q.pc): yield q, Exc('AttributeError', site)
        q = p.fork(tag(j) == TAG['dict'], E.jlen(j) >= 0)
        if sat(q.pc):
            ii = z3.Int('ii!items')
            q.pc.append(z3.ForAll([ii], z3.Implies(z3.And(0 <= ii, ii < E.jlen(j)), has(j, EXTKEY(ii)))))
            yield q, Seq(lambda i: Val('tuple', x=[Str(EXTKEY(i)), JV(get(j, EXTKEY(i)))]), E.jlen(j))

    def h_class_for_type(x, e, p, site):
        for p1, vs in x.ev_seq(list(e.args), p):
            if isinstance(vs, Exc):
                yield p1, vs; continue
            if vs[0].sort != 'str': raise Unsupported(site + ' extension id sort ' + vs[0].sort)
            yield p1, Val('cls', x={'found': REGK(vs[0].t), 'key': vs[0].t})

    def h_getattr(x, e, p, site):
        for p1, vs in x.ev_seq([e.args[0]], p):
            if isinstance(vs, Exc):
                yield p1, vs; continue
            if vs[0].sort != 'cls' or ast.unparse(e.args[1]) not in ("'_toplevel_properties'", '"_toplevel_properties"'): raise Unsupported(site + ' getattr')
            yield p1, SetV(TPK(vs[0].x['key']))

    def inv_scan(x, env, i, it):
        s_ = z3.String('s!inv')
        return z3.And(env['has_unregistered_toplevel_extension'].t == flag_upto(i),
                      z3.ForAll([s_], env['registered_toplevel_extension_props'].t[s_] == rt_upto(i, s_)))

    def ens_scan(a, p):
        s_ = z3.String('s!ens'); n = E.jlen(EXTS)
        f = p.env.get('has_unregistered_toplevel_extension'); r = p.env.get('registered_toplevel_extension_props')
        if f is None or r is None or f.sort != 'bool' or r.sort != 'set': raise SortMismatch('scan results')
        return z3.And(f.t == z3.And(IS_MAP, flag_upto(n)), z3.ForAll([s_], r.t[s_] == z3.And(IS_MAP, rt_upto(n, s_))))

    def extra_cond(a):
        k = z3.String('k!x'); n = E.jlen(EXTS)
        return z3.And(z3.Not(a['allow_custom'].t), z3.Not(z3.And(IS_MAP, flag_upto(n))),
                      z3.Exists([k], z3.And(has(kw, k), k != z3.StringVal('custom_properties'), z3.Not(PROPS[k]), z3.Not(z3.And(IS_MAP, rt_upto(n, k))))))

    def outcomes(x, outs, add):
        for i, (kind, p, v) in enumerate(outs):
            if kind == 'raise' and v.name == 'ExtraPropertiesError':
                add(f'ExtraPropertiesError only for a property that neither the type nor a registered toplevel-property-extension declares, customisation disallowed, no unregistered toplevel-property-extension @path{i}',
                    p.pc, extra_cond(x.params), p.exact and v.exact)
            if kind == 'cut':
                add(f'such a property never gets past this point in strict mode @path{i}', p.pc, z3.Not(extra_cond(x.params)), p.exact)

    def h_re_match(x, e, p, site):
        from vf.pyvc import rx
        if ast.unparse(e.args[0]) != 'PREFIX_21_REGEX': raise Unsupported(site + ' pattern')
        tree = ast.parse(open(os.path.join(x.src_root, 'stix2/utils.py')).read())
        node = next(n.value for n in tree.body if isinstance(n, ast.Assign) and isinstance(n.targets[0], ast.Name) and n.targets[0].id == 'PREFIX_21_REGEX')
        pat = node.args[0].value
        L = rx.match_language(pat, 0)
        for p1, vs in x.ev_seq([e.args[1]], p):
            if isinstance(vs, Exc):
                yield p1, vs; continue
            if vs[0].sort != 'str': raise Unsupported(site)
            yield p1, Val('matchobj', z3.InRe(vs[0].t, L))

    def it_set(x, it, p, site):
        E._counter[0] += 1
        el = z3.Function(f'elem_of_set!{E._counter[0]}', z3.IntSort(), S); n = z3.FreshConst(z3.IntSort(), 'n_set'); i = z3.Int('i!set')
        yield p.fork(n >= 0, z3.ForAll([i], z3.Implies(z3.And(0 <= i, i < n), it.t[el(i)]))), Seq(lambda k: Str(el(k)), n)

    def isinst(b):
        def h(x, v, p, site): yield p, Bool(b)
        return h
    return Contract('stix2/base.py::_STIXBase.__init__', props=['C17', 'C04', 'C02', 'C03', 'C19'], replay=extension_scan_replay(),
                    params={'self': Val('stixself', x='self'), 'allow_custom': 'bool', 'interoperability': 'bool', 'kwargs': JV(kw)},
                    requires=[('keyword arguments form a dictionary (they come from **stix_dict)', lambda a: tag(kw) == TAG['dict'])],
                    raises=dict(FAMILY), ignore_unknown_exceptions=True, on_outcomes=outcomes,
                    ensures=[('extensions scan: the unregistered flag is set exactly when some toplevel-property-extension entry is unregistered; the collected names are exactly those '
                              'declared by the registered toplevel-property-extension entries (all entries, whatever their order)', ens_scan)],
                    cut=lambda st: isinstance(st, ast.For) and ast.unparse(st.iter) == 'property_order',
                    handlers={'get_timestamp': h_opaque, 'class_for_type': h_class_for_type, 'getattr': h_getattr, 're.match': h_re_match, 'isinstance:stix2.v20._STIXBase20': isinst(IS20),
                              'collections.ChainMap': h_opaque, 'itertools.chain': h_opaque, 'sorted': h_opaque, 'get_required_properties': h_opaque},
                    registry_ext={'methods': {('.pop', 'J'): m_pop, ('.items', 'J'): m_items_ext, ('.keys', 'J'): m_keys_j, ('.keys', 'set'): m_keys_set, ('.keys', 'litdict'): m_keys_litdict},
                                  'attrs': {('stixself', '_properties'): attr_props, ('stixself', '__class__'): lambda x, o, p, site: iter([(p, Val('opaque', x='self.__class__'))])}, 'iterables': {'set': it_set}},
                    truthy_handlers={'cls': lambda x, v: v.x['found']},
                    local_sorts={'registered_toplevel_extension_props': 'set'},
                    loops={0: {'kind': 'inv', 'inv': inv_scan}},
                    note='region contract: no KeyError/AttributeError/IndexError can escape from the code that inspects raw input before cleaning; the extensions scan and the strict refusal of undeclared properties')
