"""Independent RFC 8785 (JCS) spec function.  No use of json/codecs for ordering, escaping or numbers."""
from fractions import Fraction
import math, struct

def utf16_units(s):
    out = []
    for ch in s:
        cp = ord(ch)
        if cp >= 0x10000:
            cp -= 0x10000; out.append(0xD800 | (cp >> 10)); out.append(0xDC00 | (cp & 0x3FF))
        else: out.append(cp)
    return out

_ESC = {0x08: '\\b', 0x09: '\\t', 0x0A: '\\n', 0x0C: '\\f', 0x0D: '\\r', 0x22: '\\"', 0x5C: '\\\\'}
def enc_string(s):
    parts = ['"']
    for ch in s:
        cp = ord(ch)
        if cp in _ESC: parts.append(_ESC[cp])
        elif cp < 0x20: parts.append('\\u%04x' % cp)
        else: parts.append(ch)
    parts.append('"'); return ''.join(parts)

def _exact(x):  # exact rational value of a double, from its bits
    bits = struct.unpack('>Q', struct.pack('>d', x))[0]
    sign = -1 if bits >> 63 else 1; e = (bits >> 52) & 0x7FF; m = bits & ((1 << 52) - 1)
    if e == 0: return sign * Fraction(m, 1 << 1074)
    return sign * Fraction((1 << 52) | m) * (Fraction(2) ** (e - 1075))
def _neighbours(x):
    bits = struct.unpack('>Q', struct.pack('>d', x))[0]
    lo = struct.unpack('>d', struct.pack('>Q', bits - 1))[0] if bits & ((1 << 63) - 1) else None
    hi = struct.unpack('>d', struct.pack('>Q', bits + 1))[0]
    return lo, hi
def shortest_digits(x):
    """(digits string, n) with x == 0.d1d2.. * 10^n, shortest digit string that rounds to x (ties: closest). x > 0 finite."""
    v = _exact(x); lo, hi = _neighbours(x)
    # rounding interval (round-half-even on mantissa)
    vlo = (v + _exact(lo)) / 2 if lo is not None else v / 2
    vhi = (v + _exact(hi)) / 2 if not math.isinf(hi) else v + (v - vlo)
    even = (struct.unpack('>Q', struct.pack('>d', x))[0] & 1) == 0
    def inside(q): return (vlo <= q <= vhi) if even else (vlo < q < vhi)
    # decimal exponent n such that 10^(n-1) <= v < 10^n
    n = len(str(v.numerator // v.denominator)) if v >= 1 else 0
    if v < 1:
        n = 0; t = v
        while t < Fraction(1, 10): t *= 10; n -= 1
    for k in range(1, 18):
        scale = Fraction(10) ** (n - k)
        d_floor = (v / scale).__floor__()
        cands = [c for c in (d_floor, d_floor + 1) if inside(c * scale)]
        if cands:
            best = min(cands, key=lambda c: (abs(c * scale - v), c % 2))   # closest; tie -> even (ECMAScript Number::toString note)
            ds = str(best); nn = n
            if len(ds) > k: nn += 1          # carried into a new digit (e.g. 9.99 -> 10.0)
            ds = ds.rstrip('0') or '0'
            return ds, nn
    raise AssertionError('no 17-digit representation?')
def enc_number(x):
    if isinstance(x, bool): raise TypeError
    if isinstance(x, int): x = float(x)
    if math.isnan(x) or math.isinf(x): raise ValueError('not JSON')
    if x == 0: return '0'
    sign = '-' if x < 0 else ''; x = abs(x)
    ds, n = shortest_digits(x); k = len(ds)
    # ECMAScript Number::toString
    if k <= n <= 21: return sign + ds + '0' * (n - k)
    if 0 < n <= 21: return sign + ds[:n] + '.' + ds[n:]
    if -6 < n <= 0: return sign + '0.' + '0' * (-n) + ds
    e = n - 1; es = ('+' if e >= 0 else '-') + str(abs(e))
    if k == 1: return sign + ds + 'e' + es
    return sign + ds[0] + '.' + ds[1:] + 'e' + es
def canon(v):
    if v is None: return 'null'
    if v is True: return 'true'
    if v is False: return 'false'
    if isinstance(v, (int, float)): return enc_number(v)
    if isinstance(v, str): return enc_string(v)
    if isinstance(v, (list, tuple)): return '[' + ','.join(canon(x) for x in v) + ']'
    if isinstance(v, dict):
        items = sorted(v.items(), key=lambda kv: utf16_units(kv[0]))
        return '{' + ','.join(enc_string(k) + ':' + canon(x) for k, x in items) + '}'
    raise TypeError(type(v))
