"""Frozen lexical rules of STIX 2.0 / 2.1 as regular languages + length bounds (reviewed by hand, never derived from the code).

Where the specification text is open to two readings the PERMISSIVE one is encoded (so the check cannot demand more than
the property states); the stricter reading is noted in a comment.
Sources: STIX 2.0 Part 1 sec. 2.x (common data types), Part 2 sec. 7 (customization), STIX 2.1 sec. 2, 3.1, 7.2.3.1, 11.
"""
import z3

RS = z3.ReSort(z3.StringSort())
lower = z3.Range('a', 'z'); upper = z3.Range('A', 'Z'); digit = z3.Range('0', '9')
hexd = z3.Union(z3.Range('a', 'f'), z3.Range('A', 'F'), digit)
U = z3.Union; C = z3.Concat; Star = z3.Star; Plus = z3.Plus; Loop = z3.Loop; Lit = z3.Re

lc_alnum = U(lower, digit)
lc_alnum_hy = U(lower, digit, Lit('-'))
ANY = Star(z3.AllChar(RS))

# ---- type names -------------------------------------------------------------------------------------------------------
# 2.0 (Part 1 sec 2.x / Part 2 sec 7.2): only a-z, 0-9 and hyphen; an identifier is "<type>--<uuid>", so a type name cannot
# contain "--".  Length 3..250.
TYPE_20 = z3.Intersect(Plus(lc_alnum_hy), z3.Complement(C(ANY, Lit('--'), ANY)), C(ANY, lc_alnum, ANY))     # the last conjunct: a name, not only hyphens
# 2.1 (sec 11.2): a-z, 0-9, hyphen, length 3..250, must begin with a-z.  Stricter reading (not enforced): no "--" either.
TYPE_21 = C(lower, Star(lc_alnum_hy))
TYPE_LEN = (3, 250)

# ---- dictionary keys (sec 2.x dictionary): a-z A-Z 0-9 hyphen underscore ----------------------------------------------
DICT_KEY = Plus(U(lower, upper, digit, Lit('-'), Lit('_')))
DICT_KEY_LEN = {'2.0': (3, 256), '2.1': (1, 250)}

# ---- hex: an even number of hexadecimal characters ---------------------------------------------------------------------
HEX = Plus(C(hexd, hexd))

# ---- granular marking selectors (2.1 sec 7.2.3.1; same in 2.0): property names joined by '.', list indices as [N] -------
_seg = U(lower, digit, Lit('_'), Lit('-'))
SELECTOR = U(C(Loop(_seg, 3, 250), Star(C(Lit('.'), U(C(Lit('['), Plus(digit), Lit(']')), Loop(_seg, 1, 250))))), Lit('id'))

# ---- hash values: hashing-algorithm vocabulary ----------------------------------------------------------------------------
def _hex_n(*ns): return U(*[Loop(hexd, n, n) for n in ns]) if len(ns) > 1 else Loop(hexd, ns[0], ns[0])


HASHES = {
    'MD5': _hex_n(32), 'MD6': _hex_n(32, 40, 56, 64, 96, 128), 'RIPEMD160': _hex_n(40), 'SHA1': _hex_n(40), 'SHA224': _hex_n(56), 'SHA256': _hex_n(64),
    'SHA384': _hex_n(96), 'SHA512': _hex_n(128), 'SHA3224': _hex_n(56), 'SHA3256': _hex_n(64), 'SHA3384': _hex_n(96), 'SHA3512': _hex_n(128),
    'SSDEEP': Loop(U(lower, upper, digit, *[Lit(c) for c in '/+:.']), 1, 128), 'WHIRLPOOL': _hex_n(128), 'TLSH': _hex_n(70),
}

# ---- custom property names ------------------------------------------------------------------------------------------------
# 2.1 sec 11.1: a-z, 0-9, underscore; length 3..250.  (The library checks only the first character: known finding.)
PROPERTY_NAME = Plus(U(lower, digit, Lit('_')))
PROPERTY_NAME_LEN = (3, 250)

# ---- identifiers: <type>--<UUID>, UUID in the canonical 8-4-4-4-12 hyphenated form; upper-case hex tolerated (permissive) --
UUID_TEXT = C(Loop(hexd, 8, 8), Lit('-'), Loop(hexd, 4, 4), Lit('-'), Loop(hexd, 4, 4), Lit('-'), Loop(hexd, 4, 4), Lit('-'), Loop(hexd, 12, 12))
