"""Independent reader, printer and evaluator for STIX patterning (frozen specification model for C09/C10).

Semantics (DESIGN Appendix B): an observation sequence is a list of (timestamp, {path: value}); a comparison is evaluated per
observation; an observation expression denotes a set of bindings (frozensets of observation indices): AND = unions of disjoint
bindings, OR = union, FOLLOWEDBY = disjoint unions ordered in time, REPEATS n = unions of n disjoint bindings, WITHIN = span bound,
START/STOP = window.  A pattern matches a sequence iff its binding set is non-empty."""
import re, itertools
TOK = re.compile(r"""\s*(?:(?P<ts>t'[^']*')|(?P<str>'(?:[^'\\]|\\.)*')|(?P<hex>h'[^']*')|(?P<bin>b'[^']*')|(?P<num>[+-]?\d+(?:\.\d+)?(?:[eE][+-]?\d+)?)|(?P<op><=|>=|!=|=|<|>)|(?P<punc>[\[\]\(\),:.*])|(?P<word>[A-Za-z_][A-Za-z0-9_-]*))""")
def tokenize(s):
    pos = 0; out = []
    while pos < len(s):
        if s[pos:].strip() == '': break
        m = TOK.match(s, pos)
        if not m: raise SyntaxError(f'bad token at {s[pos:pos+20]!r}')
        kind = m.lastgroup; out.append((kind, m.group(kind))); pos = m.end()
    return out
KEY = {'AND', 'OR', 'FOLLOWEDBY', 'NOT', 'IN', 'LIKE', 'MATCHES', 'ISSUBSET', 'ISSUPERSET', 'START', 'STOP', 'WITHIN', 'SECONDS', 'REPEATS', 'TIMES', 'true', 'false'}
class P:
    def __init__(s, toks): s.t = toks; s.i = 0
    def peek(s, k=0): return s.t[s.i + k] if s.i + k < len(s.t) else (None, None)
    def eat(s, val=None, kind=None):
        k, v = s.peek()
        if (val is not None and v != val) or (kind is not None and k != kind): raise SyntaxError(f'expected {val or kind} got {v!r} at {s.i}')
        s.i += 1; return v
    # observation level
    def pattern(s):
        r = s.fby(); 
        if s.peek() != (None, None): raise SyntaxError('trailing ' + repr(s.peek()))
        return r
    def nary(s, sub, word, tag):
        items = [sub()]
        while s.peek()[1] == word: s.eat(word); items.append(sub())
        return items[0] if len(items) == 1 else (tag, tuple(items))
    def fby(s): return s.nary(s.oor, 'FOLLOWEDBY', 'FBY')
    def oor(s): return s.nary(s.oand, 'OR', 'OOR')
    def oand(s): return s.nary(s.oqual, 'AND', 'OAND')
    def oqual(s):
        if s.peek()[1] == '[':
            s.eat('['); c = s.cor(); s.eat(']'); r = ('OBS', c)
        else:
            s.eat('('); r = ('PAREN', s.fby()); s.eat(')')
        while s.peek()[1] in ('START', 'WITHIN', 'REPEATS'):
            w = s.eat()
            if w == 'START': a = s.eat(kind='ts'); s.eat('STOP'); b = s.eat(kind='ts'); q = ('STARTSTOP', a, b)
            elif w == 'WITHIN': q = ('WITHIN', float(s.eat(kind='num'))); s.eat('SECONDS')
            else: q = ('REPEATS', int(s.eat(kind='num'))); s.eat('TIMES')
            r = ('QUAL', r, q)
        return r
    # comparison level
    def cor(s): return s.nary(s.cand, 'OR', 'COR')
    def cand(s): return s.nary(s.ctest, 'AND', 'CAND')
    def ctest(s):
        if s.peek()[1] == '(':
            s.eat('('); r = s.cor(); s.eat(')'); return ('CPAREN', r)
        path = s.path(); neg = False
        if s.peek()[1] == 'NOT': s.eat('NOT'); neg = True
        k, v = s.peek()
        if k == 'op': op = s.eat()
        else: op = s.eat(kind='word')
        rhs = s.lit_or_set()
        return ('CMP', path, op, neg, rhs)
    def path(s):
        typ = s.eat(kind='word'); s.eat(':'); steps = []
        while True:
            k, v = s.peek()
            if k == 'str': steps.append(('key', unq(s.eat())))
            else: steps.append(('key', s.eat(kind='word')))
            while s.peek()[1] == '[':
                s.eat('['); k2, v2 = s.peek(); s.eat(); s.eat(']'); steps.append(('idx', v2))
            if s.peek()[1] == '.': s.eat('.'); continue
            break
        return (typ, tuple(steps))
    def lit(s):
        k, v = s.peek(); s.eat()
        if k == 'num': return ('num', float(v) if ('.' in v or 'e' in v.lower()) else int(v))
        if k == 'str': return ('str', unq(v))
        if k == 'ts': return ('ts', v[2:-1])
        if k == 'hex': return ('hex', v[2:-1].lower())
        if k == 'bin': return ('bin', v[2:-1])
        if k == 'word' and v in ('true', 'false'): return ('bool', v == 'true')
        raise SyntaxError(f'literal? {v!r}')
    def lit_or_set(s):
        if s.peek()[1] == '(':
            s.eat('('); items = [s.lit()]
            while s.peek()[1] == ',': s.eat(','); items.append(s.lit())
            s.eat(')'); return ('set', tuple(items))
        return s.lit()
def unq(v):
    body = v[1:-1]; out = []; i = 0
    while i < len(body):
        if body[i] == '\\' and i + 1 < len(body): out.append(body[i + 1]); i += 2
        else: out.append(body[i]); i += 1
    return ''.join(out)
def read(text): return P(tokenize(text)).pattern()

# -------- structure normalisation for C10 (drop redundant parens only when they change nothing: keep them, compare exact trees)
def norm_cmp(t):
    if not isinstance(t, tuple): return t
    if t[0] == 'CMP' and t[2] == '!=': return ('CMP', t[1], '=', not t[3], t[4])
    return tuple(norm_cmp(x) if isinstance(x, tuple) else x for x in t)
def strip_parens(t):
    """remove grouping nodes but flatten nothing: used to compare *meaning-bearing structure* (precedence is explicit in the tree)."""
    if not isinstance(t, tuple): return t
    if t[0] in ('PAREN', 'CPAREN'): return strip_parens(t[1])
    return tuple(strip_parens(x) if isinstance(x, tuple) else x for x in t)

# -------- printing from my tree (the generator's own syntax)
def esc(s): return s.replace('\\', '\\\\').replace("'", "\\'")
def plit(l):
    k, v = l
    if k == 'num':
        if isinstance(v, int): return str(v)
        r = repr(float(v))
        if 'e' in r:                       # the grammar has no exponent notation: positional digits of the shortest repr
            import decimal
            r = format(decimal.Decimal(r), 'f')
            if '.' not in r: r += '.0'
        return r
    if k == 'str': return "'" + esc(v) + "'"
    if k == 'ts': return "t'" + v + "'"
    if k == 'hex': return "h'" + v + "'"
    if k == 'bin': return "b'" + v + "'"
    if k == 'bool': return 'true' if v else 'false'
    if k == 'set': return '(' + ', '.join(plit(x) for x in v) + ')'
def ppath(p):
    typ, steps = p; out = ''
    for i, (k, v) in enumerate(steps):
        if k == 'key': out += ('.' if i else '') + (("'" + v + "'") if '-' in v else v)
        else: out += f'[{v}]'
    return typ + ':' + out
def show(t):
    k = t[0]
    if k == 'CMP': return f"{ppath(t[1])} {'NOT ' if t[3] else ''}{t[2]} {plit(t[4])}"
    if k == 'CAND': return ' AND '.join(('(' + show(x) + ')') if x[0] == 'COR' else show(x) for x in t[1])
    if k == 'COR': return ' OR '.join(show(x) for x in t[1])
    if k in ('CPAREN', 'PAREN'): return '(' + show(t[1]) + ')'
    if k == 'OBS': return '[' + show(t[1]) + ']'
    if k in ('OAND', 'OOR', 'FBY'):
        prec = {'FBY': 0, 'OOR': 1, 'OAND': 2}
        def child(x): return '(' + show(x) + ')' if x[0] in prec and prec[x[0]] <= prec[k] else show(x)
        return {'OAND': ' AND ', 'OOR': ' OR ', 'FBY': ' FOLLOWEDBY '}[k].join(child(x) for x in t[1])
    if k == 'QUAL':
        q = t[2]
        qs = f"START {q[1]} STOP {q[2]}" if q[0] == 'STARTSTOP' else f'WITHIN {int(q[1])} SECONDS' if q[0] == 'WITHIN' else f'REPEATS {q[1]} TIMES'
        inner = show(t[1]); inner = '(' + inner + ')' if t[1][0] in ('OAND', 'OOR', 'FBY') else inner
        return inner + ' ' + qs
    raise ValueError(k)

# -------- semantics over bounded observation sequences
def cmp_holds(c, ob):
    _, path, op, neg, rhs = c
    if path not in ob: return False           # property absent: comparison false (NOT of a failed lookup stays false per spec: no value to compare)
    v = ob[path]
    def val(l): return l[1]
    if op == '=': r = (v == val(rhs)) if rhs[0] != 'set' else v in [val(x) for x in rhs[1]]
    elif op == '!=': r = v != val(rhs)
    elif op == 'IN': r = v in [val(x) for x in rhs[1]]
    elif op in ('<', '<=', '>', '>='):
        try: r = {'<': v < val(rhs), '<=': v <= val(rhs), '>': v > val(rhs), '>=': v >= val(rhs)}[op]
        except TypeError: r = False
    elif op == 'LIKE': r = isinstance(v, str) and v == val(rhs)        # no wildcards in the generated constants
    elif op == 'MATCHES': r = isinstance(v, str) and re.search(val(rhs), v) is not None
    else: raise NotImplementedError(op)
    return (not r) if neg else r
def tok(l):
    """typed value token of a literal: numbers compare numerically whatever their spelling, every other kind only with its own kind"""
    k, v = l
    return ('num', float(v)) if k == 'num' else (k, v)
def cmp_holds_typed(c, ob):
    """as cmp_holds, for observations holding typed tokens (kind, value): equality within a kind, ordering on numbers only"""
    _, path, op, neg, rhs = c
    if path not in ob: return False
    v = ob[path]
    if op in ('=', '!='): r = (v == tok(rhs)) if rhs[0] != 'set' else v in [tok(x) for x in rhs[1]]; r = (not r) if op == '!=' else r
    elif op == 'IN': r = v in [tok(x) for x in rhs[1]]
    elif op in ('<', '<=', '>', '>='):
        w = tok(rhs)
        r = v[0] == 'num' and w[0] == 'num' and {'<': v[1] < w[1], '<=': v[1] <= w[1], '>': v[1] > w[1], '>=': v[1] >= w[1]}[op]
    else: raise NotImplementedError(op)
    return (not r) if neg else r
TYPED = [False]          # observations hold typed tokens (set by matches_typed)
def ceval(t, ob):
    k = t[0]
    if k == 'CMP': return cmp_holds_typed(t, ob) if TYPED[0] else cmp_holds(t, ob)
    if k == 'CAND': return all(ceval(x, ob) for x in t[1])
    if k == 'COR': return any(ceval(x, ob) for x in t[1])
    if k == 'CPAREN': return ceval(t[1], ob)
def bindings(t, seq):
    k = t[0]
    if k == 'OBS': return {frozenset([i]) for i, (ts, ob) in enumerate(seq) if ceval(t[1], ob)}
    if k == 'PAREN': return bindings(t[1], seq)
    if k == 'OOR': return set().union(*[bindings(x, seq) for x in t[1]])
    if k in ('OAND', 'FBY'):
        acc = bindings(t[1][0], seq)
        for x in t[1][1:]:
            bx = bindings(x, seq); new = set()
            for a in acc:
                for b in bx:
                    if a & b: continue
                    if k == 'FBY' and max(seq[i][0] for i in a) > min(seq[i][0] for i in b): continue
                    new.add(a | b)
            acc = new
        return acc
    if k == 'QUAL':
        b = bindings(t[1], seq); q = t[2]
        if q[0] == 'WITHIN': return {x for x in b if max(seq[i][0] for i in x) - min(seq[i][0] for i in x) <= q[1]}
        if q[0] == 'STARTSTOP':
            lo, hi = TS[q[1]], TS[q[2]]; return {x for x in b if all(lo <= seq[i][0] < hi for i in x)}
        if q[0] == 'REPEATS':
            n = q[1]; out = set()
            for combo in itertools.combinations(sorted(b, key=sorted), n):
                if all(not (combo[i] & combo[j]) for i in range(n) for j in range(i + 1, n)): out.add(frozenset().union(*combo))
            return out
    raise ValueError(k)
TS = {"t'2020-01-01T00:00:00Z'": 0, "t'2020-01-01T00:00:01Z'": 1, "t'2020-01-01T00:00:05Z'": 5, "t'2020-01-01T00:00:10Z'": 10, "t'2020-01-01T00:00:02Z'": 2, "t'2020-01-01T00:00:20Z'": 20}
def matches(t, seq): return bool(bindings(t, seq))
def matches_typed(t, seq):
    TYPED[0] = True
    try: return bool(bindings(t, seq))
    finally: TYPED[0] = False
