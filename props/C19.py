"""C19 -- custom type registration is exact, exclusive and version-scoped."""
import itertools, json, os, subprocess, sys
import z3
from vf.pyvc.lib import REG
from vf.callsites import purity_obligations
from vf.check import SRC_ROOT, ROOT
from contracts import registration as K, cleaners as KC
from props.C02 import lexical_part

LEVEL = 'other'

WORKER = r'''
import json, sys
import stix2
from stix2 import registry, properties as P
hist = json.loads(sys.argv[1])
out = []
def snap(): return {v: {c: {n: id(k) for n, k in m.items()} for c, m in cats.items()} for v, cats in registry.STIX2_OBJ_MAPS.items()}
def make(kind, name, ver, props=None, ext=None):
    mod = stix2.v21 if ver == '2.1' else stix2.v20
    props = props or [('x_val', P.IntegerProperty())]
    if kind == 'object+ext':
        @mod.CustomObject(name, props, extension_name=ext)
        class C(object): pass
    elif kind == 'observable+ext':
        @mod.CustomObservable(name, props, id_contrib_props=['x_val'], extension_name=ext)
        class C(object): pass
    elif kind == 'object':
        @mod.CustomObject(name, props)
        class C(object): pass
    elif kind == 'observable':
        kw = {'id_contrib_props': ['x_val']} if ver == '2.1' else {}
        @mod.CustomObservable(name, props, **kw)
        class C(object): pass
    elif kind == 'marking':
        @mod.CustomMarking(name, props)
        class C(object): pass
    elif kind == 'extension':
        @mod.CustomExtension(name, props)
        class C(object): pass
    return C
CAT = {'object': 'objects', 'observable': 'observables', 'marking': 'markings', 'extension': 'extensions', 'object+ext': 'objects', 'observable+ext': 'observables'}
classes = {}
for step in hist:
    kind, name, ver = step['kind'], step['name'], step['ver']
    before = snap()
    try:
        c = make(kind, name, ver, [(step['prop'], P.IntegerProperty())] if step.get('prop') else None, step.get('ext'))
        res = 'ok'; classes[(kind, name, ver)] = c
    except Exception as ex:
        res = type(ex).__name__
    after = snap()
    delta = [(v, cat, t) for v in after for cat in after[v] for t in after[v][cat] if t not in before[v][cat]]
    lost = [(v, cat, t) for v in before for cat in before[v] for t in before[v][cat] if t not in after[v][cat] or after[v][cat][t] != before[v][cat][t]]
    kind = kind.split('+')[0]
    # parse behaviour after the step, for both versions
    parsed = {}
    U = '00000000-0000-4000-8000-000000000001'
    for pv in ('2.0', '2.1'):
        try:
            if kind == 'object':
                d = {'type': name, 'id': name + '--' + U, 'created': '2020-01-01T00:00:00.000Z', 'modified': '2020-01-01T00:00:00.000Z', 'x_val': 1}
                if pv == '2.1': d['spec_version'] = '2.1'
                o = stix2.parse(d, version=pv)
            elif kind == 'observable':
                d = {'type': name, 'x_val': 1}
                if pv == '2.1': d.update(id=name + '--' + U, spec_version='2.1')
                o = stix2.parse_observable(d, version=pv)
            else:
                o = None
            parsed[pv] = type(o).__module__ + '.' + type(o).__name__ if o is not None else None
            if o is not None and hasattr(o, 'serialize'):
                back = stix2.parse(o.serialize(), version=pv) if kind == 'object' else stix2.parse_observable(o.serialize(), version=pv)
                parsed[pv + ':roundtrip'] = (back == o and type(back) is type(o))
        except Exception as ex:
            parsed[pv] = 'ERR:' + type(ex).__name__
    # the same content WITHOUT naming a version: content shaped like 2.0 (no spec_version) belongs to the 2.0 registration, content carrying spec_version 2.1 to the 2.1 one --
    # bare, in a 2.0 bundle and in a 2.1 bundle
    if kind == 'object':
        for shape in ('2.0', '2.1'):
            d = {'type': name, 'id': name + '--' + U, 'created': '2020-01-01T00:00:00.000Z', 'modified': '2020-01-01T00:00:00.000Z', 'x_val': 1}
            if shape == '2.1': d['spec_version'] = '2.1'
            for wrap in ('bare', 'bundle'):
                w = dict(d) if wrap == 'bare' else dict({'type': 'bundle', 'id': 'bundle--' + U, 'objects': [dict(d)]}, **({'spec_version': '2.0'} if shape == '2.0' else {}))
                for ac in (False, True):
                    try:
                        o = stix2.parse(w, allow_custom=ac)
                        if wrap == 'bundle': o = o['objects'][0]
                        parsed[f'unversioned:{shape}:{wrap}:{ac}'] = type(o).__module__ + '.' + type(o).__name__
                    except Exception as ex: parsed[f'unversioned:{shape}:{wrap}:{ac}'] = 'ERR:' + type(ex).__name__
    # a registered (non x-) object type is a legal reference target in strict mode, under exactly the versions it is registered for
    refs = {}
    if kind == 'object' and not name.startswith('x-'):
        for pv in ('2.0', '2.1'):
            m = stix2.v21 if pv == '2.1' else stix2.v20
            try:
                m.Relationship(source_ref=name + '--' + U, target_ref='identity--' + U, relationship_type='related-to'); refs[pv] = 'ok'
            except Exception as ex: refs[pv] = 'ERR:' + type(ex).__name__
    reg = registry.STIX2_OBJ_MAPS[ver][CAT[kind]].get(name)
    usable = None
    if step.get('probe_ext'):
        # a registration made earlier under this extension id must still be there and usable
        k0 = registry.STIX2_OBJ_MAPS['2.1']['extensions'].get(step['probe_ext'])
        if k0 is None: usable = False
        else:
            usable = 'ERR'
            for kw in ({}, {'x_val': 1}):
                try:
                    if k0(**kw) is not None: usable = True; break
                except Exception as ex: usable = 'ERR:' + type(ex).__name__
    out.append({'step': step, 'result': res, 'delta': delta, 'lost': lost, 'parsed': parsed, 'usable': usable, 'refs': refs,
                'registered_is_new': (reg is classes.get((step['kind'], name, ver))) if res == 'ok' else None})
print(json.dumps(out))
'''

SCENARIO = r'''
import json, sys
import stix2
from stix2 import registry, properties as P
order, kind = sys.argv[1], sys.argv[2]
EXT = 'extension-definition--5e1f3b6a-8c2d-4e9f-a0b1-c2d3e4f5a6b7'
out = []
def say(key, what): out.append([key, what])
if kind in ('object', 'observable'):
    # ONE undecorated class handed to the decorators of both spec versions (the 2.1 one with an extension-definition id): each version's type is its own
    class Plain(object): pass
    props = [('x_val', P.IntegerProperty())]
    def reg(ver):
        m = stix2.v21 if ver == '2.1' else stix2.v20
        if kind == 'object': return m.CustomObject('x-vf-both', props, **({'extension_name': EXT} if ver == '2.1' else {}))(Plain)
        return m.CustomObservable('x-vf-both', props, **({'extension_name': EXT, 'id_contrib_props': ['x_val']} if ver == '2.1' else {}))(Plain)
    for ver in (('2.0', '2.1') if order == '20-first' else ('2.1', '2.0')):
        try: reg(ver)
        except Exception as ex: say('scenario#one class, both versions:registration', f'registering under {ver} ({order}) failed: {type(ex).__name__}: {ex}')
    cat = 'objects' if kind == 'object' else 'observables'
    for ver in ('2.0', '2.1'):
        cls = registry.STIX2_OBJ_MAPS[ver][cat].get('x-vf-both')
        if cls is None: continue
        try:
            o = cls(x_val=1); d = json.loads(o.serialize())
            if ver == '2.0' and 'extensions' in d: say('scenario#one class, both versions:2.0 instances carry no 2.1 extension', f'{kind} ({order}): the 2.0 instance is written with extensions {d["extensions"]}')
            if ver == '2.1' and EXT not in d.get('extensions', {}): say('scenario#one class, both versions:2.1 instances carry their extension', f'{kind} ({order}): the 2.1 instance is written without its extension-definition entry: {d}')
            back = stix2.parse(o.serialize(), version=ver) if kind == 'object' else stix2.parse_observable(o.serialize(), version=ver)
            if type(back) is not cls or back != o: say('scenario#one class, both versions:round trip', f'{kind} {ver} ({order}): parse(serialize(o)) gives {type(back).__module__}.{type(back).__name__}, equal={back == o}')
        except Exception as ex: say('scenario#one class, both versions:round trip', f'{kind} {ver} ({order}): {type(ex).__name__}: {str(ex)[:160]}')
elif kind == 'inherit':
    # the validation a registered custom class is written with applies wherever it is written: in the decorated class itself or in a class it inherits from
    class Validating(object):
        def __init__(self, x_val=None, **kwargs):
            if x_val is not None and x_val < 0: raise ValueError('x_val must not be negative')
    for ver in ('2.1', '2.0'):
        m = stix2.v21 if ver == '2.1' else stix2.v20
        for where in ('own', 'inherited'):
            def mk(deco):
                if where == 'own':
                    class C(object):
                        def __init__(self, x_val=None, **kwargs):
                            if x_val is not None and x_val < 0: raise ValueError('x_val must not be negative')
                else:
                    class C(Validating): pass
                return deco(C)
            props = [('x_val', P.IntegerProperty())]
            kinds = {'object': lambda: mk(m.CustomObject(f'x-vf-inh-{where[:3]}-o', props)), 'marking': lambda: mk(m.CustomMarking(f'x-vf-inh-{where[:3]}-m', props)),
                     'extension': lambda: mk(m.CustomExtension(f'x-vf-inh-{where[:3]}-ext', props)),
                     'observable': lambda: mk(m.CustomObservable(f'x-vf-inh-{where[:3]}-sco', props, **({'id_contrib_props': ['x_val']} if ver == '2.1' else {})))}
            for kn, reg in kinds.items():
                try: cls = reg()
                except Exception as ex:
                    say('scenario#validation written in the class applies:registration', f'{ver} {kn} ({where} __init__): registration failed: {type(ex).__name__}: {ex}'); continue
                try: cls(x_val=1)
                except Exception as ex: say('scenario#validation written in the class applies:valid value', f'{ver} {kn} ({where} __init__): x_val=1 refused: {type(ex).__name__}: {ex}')
                try:
                    cls(x_val=-1); say('scenario#validation written in the class applies', f'{ver} custom {kn} whose __init__ check is {where}: a value that check rejects (x_val=-1) is accepted')
                except (ValueError, stix2.exceptions.STIXError): pass
else:
    # two registered custom marking types: a marking-definition naming one of them never holds an object of the other
    for ver in ('2.1', '2.0'):
        m = stix2.v21 if ver == '2.1' else stix2.v20
        names = (('x-vf-m1', 'a'), ('x-vf-m2', 'b')) if order == '20-first' else (('x-vf-m2', 'b'), ('x-vf-m1', 'a'))
        cl = {}
        for n, pn in names: cl[n] = m.CustomMarking(n, [(pn, P.IntegerProperty(required=True))])(type('M', (object,), {}))
        for dt, obj, what in (('x-vf-m1', lambda: cl['x-vf-m2'](b=1), 'an object of the other registered custom marking'), ('x-vf-m2', lambda: cl['x-vf-m1'](a=1), 'an object of the other registered custom marking'),
                              ('statement', lambda: cl['x-vf-m1'](a=1), 'a registered custom marking object'), ('x-vf-m1', lambda: m.StatementMarking(statement='s'), 'a statement marking object'),
                              ('x-vf-m1', lambda: cl['x-vf-m1'](a=1), 'an object of its own class')):
            try: md = m.MarkingDefinition(definition_type=dt, definition=obj())
            except Exception as ex:
                if what == 'an object of its own class': say('scenario#marking definition of a registered type', f'{ver}: definition_type {dt} with {what} refused: {type(ex).__name__}: {str(ex)[:120]}')
                continue
            try:
                back = stix2.parse(md.serialize(), version=ver)
                if back != md: say('scenario#marking definition holds an object of the named type only', f'{ver}: definition_type {dt} with {what}: accepted, but the serialization parses to something else')
                elif what != 'an object of its own class' and type(back.definition).__name__ != type(cl.get(dt, m.StatementMarking)).__name__ and set(json.loads(md.serialize())['definition']) != set(json.loads(back.serialize())['definition']):
                    say('scenario#marking definition holds an object of the named type only', f'{ver}: definition_type {dt} with {what}: accepted as {md.serialize()[:160]}')
            except Exception as ex: say('scenario#marking definition holds an object of the named type only', f'{ver}: definition_type {dt} with {what}: accepted, written as {json.loads(md.serialize())["definition"]}, which the library then refuses: {type(ex).__name__}')
print(json.dumps(out))
'''

VALID = ['x-vf-a', 'x-vf-b']
INVALID_NAMES = {'2.0': ['X-upper', 'x_underscore', 'ab', 'x--y', 'x-a\n', 'é-type'], '2.1': ['7x-foo', '-lead', 'X-upper', 'x_underscore', 'ab', 'x-a\n']}


def run(chk):
    chk.registry = REG
    chk.explanation = ('P: each of _register_object/_marking/_observable/_extension: a name already in the chosen version\'s map => DuplicateRegistrationError with NO registry '
                       'store; success => exactly one store, into the map of exactly the chosen version and category, under the type name, with the new class, and the name was '
                       'free (so every other version/category map is untouched); type-name grammar: language of TYPE_REGEX / TYPE_21_REGEX == specification grammar and '
                       '_validate_type accepts exactly the valid names per version; _validate_type reads no mutable module state.  B: registration histories of length <= 3 '
                       '(valid, duplicate, invalid names, both versions, all four kinds) interleaved with parsing, each history in a fresh subprocess: registry delta, '
                       'version scoping of parse, round trip of registered custom types, refusal of invalid names and mis-shaped reference properties.')
    chk.assume('custom property names are checked for their first character only: known finding')
    lexical_part(chk, 'C19')
    for f in K.KINDS:
        c = K.register_contract(f); chk.prove(c); chk.canary(c)
    c = KC.validate_type_contract(); chk.prove(c); chk.canary(c)
    from contracts import parsing as KPI
    c = KC.reference_clean_contract(); chk.prove(c)       # references to registered types are resolved under the property's own spec version (version scoping of registrations)
    c = KPI.init_prefix_contract(); chk.prove(c)          # the extensions scan: every registered toplevel-property-extension entry counts, whatever its position
    for ob in purity_obligations(SRC_ROOT, ['stix2/registry.py::class_for_type'], allow=('STIX2_OBJ_MAPS',)) + purity_obligations(SRC_ROOT, ['stix2/properties.py::_validate_type', 'stix2/registration.py::_validate_props',
                                            'stix2/registration.py::_validate_ref_props', 'stix2/registration.py::_register_object', 'stix2/registration.py::_register_observable',
                                            'stix2/registration.py::_register_marking', 'stix2/registration.py::_register_extension']):
        chk.lemmas.append(ob)
        if ob.result != 'discharged':
            chk.violation('frame#' + ob.clause.split(':')[2].split(' ')[0], 'frame obligation fails: ' + ob.clause, {'obligation': ob.clause}, no_input=True)
    kinds = ['object', 'observable', 'marking', 'extension']

    def histories():
        steps = []
        for k in kinds:
            for ver in ('2.0', '2.1'):
                nm = VALID[0] + ('-ext' if k == 'extension' else '')
                steps.append({'kind': k, 'name': nm, 'ver': ver})
        for k in ('object', 'observable'):
            for ver in ('2.0', '2.1'):
                for bad in INVALID_NAMES[ver][:3 if chk.tier == 'quick' else 6]: steps.append({'kind': k, 'name': bad, 'ver': ver, 'invalid': True})
        steps.append({'kind': 'object', 'name': 'x-vf-badprop', 'ver': '2.1', 'prop': '7bad', 'invalid': True})
        hs = [(s,) for s in steps]
        core = [s for s in steps if not s.get('invalid')]
        pairs = list(itertools.product(core, repeat=2))
        hs += pairs if chk.tier == 'thorough' else [p for i, p in enumerate(pairs) if (i + chk.seed) % 3 == 0]
        # a plain (non x-) custom type name, per version and in both: reference targets follow the registration
        pl = lambda ver: {'kind': 'object', 'name': 'vf-plain-type', 'ver': ver}
        hs += [(pl('2.0'),), (pl('2.1'),), (pl('2.0'), pl('2.1')), (pl('2.1'), pl('2.0')), (pl('2.0'), {'kind': 'object', 'name': 'x-vf-a', 'ver': '2.1'})]
        # cross-version name rules: a name legal in one version only, validated first for the version that allows it
        for k in ('object', 'observable'):
            hs.append(({'kind': k, 'name': '7x-foo', 'ver': '2.0'}, {'kind': k, 'name': '7x-foo', 'ver': '2.1', 'invalid': True}))
            hs.append(({'kind': k, 'name': 'x-a--b', 'ver': '2.1'}, {'kind': k, 'name': 'x-a--b', 'ver': '2.0', 'invalid': True}))
        # types declared together with an extension-definition id (extension_name=): the id is a registration of its own
        E1, E2 = 'extension-definition--00000000-0000-4000-8000-0000000000e1', 'extension-definition--00000000-0000-4000-8000-0000000000e2'
        oe = lambda k, n, e, **kw: dict({'kind': k + '+ext', 'name': n, 'ver': '2.1', 'ext': e}, **kw)
        hs += [(oe('object', 'x-vf-a', E1),), (oe('observable', 'x-vf-a', E1),),
               ({'kind': 'extension', 'name': E1, 'ver': '2.1'}, oe('object', 'x-vf-b', E1, ext_taken=True, probe_ext=E1)),
               ({'kind': 'extension', 'name': E1, 'ver': '2.1'}, oe('observable', 'x-vf-b', E1, ext_taken=True, probe_ext=E1)),
               (oe('object', 'x-vf-a', E1), oe('object', 'x-vf-b', E1, ext_taken=True, probe_ext=E1)), (oe('object', 'x-vf-a', E1), oe('observable', 'x-vf-b', E1, ext_taken=True, probe_ext=E1)),
               (oe('observable', 'x-vf-a', E1), oe('observable', 'x-vf-b', E1, ext_taken=True, probe_ext=E1)), (oe('object', 'x-vf-a', E1), oe('object', 'x-vf-b', E2)),
               (oe('object', 'x-vf-a', E1), oe('object', 'x-vf-b', E1, ext_taken=True, probe_ext=E1), oe('object', 'x-vf-b', E2))]
        triples = [(a, b, c) for a in core[:4] for b in core[:4] for c in core[:4]]
        hs += triples if chk.tier == 'thorough' else triples[chk.seed % 7::7]
        return hs
    env = dict(os.environ, PYTHONPATH=SRC_ROOT if SRC_ROOT != '/repo' else os.environ.get('PYTHONPATH', ''))

    def check(hist):
        r = subprocess.run([sys.executable, '-c', WORKER, json.dumps(list(hist))], capture_output=True, text=True, env=env, timeout=120)
        if r.returncode != 0:
            raise RuntimeError('worker failed: ' + r.stderr[-300:])
        res = json.loads(r.stdout.strip().splitlines()[-1])
        registered = set()
        CAT = {'object': 'objects', 'observable': 'observables', 'marking': 'markings', 'extension': 'extensions', 'object+ext': 'objects', 'observable+ext': 'observables'}
        for st in res:
            s = st['step']; key = (s['ver'], CAT[s['kind']], s['name'])
            names = [(x['kind'], x['name'], x['ver']) for x in hist]
            if st['lost']: return ('registry#existing registrations intact', f'{names}: step {s} removed or replaced {st["lost"]}', {})
            if st.get('usable') not in (None, True): return ('registry#existing registrations intact', f'{names}: after step {s} the earlier registration under {s.get("probe_ext")} is no longer usable ({st["usable"]})', {})
            if '+ext' in s['kind']:
                if s.get('ext_taken'):
                    if st['result'] != 'DuplicateRegistrationError': return ('exclusive#duplicate refused', f'{names}: extension id {s["ext"]} was taken, registration gave {st["result"]}', {})
                    continue          # (what else a refused combined registration may leave behind is not stated by the property: only existing registrations are checked)
                if st['result'] != 'ok': return ('exact#valid registration accepted', f'{names}: valid registration {key} with extension id {s["ext"]} refused: {st["result"]}', {})
                want = sorted([list(key), ['2.1', 'extensions', s['ext']]])
                if sorted(list(d) for d in st['delta']) != want: return ('exact#registry gains exactly the registered name', f'{names}: step {s} changed {st["delta"]}, expected {want}', {})
                registered.add(key); registered.add(('2.1', 'extensions', s['ext']))
                continue
            if s.get('invalid'):
                if st['result'] == 'ok': return (f'naming#invalid name accepted:{s["kind"]}', f'{names}: registration of invalid name {s["name"]!r} for {s["ver"]} accepted', {'step': s})
                if st['delta']: return ('registry#refused registration leaves registries unchanged', f'{names}: refused step {s} changed {st["delta"]}', {})
                continue
            if key in registered:
                if st['result'] != 'DuplicateRegistrationError': return ('exclusive#duplicate refused', f'{names}: second registration of {key} gave {st["result"]}', {})
                if st['delta']: return ('registry#refused registration leaves registries unchanged', f'{names}: duplicate step changed {st["delta"]}', {})
                continue
            if st['result'] != 'ok': return ('exact#valid registration accepted', f'{names}: valid registration {key} refused: {st["result"]}', {})
            if [tuple(d) for d in st['delta']] != [key]: return ('exact#registry gains exactly the registered name', f'{names}: step {s} changed {st["delta"]}, expected exactly {key}', {})
            if st['registered_is_new'] is False: return ('exact#name maps to the registered class', f'{names}: {key} does not map to the class just registered', {})
            registered.add(key)
            for pv, r in (st.get('refs') or {}).items():
                should = (pv, 'objects', s['name']) in registered
                if (r == 'ok') != should:
                    return ('scope#reference target follows the registration', f'{names}: after {s}, a strict {pv} relationship referring to {s["name"]} is {"accepted" if r == "ok" else "refused (" + r + ")"}; registered for {pv}: {should}', {})
            if s['kind'] in ('object', 'observable'):
                other = '2.0' if s['ver'] == '2.1' else '2.1'
                p = st['parsed']
                if str(p.get(s['ver'])).startswith('ERR') or p.get(s['ver']) in (None, 'builtins.dict'): return ('exact#registered name parses to the class', f'{names}: after {s}, parse under {s["ver"]} gives {p.get(s["ver"])}', {})
                if p.get(s['ver'] + ':roundtrip') is False: return ('roundtrip#registered custom type', f'{names}: instance of {key} does not survive serialize/parse', {})
                if (other, CAT[s['kind']], s['name']) not in registered and not (str(p.get(other)).startswith('ERR') or p.get(other) == 'builtins.dict'):
                    return ('scope#registration is version-scoped', f'{names}: {key} also parses under {other}: {p.get(other)}', {})
                for k2, r in p.items():
                    if not k2.startswith('unversioned:'): continue
                    _, shape, wrap, ac = k2.split(':')
                    if ('2.1', 'observables', s['name']) in registered: continue          # (a 2.1 observable of the same name: content with an id and no spec_version is read as that observable -- the library's documented rule)
                    is_reg = (shape, 'objects', s['name']) in registered or (shape, 'observables', s['name']) in registered      # (the same name registered as an observable of that version: built as that version's class)
                    built = not (str(r).startswith('ERR') or r == 'builtins.dict')
                    if built and ('.v20.' in r or r.startswith('stix2.v20')) != (shape == '2.0') and 'stix2.v2' in r:
                        return ('scope#registration is version-scoped', f'{names}: after {s}, {shape}-shaped content of {s["name"]} parsed without a version ({wrap}, allow_custom={ac}) is built as {r}', {})
                    if built and not is_reg:
                        return ('scope#registration is version-scoped', f'{names}: after {s}, {shape}-shaped content of {s["name"]} (not registered for {shape}) parsed without a version ({wrap}, allow_custom={ac}) is built as {r}', {})
                    if (shape, 'objects', s['name']) in registered and not built and wrap == 'bare':
                        return ('exact#registered name parses to the class', f'{names}: after {s}, {shape}-shaped content of {s["name"]} parsed without a version (allow_custom={ac}) gives {r}', {})
        return None
    def scen_check(case):
        r = subprocess.run([sys.executable, '-c', SCENARIO, case[0], case[1]], capture_output=True, text=True, env=env, timeout=120)
        if r.returncode != 0: raise RuntimeError('scenario worker failed: ' + r.stderr[-300:])
        found = json.loads(r.stdout.strip().splitlines()[-1])
        if found: return (found[0][0], found[0][1], {'order': case[0], 'kind': case[1], 'all': found[:5]})
    chk.bounded('cross-version and cross-class scenarios (fresh subprocess each)', [(o, k) for o in ('20-first', '21-first') for k in ('object', 'observable', 'marking')] + [('20-first', 'inherit')], scen_check, classify=lambda c: c,
                bound='one undecorated class registered under both spec versions (2.1 with extension_name) as object / observable, two custom markings and marking definitions naming one but holding the other; both registration orders')
    chk.bounded('registration histories (fresh subprocess each)', histories(), check, classify=lambda h: tuple((s['kind'], s['name'], s['ver']) for s in h),
                bound='histories of length <= 3 over {4 kinds x 2 versions x valid/duplicate/invalid names}; ' + ('all pairs, 64 triples' if chk.tier == 'thorough' else 'every 3rd pair, every 7th triple'))

    # mis-shaped reference properties are refused at registration
    import stix2
    from stix2 import properties as P

    def ref_cases():
        for ver in ('2.0', '2.1'):
            for kind in ('object', 'observable'):
                for pname, prop, ok in (('x_foo_ref', P.ReferenceProperty(valid_types='identity', spec_version=ver), True), ('x_foo_refs', P.ListProperty(P.ReferenceProperty(valid_types='identity', spec_version=ver)), True),
                                        ('x_bar_ref', P.ListProperty(P.ReferenceProperty(valid_types='identity', spec_version=ver)), False), ('x_bar_refs', P.ReferenceProperty(valid_types='identity', spec_version=ver), False),
                                        ('x_baz_ref', P.StringProperty(), False), ('x_baz_refs', P.ListProperty(P.StringProperty), False)):
                    if kind == 'observable' and ver == '2.0': continue
                    yield (ver, kind, pname, prop, ok)
    n = [0]

    def check_ref(case):
        ver, kind, pname, prop, ok = case
        n[0] += 1
        mod = stix2.v21 if ver == '2.1' else stix2.v20
        name = f'x-vf-ref{n[0]}'
        try:
            if kind == 'object':
                @mod.CustomObject(name, [(pname, prop)])
                class C(object): pass
            else:
                @mod.CustomObservable(name, [(pname, prop), ('x_v', P.IntegerProperty())], id_contrib_props=['x_v'])
                class C(object): pass
            accepted = True
        except ValueError:
            accepted = False
        if accepted != ok:
            return (f'naming#reference property shape:{pname.split("_")[-1]}', f'{ver} {kind}: property {pname} declared as {type(prop).__name__} was ' + ('accepted' if accepted else 'refused'), {})
    chk.bounded('reference-property naming rule at registration', list(ref_cases()), check_ref, classify=lambda c: c[:3], bound='_ref/_refs names x {ReferenceProperty, list of it, string, list of string} x kinds x versions')

    # property names at registration (2.1): lower-case ASCII letters, digits and underscore, 3-250 characters
    def pname_cases():
        for kind in ('object', 'observable', 'extension'):
            for pname, ok in (('x_ok_name', True), ('abc', True), ('a' * 250, True), ('a b', False), ('aB', False), ('x-hyphen', False), ('ab', False), ('xé_name', False), ('x_name\n', False),
                              ('a' * 251, False), ('_lead', None), ('7bad', None), ('A_upper_first', False), (' lead', False), ('', False), ('\u00fcber_prop', False), ('\u03b1_prop', False), ('Xprop', False)):
                yield (kind, pname, ok)
    m = [0]

    def check_pname(case):
        kind, pname, ok = case
        m[0] += 1
        name = f'x-vf-pn{m[0]}'
        try:
            if kind == 'object':
                @stix2.v21.CustomObject(name, [(pname, P.IntegerProperty())])
                class C(object): pass
            elif kind == 'observable':
                @stix2.v21.CustomObservable(name, [(pname, P.IntegerProperty()), ('x_v', P.IntegerProperty())], id_contrib_props=['x_v'])
                class C(object): pass
            else:
                @stix2.v21.CustomExtension(name + '-ext', [(pname, P.IntegerProperty())])
                class C(object): pass
            accepted = True
        except (ValueError, stix2.exceptions.STIXError):
            accepted = False
        except Exception as ex:      # noqa
            return (f'property-name#registration fails with {type(ex).__name__}', f'2.1 {kind} with property name {pname!r}: {type(ex).__name__}: {ex}', {})
        if ok is True and not accepted: return ('property-name#valid property name refused', f'2.1 {kind}: property name {pname!r} satisfies the naming rule but was refused', {})
        if ok is False and accepted:
            if pname[:1].isascii() and pname[:1].isalpha() and pname[:1].islower():
                return ('property-name#only the first character of a custom property name is checked', f'2.1 {kind}: property name {pname!r} breaks the naming rule (lower-case letters, digits, underscore; 3-250 characters) but was accepted at registration', {'kind': kind, 'name': pname})
            return ('property-name#name not starting with a lower-case letter accepted', f'2.1 {kind}: property name {pname!r} was accepted at registration', {'kind': kind, 'name': pname})
    chk.bounded('property names at registration (2.1)', list(pname_cases()), check_pname, classify=lambda c: c[:2], bound='3 kinds x 18 property names (valid, boundary lengths, illegal characters, case, whitespace, empty)')
