"""C01 -- serialize/parse round trip is lossless for every object and option set."""
import copy, itertools, json
import z3
from vf.pyvc.lib import REG
from vf.pyvc import timelib  # noqa
from vf import objgen as G, tables as T
from vf.callsites import purity_obligations
from vf.check import SRC_ROOT
from contracts import serialization as K, timefmt as KT, parsing as KP, cleaners as KC
from props import _objects as O

LEVEL = 'exploration'
OPTION_SETS = [dict(zip(('pretty', 'include_optional_defaults', 'sort_keys', 'indent'), c)) for c in itertools.product((False, True), (False, True), (False, True), (None, 0, 2))]


def sub(a, b):
    """a is b with some dictionary members omitted (at any depth)"""
    if isinstance(a, dict) and isinstance(b, dict): return all(k in b and sub(v, b[k]) for k, v in a.items())
    if isinstance(a, list) and isinstance(b, list): return len(a) == len(b) and all(sub(x, y) for x, y in zip(a, b))
    return a == b


def run(chk):
    import stix2
    chk.registry = REG
    chk.explanation = ('P (small core): STIXJSONEncoder.default encodes an object as its properties minus exactly the defaulted optional ones, the include-defaults encoder as all of '
                       'them (loop invariant over a key set); the timestamp text is a fixed point of write/read/write (C15 lemmas); version detection recognises library output '
                       '(C14 contract); class_for_type / parse / dict_to_stix2 are not memoised and read no mutable state other than the registry.  B (carries the property): '
                       'every class variant of the table-driven generator (all types of both versions, minimal / each optional / all optional, 3 value classes: astral and control '
                       'characters, boundary integers, floats incl. 1e21, sub-millisecond and trailing-zero timestamps, year 999, nested extensions, embedded objects), custom '
                       'properties, bundles (incl. empty), timestamps re-used across objects of different precision rules: parse(serialize(o)) == o with the same class, second '
                       'serialization byte-identical; all 48 option sets denote the same JSON value up to defaulted optional properties; pretty output lists top-level '
                       'properties in specification order (frozen order); registration after a failed lookup still parses to the class.')
    chk.assume('simplejson encoder/decoder are inverse on JSON values (assumed external); NaN floats are outside the quantifier')
    for c in (K.encoder_default_contract(False), K.encoder_default_contract(True), KT.format_datetime_contract(True), KT.parse_contract('str'), KT.parse_contract('datetime'), KT.parse_contract('stixdatetime'), KP._fix_detect(KP.detect_contract()), KT.should_set_millisecond_contract('str'), KT.should_set_millisecond_contract('datetime'), KT.should_set_millisecond_contract('stixdatetime'), KC.observable_clean_contract()):
        chk.prove(c); chk.canary(c)
    for name, claim in KT.lemmas()[:12 + 6 * 49:7]: chk.lemma(name, claim)
    for ob in purity_obligations(SRC_ROOT, ['stix2/registry.py::class_for_type', 'stix2/parsing.py::parse', 'stix2/parsing.py::dict_to_stix2', 'stix2/parsing.py::parse_observable',
                                            'stix2/utils.py::detect_spec_version', 'stix2/utils.py::parse_into_datetime', 'stix2/utils.py::format_datetime',
                                            'stix2/serialization.py::find_property_index', 'stix2/serialization.py::serialize'], allow=('STIX2_OBJ_MAPS',)):
        chk.lemmas.append(ob)
        if ob.result != 'discharged': chk.violation('frame#' + ob.clause.split('::')[1].split(':')[0], 'frame obligation fails: ' + ob.clause, {}, no_input=True)
    orders = {v: {c: t['order'] for c, t in T.frozen(v).items()} for v in ('2.0', '2.1')}

    def cases():
        for ver in ('2.0', '2.1'):
            for label, cat, cls, kw in G.variants(ver, alts=(0, 1, 2) if chk.tier == 'thorough' else (0, 1)):
                if cat in ('objects', 'observables', 'markings'): yield (ver, label, cat, cls, kw, False)
            # custom properties
            for label, cat, cls, kw in G.variants(ver, alts=(0,), with_all=False):
                if cat == 'objects' and label.endswith(':minimal') and 'bundle' not in label:
                    yield (ver, label + '+custom', cat, cls, dict(kw, x_custom={'k': [1, 2.5, None, 'é\U0001f600'], 'name': 'nested key equal to a top-level one'}, x_flag=False), True)

    def roundtrip(o, cat, ver, custom):
        if cat == 'observables' and ver == '2.0':
            return stix2.parse_observable(o.serialize(), _valid_refs=O.refs_for(json.loads(o.serialize())), allow_custom=custom, version='2.0')
        if cat == 'markings': return type(o)(**json.loads(o.serialize()))
        return stix2.parse(o.serialize(), allow_custom=custom)

    def check(case):
        ver, label, cat, cls, kw, custom = case
        try: o = cls(allow_custom=custom, **G.ctor_kwargs(cls, cat, ver, copy.deepcopy(kw)))
        except Exception: return None
        tname = label.split(':')[2]
        text = o.serialize()
        try: back = roundtrip(o, cat, ver, custom)
        except Exception as ex:
            return (f'roundtrip#own output parses:{tname}', f'{label}: the library cannot parse its own output: {type(ex).__name__}: {str(ex)[:150]}', {'text': text[:400]})
        if type(back) is not type(o): return (f'roundtrip#same class:{tname}', f'{label}: {type(o).__module__}.{type(o).__name__} parsed back as {type(back).__module__}.{type(back).__name__}', {'text': text[:300]})
        if back != o:
            diff = [k for k in set(o) | set(back) if o.get(k) != back.get(k)]
            return (f'roundtrip#equal object:{tname}:{",".join(sorted(diff))[:40]}', f'{label}: parse(serialize(o)) != o in {diff}: {[(o.get(k), back.get(k)) for k in diff][:2]!r:.200}', {'text': text[:300]})
        if back.serialize() != text: return (f'roundtrip#byte-identical second serialization:{tname}', f'{label}: second serialization differs', {'first': text[:300], 'second': back.serialize()[:300]})
        # option sets denote the same JSON value up to defaulted optional properties
        full = json.loads(o.serialize(include_optional_defaults=True))
        defaulted = set(getattr(o, '_defaulted_optional_properties', []))
        plain = json.loads(text)
        if not sub(plain, full) or not set(full) - set(plain) <= defaulted:
            return (f'options#include-defaults adds only defaulted optional properties:{tname}', f'{label}: default output is not the include-defaults output minus defaulted optional properties (top-level extra keys {sorted(set(full) - set(plain) - defaulted)})', {})
        for opts in (OPTION_SETS if label.endswith((':minimal', ':all-optional', '+custom')) else OPTION_SETS[::7]):
            kwargs = {k: v for k, v in opts.items() if not (k == 'indent' and (v is None or opts['pretty'])) and not (k == 'sort_keys' and opts['pretty'])}
            try: t2 = o.serialize(**kwargs)
            except Exception as ex: return (f'options#serialize accepts the option set:{tname}', f'{label}: serialize({kwargs}) raised {type(ex).__name__}: {ex}', {})
            v2 = json.loads(t2)
            want = full if opts['include_optional_defaults'] else plain
            if v2 != want:
                return (f'options#same JSON value:{tname}', f'{label}: serialize({kwargs}) denotes another value than the same include-defaults setting with default options', {'options': kwargs})
            if not opts['include_optional_defaults'] and any(k in v2 for k in defaulted) : return (f'options#defaulted dropped:{tname}', f'{label}', {})
            if opts['pretty']:
                keys = list(json.loads(t2, object_pairs_hook=lambda ps: ps)); top = [k for k, _ in keys]
                spec_order = [k for k in orders[ver].get(f'{cat}:{json.loads(text).get("type")}', []) if k in top]
                known = [k for k in top if k in spec_order]
                if known != spec_order: return (f'pretty#top-level properties in specification order:{tname}', f'{label}: pretty order {top}, specification order {spec_order}', {})
                others = [i for i, k in enumerate(top) if k not in spec_order]; firsts = [i for i, k in enumerate(top) if k in spec_order]
                if spec_order and others and firsts and min(others) < max(firsts):
                    return (f'pretty#specification-defined properties come first:{tname}', f'{label}: pretty order {top}: a property outside the specification order precedes a specification-defined one', {})
        return None
    cc = list(cases())
    chk.bounded('round trip and option sets', cc, check, classify=lambda c: c[1], bound='every class variant x ' + ('3' if chk.tier == 'thorough' else '2') + ' value classes; 48 option sets on minimal/all-optional/custom forms, 7 on the others')

    # ---- special shapes
    import datetime as dtm
    specials = []
    try:
        i21 = stix2.v21.Identity(name='n', created='2020-01-01T00:00:00.123456Z', modified='2020-01-01T00:00:00.123456Z')
        specials.append(('2.0 object re-using a 2.1 timestamp object', lambda: stix2.v20.Identity(name='n', identity_class='individual', created=i21.created, modified=i21.modified), False))
        specials.append(('language-content re-using a min-precision timestamp', lambda: stix2.v21.LanguageContent(object_ref=i21.id, object_modified=i21.modified, contents={'en': {'name': 'x'}}), False))
        specials.append(('naive datetime input', lambda: stix2.v21.Identity(name='n', created=dtm.datetime(2020, 1, 1, 0, 0, 0, 5), modified=dtm.datetime(2020, 1, 1, 0, 0, 0, 5)), False))
        specials.append(('year 999', lambda: stix2.v21.Identity(name='n', created='0999-01-01T00:00:00Z', modified='0999-01-01T00:00:00.000Z'), False))
        specials.append(('empty 2.1 bundle', lambda: stix2.v21.Bundle(), False)); specials.append(('empty 2.0 bundle', lambda: stix2.v20.Bundle(), False))
        specials.append(('bundle of both versions', lambda: stix2.v21.Bundle(objects=[i21, stix2.v20.Identity(name='o', identity_class='individual')]), False))
        specials.append(('2.0 marking-definition with default created', lambda: stix2.v20.MarkingDefinition(definition_type='statement', definition=stix2.v20.StatementMarking('s')), False))
        specials.append(('2.0 marking-definition from a datetime', lambda: stix2.v20.MarkingDefinition(definition_type='statement', definition=stix2.v20.StatementMarking('s'), created=dtm.datetime(2020, 1, 1, 0, 0, 0, 123456)), False))
        for us in (0, 1, 400, 999, 1000, 120000, 123000, 999999):
            for aware in (True, False):
                d = dtm.datetime(2020, 1, 1, 0, 0, 0, us, tzinfo=dtm.timezone.utc if aware else None)
                nm = f'datetime input, microsecond={us}, {"aware" if aware else "naive"}'
                specials.append(('2.0 statement marking-definition: ' + nm, lambda d=d: stix2.v20.MarkingDefinition(definition_type='statement', definition=stix2.v20.StatementMarking('s'), created=d), False))
                specials.append(('2.0 identity: ' + nm, lambda d=d: stix2.v20.Identity(name='n', identity_class='individual', created=d, modified=d), False))
                specials.append(('2.1 identity: ' + nm, lambda d=d: stix2.v21.Identity(name='n', created=d, modified=d), False))
                specials.append(('2.1 marking-definition: ' + nm, lambda d=d: stix2.v21.MarkingDefinition(definition_type='statement', definition=stix2.v21.StatementMarking('s'), created=d), False))
                specials.append(('2.1 indicator valid_from: ' + nm, lambda d=d: stix2.v21.Indicator(pattern="[file:name = 'a']", pattern_type='stix', valid_from=d), False))
                specials.append(('2.0 bundle of a marking-definition: ' + nm, lambda d=d: stix2.v20.Bundle(objects=[stix2.v20.MarkingDefinition(definition_type='statement', definition=stix2.v20.StatementMarking('s'), created=d)]), False))
        import copy as _cp
        for nm, mk in (('2.1 identity', lambda: stix2.v21.Identity(name='n', created='2020-01-01T00:00:00Z', modified='2020-01-01T00:00:00.120Z')),
                       ('2.0 identity', lambda: stix2.v20.Identity(name='n', identity_class='individual', created='2020-01-01T00:00:00Z', modified='2020-01-01T00:00:00.120Z')),
                       ('2.1 TLP marking', lambda: stix2.v21.TLP_AMBER), ('2.0 TLP marking', lambda: stix2.v20.TLP_RED),
                       ('2.1 bundle', lambda: stix2.v21.Bundle(stix2.v21.Identity(name='n', created='2020-01-01T00:00:00Z', modified='2020-01-01T00:00:00Z'))),
                       ('2.1 file with extension object', lambda: stix2.v21.File(name='f', extensions={'ntfs-ext': stix2.v21.NTFSExt(sid='s')})),
                       ('2.0 observed-data', lambda: stix2.v20.ObservedData(first_observed=G.T1, last_observed=G.T1, number_observed=1, objects={'0': {'type': 'file', 'name': 'f', 'created': '2020-01-01T00:00:00Z'}}))):
            specials.append(('deep copy of a ' + nm, lambda mk=mk: _cp.deepcopy(mk()), False))
            specials.append(('new version of a deep copy of a ' + nm, lambda mk=mk: _cp.deepcopy(mk()).new_version(), False))
        # custom types declared together with an extension-definition id (the library adds the entry itself)
        from stix2 import registry as _reg
        EA, EB = 'extension-definition--' + G.UUID2, 'extension-definition--' + G.UUID
        if 'x-vf-c01-ext' not in _reg.STIX2_OBJ_MAPS['2.1']['objects']:
            @stix2.v21.CustomObject('x-vf-c01-ext', [('x_p', stix2.properties.StringProperty()), ('name', stix2.properties.StringProperty())], extension_name=EA)
            class _XA(object): pass
        if 'x-vf-c01-ext-o' not in _reg.STIX2_OBJ_MAPS['2.1']['observables']:
            @stix2.v21.CustomObservable('x-vf-c01-ext-o', [('x_p', stix2.properties.StringProperty()), ('name', stix2.properties.StringProperty())], id_contrib_props=['name'], extension_name=EB)
            class _XB(object): pass
        XA, XB = _reg.STIX2_OBJ_MAPS['2.1']['objects']['x-vf-c01-ext'], _reg.STIX2_OBJ_MAPS['2.1']['observables']['x-vf-c01-ext-o']
        specials.append(('custom object with extension_name and an x_ property', lambda: XA(x_p='v', name='n'), False))
        specials.append(('custom object with extension_name, further custom property', lambda: XA(x_p='v', name='n', x_zz=1, allow_custom=True), True))
        specials.append(('custom object with extension_name, own extensions given', lambda: XA(x_p='v', extensions={'x-other-ext': {'a': 1}}, allow_custom=True), True))
        specials.append(('custom observable with extension_name', lambda: XB(x_p='v', name='n'), False))
        specials.append(('bundle of a custom object with extension_name', lambda: stix2.v21.Bundle(XA(x_p='v', name='n')), False))
        # nested objects every property of which is optional and at its default: written as {} (defaulted optional properties are left out at every depth)
        from stix2.properties import BooleanProperty as _BP, IntegerProperty as _IP, StringProperty as _SP
        DP = [('reviewed', _BP(default=lambda: False)), ('score', _IP(default=lambda: 0)), ('analyst', _SP())]
        for V, vn in ((stix2.v21, '2.1'), (stix2.v20, '2.0')):
            if 'x-vf-c01-defaults-ext' not in _reg.STIX2_OBJ_MAPS[vn]['extensions']:
                V.CustomExtension('x-vf-c01-defaults-ext', DP)(type('_XD' + vn[-1], (object,), {}))
            XD = _reg.STIX2_OBJ_MAPS[vn]['extensions']['x-vf-c01-defaults-ext']
            specials.append((f'{vn} file with an extension whose properties are all at their defaults (given as an object)', lambda V=V, XD=XD: V.File(name='f', extensions={'x-vf-c01-defaults-ext': XD()}), False))
            specials.append((f'{vn} file with an extension whose properties are all at their defaults (spelled out in a dictionary)', lambda V=V: V.File(name='f', extensions={'x-vf-c01-defaults-ext': {'reviewed': False, 'score': 0}}), False))
            specials.append((f'{vn} file with that extension, one property set', lambda V=V: V.File(name='f', extensions={'x-vf-c01-defaults-ext': {'analyst': 'a'}}), False))
        specials.append(('2.0 observed-data member with an all-default extension', lambda: stix2.v20.ObservedData(objects={'0': {'type': 'file', 'name': 'f', 'extensions': {'x-vf-c01-defaults-ext': {'score': 0}}}}, first_observed=G.T1, last_observed=G.T1, number_observed=1), False))
        specials.append(('2.1 bundle of a file with an all-default extension', lambda: stix2.v21.Bundle(stix2.v21.File(name='f', extensions={'x-vf-c01-defaults-ext': {}})), False))
        # untyped content kept verbatim, nested far deeper than any typed content (what the library builds and writes, it reads back)
        def deep(n, leaf='x'):
            v = leaf
            for i in range(n): v = {'k': v} if i % 2 else [v]
            return v
        for n in (20, 63, 64, 70, 150):
            specials.append((f'custom property nested {n} levels', lambda n=n: stix2.v21.Identity(name='n', x_vf=deep(n), allow_custom=True), True))
            specials.append((f'dictionary property value nested {n} levels', lambda n=n: stix2.v21.Process(pid=1, environment_variables={'K': deep(n)}), False))
            specials.append((f'unregistered extension-definition extension nested {n} levels', lambda n=n: stix2.v21.Identity(name='n', extensions={'extension-definition--a932fcc6-e032-476c-826f-cb970a5a1ade': {'extension_type': 'property-extension', 'p': deep(n)}}), False))
            specials.append((f'bundle of an object with a custom property nested {n} levels', lambda n=n: stix2.v21.Bundle(stix2.v20.Identity(name='n', identity_class='individual', x_vf=deep(n), allow_custom=True), allow_custom=True), True))
        # custom properties given through the custom_properties keyword in an order that is not alphabetical, alone and next to custom keywords
        specials.append(('custom_properties keyword, unsorted', lambda: stix2.v21.Identity(name='n', custom_properties={'x_b': 1, 'x_a': 2, 'x_c': 3}), True))
        specials.append(('custom_properties keyword, unsorted, 2.0', lambda: stix2.v20.Identity(name='n', identity_class='individual', custom_properties={'z_b': 1, 'a_a': 2}), True))
        specials.append(('custom_properties keyword next to custom keywords', lambda: stix2.v21.Identity(name='n', x_m=0, custom_properties={'x_z': 1, 'x_a': 2}, allow_custom=True), True))
        specials.append(('custom_properties keyword on an observable', lambda: stix2.v21.File(name='f', custom_properties={'x_b': 1, 'x_a': 2}), True))
        specials.append(('bundle of an object built with an unsorted custom_properties keyword', lambda: stix2.v21.Bundle(stix2.v21.Identity(name='n', custom_properties={'x_b': 1, 'x_a': 2}), allow_custom=True), True))
        # untyped content kept verbatim: members holding null and [] must survive
        specials.append(('custom property holding a dictionary with null and [] members', lambda: stix2.v21.Identity(name='n', x_vf={'a': None, 'b': [], 'c': {'d': None, 'e': [None, []]}}, allow_custom=True), True))
        specials.append(('dictionary property with null / [] values', lambda: stix2.v21.EmailMessage(is_multipart=False, additional_header_fields={'X-A': [], 'X-B': ['v']}), False))
        specials.append(('unregistered extension-definition extension with null / [] members', lambda: stix2.v21.Identity(name='n', extensions={'extension-definition--a932fcc6-e032-476c-826f-cb970a5a1ade': {'extension_type': 'property-extension', 'p': None, 'q': [], 'r': {'s': None}}}), False))
        specials.append(('bundle carrying an unregistered custom object with null / [] members', lambda: stix2.v21.Bundle(objects=[{'type': 'x-vf-unregistered', 'id': 'x-vf-unregistered--' + G.UUID, 'a': None, 'b': [], 'c': {'d': []}}], allow_custom=True), True))
        # STIX 2.0 observed-data whose members refer to each other, keys not in ascending order and more than ten members ("10" sorts before "2" as text)
        od_kw = dict(first_observed=G.T1, last_observed=G.T1, number_observed=1)
        specials.append(('observed-data: member keys in descending order of dependency', lambda: stix2.v20.ObservedData(objects={'1': {'type': 'directory', 'path': '/x'}, '0': {'type': 'file', 'name': 'f', 'parent_directory_ref': '1'}}, **od_kw), False))
        many = {str(i): {'type': 'ipv4-addr', 'value': f'10.0.0.{i}'} for i in range(2, 10)}
        many['10'] = {'type': 'network-traffic', 'protocols': ['tcp'], 'src_ref': '2', 'dst_ref': '9'}; many['11'] = {'type': 'network-traffic', 'protocols': ['udp'], 'src_ref': '3', 'encapsulated_by_ref': '10'}
        specials.append(('observed-data: twelve members, later ones refer to earlier ones', lambda: stix2.v20.ObservedData(objects=copy.deepcopy(many), **od_kw), False))
        specials.append(('observed-data: forward references', lambda: stix2.v20.ObservedData(objects={'0': {'type': 'email-message', 'is_multipart': False, 'from_ref': '5'}, '5': {'type': 'email-addr', 'value': 'a@b.c'}}, **od_kw), False))
        specials.append(('observed-data with embedded objects (2.0)', lambda: stix2.v20.ObservedData(first_observed=G.T1, last_observed=G.T1, number_observed=1, objects={'0': {'type': 'file', 'name': 'f', 'size': 0}}), False))
        specials.append(('float property 1e21 / 0.1', lambda: stix2.v21.Location(latitude=0.1, longitude=-0.0, precision=1e21), False))
        specials.append(('nested extension with floats', lambda: stix2.v21.File(name='f', extensions={'raster-image-ext': {'exif_tags': {'a': 1.5, 'b': [1e-7, 2**53 + 1]}}}), False))
    except Exception as ex:
        chk.faults.append(f'special shapes could not be built: {ex!r}')

    def check_special(case):
        name, build, custom = case
        try: o = build()
        except Exception as ex: return None
        try: text = o.serialize()
        except Exception as ex: return (f'roundtrip#serializable:{name.split(" of a ")[0]}', f'{name}: cannot be serialized: {type(ex).__name__}: {str(ex)[:120]}', {})
        try: back = stix2.parse(text, allow_custom=custom)
        except Exception as ex: return (f'roundtrip#own output parses:{name}', f'{name}: cannot parse own output: {type(ex).__name__}: {str(ex)[:120]}', {'text': text[:300]})
        if type(back) is not type(o) or back != o: return (f'roundtrip#equal object:{name}', f'{name}: parse(serialize(o)) != o; {text[:200]} vs {back.serialize()[:200]}', {})
        if back.serialize() != text: return (f'roundtrip#byte-identical second serialization:{name}', f'{name}: {text[:160]} then {back.serialize()[:160]}', {})
        for opts in ({'pretty': True}, {'sort_keys': True}, {'sort_keys': True, 'indent': 2}, {'pretty': True, 'include_optional_defaults': True}, {'include_optional_defaults': True, 'sort_keys': True}):
            try: t2 = o.serialize(**opts); b2 = stix2.parse(t2, allow_custom=custom)
            except Exception as ex: return (f'options#own output parses under every option set:{name}', f'{name}: serialize({opts}) cannot be parsed back: {type(ex).__name__}: {str(ex)[:120]}', {'options': opts})
            if b2 != o: return (f'options#same object under every option set:{name}', f'{name}: parse(serialize({opts})) != o', {'options': opts})
    chk.bounded('special shapes', specials, check_special, classify=lambda c: c[0], bound=f'{len(specials)} shapes from the property text (re-used timestamps, year 999, empty and mixed bundles, defaulted marking-definition timestamps, floats; datetime inputs with 8 sub-second classes, aware and naive, on 6 timestamp-carrying constructors)')

    # ---- lookups must not be remembered across a later registration
    from stix2 import registry
    name = 'x-vf-late'
    if name not in registry.STIX2_OBJ_MAPS['2.1']['objects']:
        d = {'type': name, 'spec_version': '2.1', 'id': name + '--' + G.UUID, 'created': G.T1, 'modified': G.T1, 'x_v': 1}
        stix2.parse(d, allow_custom=True)        # looked up while unregistered
        @stix2.v21.CustomObject(name, [('x_v', stix2.properties.IntegerProperty())])
        class Late(object): pass
        o = Late(x_v=1)
        back = stix2.parse(o.serialize())
        if type(back) is not Late: chk.violation('roundtrip#registered after a failed lookup', f'custom type registered after an earlier lookup parses back as {type(back).__name__}', {})
