"""C11 -- memory and filesystem stores agree with a plain list over any history (proved family invariant + bounded histories)."""
import copy, itertools, json, os, shutil, tempfile
import z3
from vf.pyvc.lib import REG
from contracts import stores as K, parsing as KP
from props import _stores as D

LEVEL = 'other'


def as_json(o):
    import stix2.serialization as S
    return json.loads(S.serialize(o)) if not hasattr(o, 'serialize') else json.loads(o.serialize())


def norm(d):
    """JSON value with timestamps replaced by their instants (equal instants spelled differently are equal content)"""
    out = {}
    for k, v in d.items():
        if k in ('created', 'modified') and isinstance(v, str): out[k] = D.text_instant(v)
        else: out[k] = v
    return out


def run(chk):
    import stix2
    from stix2 import MemoryStore, FileSystemStore, Filter
    from stix2.datastore import DataSourceError
    chk.registry = REG
    D.ensure_custom_registered()
    chk.explanation = ('P: _ObjectFamily.add preserves the representation invariant "latest_version carries the greatest modified time of all versions held; '
                       'all_versions gains exactly the added version" (stated over the whole key set); memory._add hands its own allow_custom/version to '
                       'every recursive call and to parse (list => each element, bundle => its members).  B: every add-history of length <= 3 (quick, triples sampled) / <= 4 '
                       '(thorough, quadruples sampled) over a 17-object pool, with reads between the additions, (several versions per id in any order, equal instants spelled differently, duplicates, '
                       'unversioned SCO / marking, registered custom, unregistered custom kept as dictionaries, both spec versions, upper-case hex ids) in 6 input '
                       'forms, on MemoryStore and FileSystemStore against a list model: get = greatest modified, all_versions = every distinct version, type query, '
                       'content out == content in, save_to_file/load_from_file round trip, file names injective on distinct serialized instants.')
    chk.assume('refusal of the filesystem sink to overwrite an identical (id, modified) file is its documented mechanism and counts as "no silent replacement"',
               'OS directory semantics; no concurrent writers')
    for c in (K.object_family_add_contract(), KP.memory_add_contract()):
        chk.prove(c); chk.canary(c)
    for c in (K.memory_get_contract(), K.memory_all_versions_contract(), K.memory_query_contract()):          # what comes out of a memory source: every version held / every stored object, passed through exactly the filters in force
        chk.prove(c); chk.canary(c)
    from vf.check import SRC_ROOT
    K.filename_obligations(chk, SRC_ROOT)          # distinct serialized instants get distinct file names
    pool = D.pool(); labels = [l for l, _ in pool]; byl = dict(pool)
    tmp = tempfile.mkdtemp(prefix='vf-c11-')
    n_hist = [0]
    try:
        def histories():
            L = 4 if chk.tier == 'thorough' else 3
            forms = D.FORMS
            for n in range(1, L + 1):
                seqs = list(itertools.product(range(len(pool)), repeat=n))
                if n == 3 and chk.tier == 'quick': seqs = [s for i, s in enumerate(seqs) if (i + chk.seed) % 9 == 0]
                if n == 4: seqs = [s for i, s in enumerate(seqs) if (i + chk.seed) % 43 == 0]
                for i, s in enumerate(seqs):
                    yield tuple((idx, forms[(i + k + idx) % len(forms)]) for k, idx in enumerate(s))

        def check(hist):
            n_hist[0] += 1
            root = os.path.join(tmp, f'h{n_hist[0]}'); os.makedirs(root)
            mem = MemoryStore(allow_custom=True); fs = FileSystemStore(root, allow_custom=True); model = D.ListModel()
            prefix_file = [None]
            try:
                for pos, (idx, form) in enumerate(hist):
                    label, d = pool[idx]
                    if pos == 1:
                        prefix_file[0] = os.path.join(root, 'prefix.json'); mem.save_to_file(prefix_file[0])
                    mem.add(D.in_form(d, form, for_fs=False))
                    try: fs.add(D.in_form(d, form, for_fs=True))
                    except DataSourceError as ex:
                        if D.version_key(d) not in model.items: return ('fs#refuses a new version', f'{[(labels[i], f) for i, f in hist]}: filesystem sink refused {label}: {ex}', {})
                    model.add(d)
                    if len(hist) > 1 and (idx, form) != hist[-1]:
                        # a read between additions must not change what later additions make visible: visit every type and id held so far
                        for st in (mem, fs):
                            for k in list(model.items):
                                st.get(k[0]); st.all_versions(k[0])
                            for t in {k[0].split('--')[0] for k in model.items}: st.query([Filter('type', '=', t)])
                ids = {k[0] for k in model.items}
                for sname, st in (('memory', mem), ('filesystem', fs)):
                    if len(ids) > 1:
                        gq = sorted((D.version_key(o) for o in st.query([Filter('id', 'in', sorted(ids))])), key=repr); wq = sorted(model.items, key=repr)
                        if gq != wq: return (f'{sname}#query == stored objects satisfying it', f'{[(labels[i], f) for i, f in hist]}: {sname}.query(id in all ids) = {gq}, list model {wq}', {})
                        gq = sorted((D.version_key(o) for o in st.query([Filter('id', 'in', ','.join(sorted(ids)))])), key=repr)          # a plain string: substring test
                        if gq != wq: return (f'{sname}#query == stored objects satisfying it', f'{[(labels[i], f) for i, f in hist]}: {sname}.query(id in "<ids joined by commas>") = {gq}, list model {wq}', {})
                    for oid in ids:
                        got_all = sorted((D.version_key(o) for o in st.all_versions(oid)), key=repr)
                        if got_all != model.all_versions(oid):
                            return (f'{sname}#all_versions == every distinct version added', f'{[(labels[i], f) for i, f in hist]}: {sname}.all_versions({oid}) = {got_all}, list model {model.all_versions(oid)}', {})
                        g = st.get(oid)
                        if g is None or D.version_key(g) != model.get(oid):
                            return (f'{sname}#get == version with the greatest modified time', f'{[(labels[i], f) for i, f in hist]}: {sname}.get({oid}) = {g and D.version_key(g)}, list model {model.get(oid)}', {})
                        want = norm(model.items[model.get(oid)]); have = norm(as_json(g))
                        extra = {k: v for k, v in have.items() if k not in want}
                        if {k: have.get(k) for k in want} != want or any(k not in ('revoked', 'labels', 'defanged') and v not in (False, [], None) for k, v in extra.items()):
                            return (f'{sname}#what comes out equals what went in', f'{[(labels[i], f) for i, f in hist]}: {sname}.get({oid}) content {have} differs from input {want}', {})
                    for t in {k[0].split('--')[0] for k in model.items}:
                        gq = sorted((D.version_key(o) for o in st.query([Filter('type', '=', t)])), key=repr)
                        wq = sorted((k for k in model.items if k[0].startswith(t + '--')), key=repr)
                        if gq != wq: return (f'{sname}#query == stored objects satisfying it', f'{[(labels[i], f) for i, f in hist]}: {sname}.query(type={t}) = {gq}, list model {wq}', {})
                        # the complement, and the same for a name that is a proper prefix of the type's name (malware / malware-analysis): names are compared whole
                        for tt in (t, t[:-1], t.rsplit('-', 1)[0]):
                            gq = sorted((D.version_key(o) for o in st.query([Filter('type', '!=', tt)])), key=repr)
                            wq = sorted((k for k in model.items if k[0].split('--')[0] != tt), key=repr)
                            if gq != wq: return (f'{sname}#query == stored objects satisfying it', f'{[(labels[i], f) for i, f in hist]}: {sname}.query(type != {tt}) = {gq}, list model {wq}', {})
                # the two stores give the same answer to filters on defaulted properties and on timestamps in another spelling (whatever the files look like)
                for f in (Filter('type', '>', 'identity'), Filter('type', '<=', 'identity'), Filter('type', 'contains', 'dent'), Filter('type', '<', 'j'), Filter('id', 'contains', '0001-'), Filter('id', '>', 'identity--00000001'),
                          Filter('id', '<=', 'identity--00000002-0000-4000-8000-000000000000'), Filter('id', '!=', 'identity--00000001-0000-4000-8000-000000000000'), Filter('type', '!=', 'identity'),
                          Filter('revoked', '=', False), Filter('revoked', '!=', True), Filter('created', '=', '2020-01-01T00:00:00Z'), Filter('modified', '>=', '2020-01-01T00:00:00Z'),
                          Filter('modified', '>', '2020-01-01T00:00:00Z'), Filter('modified', '=', '2020-01-01T00:00:00.50Z')):
                    try: a = sorted((D.version_key(o) for o in mem.query([f])), key=repr); b = sorted((D.version_key(o) for o in fs.query([f])), key=repr)
                    except (TypeError, ValueError): continue
                    reg = lambda ks: [k for k in ks if not k[0].startswith('x-vf-unreg')] if f.property in ('created', 'modified') else ks          # (dictionary-kept custom content compares timestamps as text: the known finding)
                    if f.property in ('type', 'id'):       # these have an obvious reference: the list model itself
                        import operator as _op
                        test = {'>': _op.gt, '<': _op.lt, '>=': _op.ge, '<=': _op.le, '!=': _op.ne, 'contains': lambda x, y: y in x}[f.op]
                        wl = sorted((k for k in model.items if test(k[0].split('--')[0] if f.property == 'type' else k[0], f.value)), key=repr)
                        for sn_, got_ in (('memory', a), ('filesystem', b)):
                            if got_ != wl: return (f'{sn_}#query == stored objects satisfying it', f'{[(labels[i], f_) for i, f_ in hist]}: {sn_}.query({f}) = {got_}, list model {wl}', {})
                    if reg(a) != reg(b): return ('stores agree#query on a defaulted property or a respelled timestamp', f'{[(labels[i], f_) for i, f_ in hist]}: query({f}) gives {reg(a)} in memory and {reg(b)} on the filesystem', {})
                # a stored object is found by an equality filter spelled exactly like its own timestamp -- dictionary-kept custom content included (text equality and
                # instant equality agree there), whatever was added or examined before it
                for k, d in list(model.items.items()):
                    for prop in ('created', 'modified'):
                        if not isinstance(d.get(prop), str): continue
                        for sname, st in (('memory', mem), ('filesystem', fs)):
                            try: got = {D.version_key(o) for o in st.query([Filter(prop, '=', d[prop])])}
                            except (TypeError, ValueError) as ex: return (f'{sname}#query == stored objects satisfying it', f'{[(labels[i], f_) for i, f_ in hist]}: query({prop} = {d[prop]!r}) raised {type(ex).__name__}: {ex}', {})
                            if k not in got: return (f'{sname}#query == stored objects satisfying it', f'{[(labels[i], f_) for i, f_ in hist]}: {sname}.query({prop} = {d[prop]!r}) does not return {k}, whose {prop} is spelled exactly so', {})
                # loading a file into a store that already holds versions of the same ids adds what is new and loses nothing (the file: this store as it was after the first addition)
                if prefix_file[0]:
                    mem.load_from_file(prefix_file[0])
                    for oid in ids:
                        a = sorted((D.version_key(o) for o in mem.all_versions(oid)), key=repr)
                        if a != model.all_versions(oid): return ('memory#load_from_file into a store that holds versions already', f'{[(labels[i], f) for i, f in hist]}: after loading an earlier state of the same store all_versions({oid}) = {a}, list model {model.all_versions(oid)}', {})
                        g = mem.get(oid)
                        if g is None or D.version_key(g) != model.get(oid): return ('memory#load_from_file into a store that holds versions already', f'{[(labels[i], f) for i, f in hist]}: after loading an earlier state get({oid}) = {g and D.version_key(g)}, list model {model.get(oid)}', {})
                # save / load round trip of the memory store
                fpath = os.path.join(root, 'saved.json'); mem.save_to_file(fpath)
                mem2 = MemoryStore(allow_custom=True); mem2.load_from_file(fpath)
                for oid in ids:
                    a = sorted((D.version_key(o) for o in mem2.all_versions(oid)), key=repr)
                    if a != model.all_versions(oid):
                        return ('memory#save_to_file/load_from_file round trip', f'{[(labels[i], f) for i, f in hist]}: after reload all_versions({oid}) = {a}, list model {model.all_versions(oid)}', {})
            finally:
                shutil.rmtree(root, ignore_errors=True)
            return None
        chk.bounded('add histories x input forms x both stores vs list model', list(histories()), check, classify=lambda h: tuple(i for i, _ in h),
                    bound='17-object pool, reads between additions, 6 input forms rotated over the positions, histories of length <= ' + ('4 (all triples, every 31st quadruple)' if chk.tier == 'thorough' else '3 (all pairs, every 9th triple)'))
        # a bundle holding objects of both spec versions: every member is kept as the version it declares, through every way a bundle reaches a store
        import stix2.utils as SU0
        o20 = {'type': 'campaign', 'id': 'campaign--' + D.U(50), 'created': '2020-01-01T00:00:00.000Z', 'modified': '2020-01-01T00:00:00.000Z', 'name': 'old'}
        o21 = {'type': 'campaign', 'spec_version': '2.1', 'id': 'campaign--' + D.U(51), 'created': '2020-01-01T00:00:00.000Z', 'modified': '2020-01-01T00:00:00.000Z', 'name': 'new'}
        def mixed_cases():
            for order in ((o20, o21), (o21, o20)):
                for bver in (None, '2.0'):
                    for route in ('MemoryStore.add(dict)', 'FileSystemStore.add(text)', 'MemoryStore(stix_data)', 'MemoryStore.load_from_file', 'FileSystemStore.add(dict)', 'save_to_file then load_from_file'):
                        yield (order, bver, route)
        nm = [0]
        def mixed_check(case):
            order, bver, route = case; nm[0] += 1
            b = {'type': 'bundle', 'id': 'bundle--' + D.U(52), 'objects': [dict(x) for x in order]}
            if bver: b['spec_version'] = bver
            root = os.path.join(tmp, f'm{nm[0]}'); os.makedirs(root)
            try:
                if route == 'MemoryStore.add(dict)': st = MemoryStore(allow_custom=True); st.add(copy.deepcopy(b))
                elif route == 'FileSystemStore.add(text)': st = FileSystemStore(root, allow_custom=True); st.add(json.dumps(b))
                elif route == 'MemoryStore(stix_data)': st = MemoryStore(stix_data=copy.deepcopy(b), allow_custom=True)
                elif route == 'MemoryStore.load_from_file':
                    fp = os.path.join(root, 'b.json'); json.dump(b, open(fp, 'w')); st = MemoryStore(allow_custom=True); st.load_from_file(fp)
                elif route == 'FileSystemStore.add(dict)': st = FileSystemStore(root, allow_custom=True); st.add(copy.deepcopy(b))
                else:
                    st0 = MemoryStore(allow_custom=True); st0.add([stix2.parse(dict(x)) for x in order]); fp = os.path.join(root, 's.json'); st0.save_to_file(fp); st = MemoryStore(allow_custom=True); st.load_from_file(fp)
            except (stix2.exceptions.STIXError, ValueError) as ex:
                return None            # (a 2.0 bundle refusing members of another version is a stated limitation, not a silent change)
            try:
                for d in order:
                    g = st.get(d['id'])
                    if g is None: return ('mixed bundle#member kept', f'{route}: member {d["id"]} of a mixed-version bundle (bundle spec_version {bver}) is not in the store', {})
                    want_v = SU0.detect_spec_version(dict(d)); have = as_json(g)
                    if ('spec_version' in have) != ('spec_version' in d) or ('.v21.' in type(g).__module__) != (want_v == '2.1'):
                        return ('mixed bundle#member keeps the spec version it declares', f'{route}: the {want_v} member of a mixed-version bundle (bundle spec_version {bver}) comes back as {type(g).__module__}.{type(g).__name__} with content {have}', {})
            finally: shutil.rmtree(root, ignore_errors=True)
        chk.bounded('bundles holding objects of both spec versions', list(mixed_cases()), mixed_check, classify=lambda c: (c[0][0]['name'], c[1], c[2]), bound='2 member orders x bundle with / without spec_version x 6 routes into memory and filesystem stores')
        # file names are injective on distinct serialized instants
        import stix2.datastore.filesystem as FSM, stix2.utils as SU, datetime as dtm
        seen = {}
        def fn_cases():
            base = dtm.datetime(2020, 1, 1, tzinfo=dtm.timezone.utc)
            for y in (1, 999, 1000, 2020, 9999):
                for us in (0, 1, 10, 100, 1000, 10000, 100000, 123456, 999999, 500000, 120000, 100100):
                    for sec in (0, 1, 59):
                        yield base.replace(year=y, second=sec, microsecond=us)
        def fn_check(d):
            for prec, con in (('millisecond', 'min'), ('millisecond', 'exact'), ('any', 'exact')):
                sd = SU.STIXdatetime(d, precision=prec, precision_constraint=con)
                text = SU.format_datetime(sd); name = FSM._timestamp2filename(sd)
                other = seen.setdefault(name, text)
                if D.text_instant(other) != D.text_instant(text):
                    return ('filesystem#file name injective on distinct instants', f'{text} and {other} map to the same file name {name}', {})
        chk.bounded('file names of distinct instants differ', list(fn_cases()), fn_check, classify=repr, bound='5 years (1..9999) x 12 microsecond patterns x 3 seconds x 3 precision settings')
        # ---- one add call carrying several objects, some of which the store already holds: when the call returns normally every object it carried is in the store
        # (a refusal -- the filesystem sink's documented answer to an identical (id, modified) -- claims nothing); lists holding bundles, bundles holding duplicates
        def multi_cases():
            v = [byl[l] for l in ('id1.v1', 'id1.v2', 'id1.v3', 'id2.v1')]
            B = lambda *objs: {'type': 'bundle', 'id': 'bundle--' + D.U(98), 'objects': [dict(o) for o in objs]}
            payloads = {'list [old, new]': lambda: [dict(v[0]), dict(v[1])], 'list [new, old, new]': lambda: [dict(v[1]), dict(v[0]), dict(v[2])],
                        'bundle {old, new}': lambda: B(v[0], v[1]), 'list [bundle {old, new}]': lambda: [B(v[0], v[1])], 'list [bundle {old, new, new}]': lambda: [B(v[0], v[1], v[2])],
                        'list [bundle {new, old, new}, new]': lambda: [B(v[1], v[0], v[2]), dict(v[3])], 'list [new, bundle {old, new}]': lambda: [dict(v[3]), B(v[0], v[1])],
                        'list [bundle {old}, bundle {new}]': lambda: [B(v[0]), dict(B(v[1]), id='bundle--' + D.U(97))],
                        'list [old, old]': lambda: [dict(v[0]), dict(v[0])], 'list [new, new]': lambda: [dict(v[1]), dict(v[1])]}
            for sname in ('memory', 'filesystem'):
                for pre in ((), (0,), (0, 1)):
                    for pname, mk in payloads.items(): yield (sname, pre, pname, mk)

        def carried(payload):
            if isinstance(payload, str): payload = json.loads(payload)
            if isinstance(payload, list): return [o for x in payload for o in carried(x)]
            if payload.get('type') == 'bundle': return [o for x in payload.get('objects', []) for o in carried(x)]
            return [payload]

        def multi_check(case):
            sname, pre, pname, mk = case
            n_hist[0] += 1
            root = os.path.join(tmp, f'm{n_hist[0]}'); os.makedirs(root)
            st = MemoryStore(allow_custom=True) if sname == 'memory' else FileSystemStore(root, allow_custom=True)
            v = [byl[l] for l in ('id1.v1', 'id1.v2', 'id1.v3', 'id2.v1')]
            try:
                for i in pre: st.add(dict(v[i]))
                payload = mk()
                if sname == 'filesystem' and isinstance(payload, str): payload = json.loads(payload)      # (the filesystem sink documents dictionaries and objects)
                try: st.add(payload)
                except Exception as ex:
                    if type(ex).__name__ in ('DataSourceError',): return None          # refusal: nothing claimed
                    raise
                want = {D.version_key(o) for o in carried(payload)} | {D.version_key(v[i]) for i in pre}
                got = {D.version_key(o) for oid in {k[0] for k in want} for o in st.source.all_versions(oid)}
                if got != want: return (f'{sname}#an add that returns normally has stored everything it carried', f'{sname} holding {[("id1.v1", "id1.v2")[i] for i in pre]}: add({pname}) returned normally, store holds {sorted(got, key=repr)}, carried + held before {sorted(want, key=repr)}', {})
            finally: shutil.rmtree(root, ignore_errors=True)
        chk.bounded('one add call carrying several objects, some already stored', list(multi_cases()), multi_check, classify=lambda c: (c[0], c[1], c[2]),
                    bound='2 stores x 3 prior contents x 10 payload shapes (lists, bundles, bundles inside lists; duplicates of stored and of carried versions)')
        # known finding: dictionary-kept custom objects compare timestamps as text
        ms = MemoryStore(allow_custom=True)
        u = {'type': 'x-vf-unreg2', 'spec_version': '2.1', 'id': 'x-vf-unreg2--' + D.U(9), 'created': '2020-01-01T00:00:00Z', 'modified': '2020-01-01T00:00:00Z'}
        ms.add(u); ms.add(dict(u, modified='2020-01-01T00:00:00.5Z'))
        if ms.get(u['id'])['modified'] != '2020-01-01T00:00:00.5Z':
            chk.violation('custom-dict#timestamps of dictionary-kept custom objects are compared as text',
                          f"MemoryStore.get returns modified {ms.get(u['id'])['modified']} although a version with modified 2020-01-01T00:00:00.5Z was added", {'input': u})
    finally:
        shutil.rmtree(tmp, ignore_errors=True)
