"""Shared object-level domain for C01-C04, C06, C13: valid corpus, corruption kinds, injection sites."""
import re, copy, json
from vf import objgen as G, tables as T


def corpus(ver, alts=(0,), cats=('objects', 'observables'), only=None, with_all=True):
    """(label, cat, cls, kwargs, object, json) for every generator variant that constructs"""
    for label, cat, cls, kw in G.variants(ver, alts=alts, with_all=with_all):
        if cat not in cats: continue
        if only and not only(label): continue
        try:
            o = G.build(label, cat, cls, kw, ver)
        except Exception:
            continue
        yield label, cat, cls, kw, o, json.loads(o.serialize())


def refs_for(d):
    """reference scope for a bare 2.0 observable, from the library's own table (so that '0' has a type every ref property of the object accepts)"""
    import stix2
    from stix2 import registry
    cls = registry.STIX2_OBJ_MAPS['2.0']['observables'].get(d.get('type'))
    return G.valid_refs_for(cls, d) if cls is not None else {'0': 'file'}


def strict_parse(d, cat, ver, allow_custom=False):
    import stix2
    if cat == 'observables' and ver == '2.0':
        refs = refs_for(d)
        return stix2.parse_observable(copy.deepcopy(d), _valid_refs=refs, allow_custom=allow_custom, version='2.0')
    return stix2.parse(copy.deepcopy(d), allow_custom=allow_custom)


def family(ex):
    import stix2.exceptions as X
    return isinstance(ex, (X.STIXError, ValueError, TypeError))


WRONG_KIND = [5, 'x', True, 1.5, [1], {'a': 1}, -1, 'true']
BAD_IDS = lambda t: [t + '--{311b2d2d-f010-4473-83ec-1edf84858f4c}', t + '--urn:uuid:311b2d2d-f010-4473-83ec-1edf84858f4c', t + '--311b2d2df010447383ec1edf84858f4c',
                     t + '--00000000-0000-0000-0000-000000000000', t + '--311b2d2d-f010-4473-83ec-1edf84858f4c\n', 'zzz--311b2d2d-f010-4473-83ec-1edf84858f4c',
                     t + '-311b2d2d-f010-4473-83ec-1edf84858f4c', t + '--311b2d2d-f010-4473-83ec-1edf84858f4', t + '--３11b2d2d-f010-4473-83ec-1edf84858f4c']
BAD_TS = ['2020-01-01', '2020-13-01T00:00:00Z', 'x', '2020-01-01T00:00:00', '2020-01-01T00:00:00Z\n', '2020-01-01 00:00:00Z', '20200101T000000Z', '2020-01-01T24:00:00Z', '']
REF_TYPES = ['identity', 'indicator', 'file', 'relationship', 'marking-definition', 'bundle', 'sighting', 'location', 'ipv4-addr']
NON_OBJECT_NAMES = ['socket-ext', 'ntfs-ext', 'archive-ext', 'tlp', 'statement']      # registered names that are not object types (extensions, marking payloads)


def corruptions(d, ver, cat, tables):
    """(kind, corrupted JSON) single-point corruptions of a valid object, driven by the frozen model"""
    cname = f'{cat}:{d["type"]}'
    props = tables[cname]['properties']
    for pn, pv in props.items():
        if pn in d and pv['required']:
            c = copy.deepcopy(d); del c[pn]; yield (f'required {pn} removed', c)
        if pn not in d: continue
        k = pv['kind']
        for w in WRONG_KIND + [None, [], {}]:
            if type(w) is type(d[pn]) and not isinstance(w, (list, dict)): continue
            c = copy.deepcopy(d); c[pn] = w; yield (f'{pn}: wrong kind {w!r}', c)
        if k in ('IntegerProperty', 'FloatProperty'):
            for b, delta in ((pv['min'], -1), (pv['max'], 1)):
                if b is not None:
                    c = copy.deepcopy(d); c[pn] = b + delta; yield (f'{pn}: out of range {b + delta}', c)
        if k == 'EnumProperty':
            c = copy.deepcopy(d); c[pn] = 'not-in-vocabulary'; yield (f'{pn}: out of vocabulary', c)
        if k == 'IDProperty':
            for b in BAD_IDS(d['type']) + ([d['type'] + '--11111111-1111-1111-8111-111111111111'] if ver == '2.0' else []):
                c = copy.deepcopy(d); c[pn] = b; yield (f'{pn}: malformed identifier {b!r}', c)
        if k == 'ReferenceProperty':
            for t in REF_TYPES + ['x-custom-type'] + NON_OBJECT_NAMES:
                c = copy.deepcopy(d); c[pn] = t + '--' + G.UUID2; yield (f'{pn}: reference to {t}', c)
            for b in BAD_IDS('identity')[:5]:
                c = copy.deepcopy(d); c[pn] = b; yield (f'{pn}: malformed reference {b!r}', c)
        if k == 'ListProperty' and pv['list_of'].get('kind') == 'ReferenceProperty' and isinstance(d[pn], list):
            for t in REF_TYPES + ['x-custom-type'] + NON_OBJECT_NAMES:
                c = copy.deepcopy(d); c[pn] = list(d[pn]) + [t + '--' + G.UUID2]; yield (f'{pn}: list reference to {t}', c)
        if k == 'TimestampProperty':
            for b in BAD_TS:
                c = copy.deepcopy(d); c[pn] = b; yield (f'{pn}: malformed timestamp {b!r}', c)
        if k in ('DictionaryProperty', 'HashesProperty') and isinstance(d[pn], dict):
            for badkey in ('a b', 'k\n', 'ключ', ''):
                c = copy.deepcopy(d); c[pn] = dict(d[pn], **{badkey: 'v'}); yield (f'{pn}: illegal dictionary key {badkey!r}', c)
        if k == 'HashesProperty':
            c = copy.deepcopy(d); c[pn] = {'MD5': 'zz'}; yield (f'{pn}: implausible hash value', c)
            c = copy.deepcopy(d); c[pn] = {'MD5': 'a' * 32 + '\n'}; yield (f'{pn}: hash value with trailing newline', c)
        if k == 'HexProperty':
            for b in ('abc', 'zz', 'ab\n'):
                c = copy.deepcopy(d); c[pn] = b; yield (f'{pn}: bad hex {b!r}', c)
    if 'granular_markings' in props:
        # selectors that are well-formed but address nothing: absent property, one step too deep (index / key step on a scalar, on a string in particular), index past the end
        sels = []
        for pn, v in d.items():
            if pn == 'granular_markings': continue
            if isinstance(v, str) and v: sels += [f'{pn}.[0]', f'{pn}.[{len(v) - 1}]', f'{pn}.key']
            elif isinstance(v, (int, float)): sels += [f'{pn}.[0]']
            elif isinstance(v, list) and v:
                sels += [f'{pn}.[{len(v)}]', f'{pn}.length']
                if isinstance(v[0], str) and v[0]: sels += [f'{pn}.[0].[0]']
                if isinstance(v[0], dict):
                    for k2, v2 in v[0].items():
                        if isinstance(v2, str) and v2: sels += [f'{pn}.[0].{k2}.[0]']; break
            elif isinstance(v, dict): sels += [f'{pn}.[0]']
        sels += [pn for pn, pv in props.items() if pn not in d and pn != 'granular_markings' and not pv.get('has_default')][:3] + ['absent_property']
        for sel in dict.fromkeys(sels):
            if not re.match(r'^([a-z0-9_-]{3,250}(\.(\[[0-9]+\]|[a-z0-9_-]{1,250}))*|id)\Z', sel): continue
            c = copy.deepcopy(d); c['granular_markings'] = [{'marking_ref': 'marking-definition--613f2e26-407d-48c7-9eca-b8e91df99dc9', 'selectors': [sel]}]
            yield (f'granular_markings: selector addressing nothing {sel}', c)
    # "B may only be present together with A" rules of the specification text, with the FALSY values of the dependent property (0, 0.0, -0.0, false, ''): present is present
    for typ, dep, needs, falsy in (('location', 'precision', ('latitude', 'longitude'), (0, 0.0, -0.0, 1.5)), ('location', 'latitude', ('longitude',), (0, 0.0, -0.0)), ('location', 'longitude', ('latitude',), (0, 0.0, -0.0)),
                                   ('artifact', 'url', ('hashes',), ('http://x',)), ('email-message', 'body_multipart', ('is_multipart',), ([{'content_type': 't', 'body': 'b'}],)),
                                   ('artifact', 'decryption_key', ('encryption_algorithm',), ('', 'k'))):
        if d.get('type') != typ or dep not in props: continue
        for fv in falsy:
            c = copy.deepcopy(d)
            for n_ in needs: c.pop(n_, None)
            c[dep] = fv
            if typ == 'location': c.setdefault('region', 'northern-america') if 'country' not in c else None
            if typ == 'artifact' and dep == 'url': c.pop('payload_bin', None)
            yield (f'co-constraint: {dep}={fv!r} without {"/".join(needs)}', c)
    # members of a 2.0 observed-data carrying properties that belong to the other specification version
    if d.get('type') == 'observed-data' and isinstance(d.get('objects'), dict):
        for mk in d['objects']:
            for extra in ({'spec_version': '2.1'}, {'spec_version': '2.0'}, {'id': d['objects'][mk].get('type', 'file') + '--' + G.UUID2}, {'spec_version': '2.1', 'id': d['objects'][mk].get('type', 'file') + '--' + G.UUID2}, {'defanged': False}):
                c = copy.deepcopy(d); c['objects'][mk].update(extra); yield (f'observed-data member {mk}: carries {"/".join(sorted(extra))} ({extra.get("spec_version", "")})', c)
    c = copy.deepcopy(d); c['x_unknown_property'] = 1; yield ('unknown property added', c)
    c = copy.deepcopy(d); c['foo'] = 'bar'; yield ('unknown property (no x_ prefix) added', c)
    # co-constraints
    for e, l, strict in (('created', 'modified', False), ('first_seen', 'last_seen', False), ('valid_from', 'valid_until', True), ('first_observed', 'last_observed', False),
                         ('start_time', 'stop_time', True), ('start', 'end', False)):
        if e in props and l in props:
            c = copy.deepcopy(d); c[e] = '2020-01-02T00:00:00.000Z'; c[l] = '2020-01-01T00:00:00.000Z'
            if l == 'end': c['is_active'] = False
            yield (f'co-constraint: {l} earlier than {e}', c)
            if strict:
                c = copy.deepcopy(d); c[e] = '2020-01-02T00:00:00.000Z'; c[l] = '2020-01-02T00:00:00Z'; yield (f'co-constraint: {l} equal to {e} (differently spelled)', c)
