"""C09 -- pattern equivalence is a total, sound equivalence relation (proved leaf comparators + bounded soundness against an independent evaluator)."""
import itertools
import z3
from vf.pyvc.lib import REG
from spec.pattern_sem import show, read, matches, matches_typed, tok
from props import _patterns as PG
from contracts import patterns as K

LEVEL = 'exploration'
PA, PC = PG.PA, PG.PC


def universe(rng, tier):
    vals = [0, 1, 2, 'x', 1.5, 9007199254740993, 9007199254740992]
    obs_universe = [{PA: v1, PC: v2} for v1 in vals for v2 in (1, 'x')] + [{PA: 1}, {PA: 2}, {PC: 1}, {}]
    seqs = []
    for n in (1, 2, 3):
        combos = list(itertools.product(range(len(obs_universe)), repeat=n))
        if n == 3: combos = [c for c in combos if rng.random() < (0.06 if tier == 'quick' else 0.3)]
        for combo in combos:
            for times in ((0, 1, 5)[:n], (0, 0, 10)[:n], (5, 1, 0)[:n]):
                seqs.append([(times[i], obs_universe[c]) for i, c in enumerate(combo)])
    # always present (not sampled): every sequence of three single-property observations over the values the order comparisons distinguish, in three time layouts --
    # what separates FOLLOWEDBY from AND, and an alternative over two operands from one over three
    small = [{PA: 0}, {PA: 1}, {PA: 2}]
    for combo in itertools.product(range(3), repeat=3):
        for times in ((0, 1, 5), (5, 1, 0), (1, 0, 5)):
            seqs.append([(times[i], small[c]) for i, c in enumerate(combo)])
    return seqs


LAWS = [   # documented rewrites: each pair must be reported equivalent
    ("[a:b = 1 AND a:c = 2]", "[a:c = 2 AND a:b = 1]", 'commutativity of AND (comparison)'), ("[a:b = 1 OR a:c = 2]", "[a:c = 2 OR a:b = 1]", 'commutativity of OR (comparison)'),
    ("[a:b = 1] AND [a:c = 2]", "[a:c = 2] AND [a:b = 1]", 'commutativity of AND (observation)'), ("[a:b = 1] OR [a:c = 2]", "[a:c = 2] OR [a:b = 1]", 'commutativity of OR (observation)'),
    ("[(a:b = 1 AND a:c = 2) AND a:b = 2]", "[a:b = 1 AND (a:c = 2 AND a:b = 2)]", 'associativity of AND'), ("([a:b = 1] OR [a:c = 2]) OR [a:b = 2]", "[a:b = 1] OR ([a:c = 2] OR [a:b = 2])", 'associativity of OR'),
    ("[a:b = 1 OR a:b = 1]", "[a:b = 1]", 'idempotence of OR (comparison)'), ("[a:b = 1] OR [a:b = 1]", "[a:b = 1]", 'idempotence of OR (observation)'),
    ("[a:b = 1 OR (a:b = 1 AND a:c = 2)]", "[a:b = 1]", 'absorption (comparison)'), ("[a:b = 1] OR ([a:b = 1] AND [a:c = 2])", "[a:b = 1]", 'absorption (observation)'),
    ("[a:b = 1 AND (a:c = 2 OR a:c = 1)]", "[(a:b = 1 AND a:c = 2) OR (a:b = 1 AND a:c = 1)]", 'distribution of AND over OR (comparison)'),
    ("[a:b = 1] AND ([a:c = 2] OR [a:c = 1])", "([a:b = 1] AND [a:c = 2]) OR ([a:b = 1] AND [a:c = 1])", 'distribution of AND over OR (observation)'),
    ("[a:b = 1] FOLLOWEDBY ([a:c = 2] OR [a:c = 1])", "([a:b = 1] FOLLOWEDBY [a:c = 2]) OR ([a:b = 1] FOLLOWEDBY [a:c = 1])", 'distribution of FOLLOWEDBY over OR'),
    ("[a:b != 1 AND (a:c = 2 OR a:c = 1)]", "[(a:b != 1 AND a:c = 2) OR (a:b != 1 AND a:c = 1)]", 'distribution of AND over OR keeps negation'),
    ("[a:b NOT IN (1, 2) AND (a:c = 2 OR a:c = 1)]", "[(a:b NOT IN (1, 2) AND a:c = 2) OR (a:b NOT IN (1, 2) AND a:c = 1)]", 'distribution of AND over OR keeps NOT'),
    ("[a:b[0].c = 1 AND a:b[0].d = 2]", "[a:b[0].d = 2 AND a:b[0].c = 1]", 'commutativity with indexed paths'),
    ("[a:b IN (1, 2)]", "[a:b IN (2, 1)]", 'order-insensitive set literals'), ("[a:b = 1]", "[a:b = 1.0]", 'numerically equal constants'),
]


def run(chk):
    from stix2.equivalence.pattern import equivalent_patterns, find_equivalent_patterns
    chk.registry = REG
    chk.explanation = ('P (comparators): comparison_operator_cmp, bool_cmp, generic_constant_cmp, object_path_component_cmp (every combination of index / name steps) and '
                       'simple_comparison_expression_cmp (modularly: against the contracts of its three callees, not their bodies) return 0 exactly for equal operands, and the sign of '
                       'each is reflexive, antisymmetric and transitive -- lemmas over two and three instances of the function\'s own path summary (vf/summary.py), so they are decided '
                       'again from the current source on every run; constant_cmp (dispatch over the eight constant kinds, type-order and comparator tables re-read from the source) likewise, against the '
                       'contracts of the per-kind comparators; object_path_cmp against the contract of the lexicographic step comparison; hex_cmp / bin_cmp over an uninterpreted decoding function; list_cmp and iter_lex_cmp (sorted lists, generators) remain assumed callee contracts.  '
                       'generic_cmp is the three-way comparison of its operands (ints and strings) and iter_in is membership up to the comparator '
                       '(loop invariant with break); from the contract the == 0 kernel is an equivalence and the sign is antisymmetric and transitive (z3 lemmas), which is what '
                       'sorting and the final comparison of normal forms rely on.  B (carries the property; recursive AST rewriting is outside PyVC): on the generated pattern '
                       'family the test never fails, is reflexive and symmetric, transitive on sampled triples, and SOUND: patterns reported equivalent match exactly the same '
                       'observation sequences under an independent evaluator of the patterning semantics (binding sets over sequences of <= 3 observations, 3 timestamp '
                       'layouts, values incl. integers beyond 2^53); every documented rewrite law instance is recognised; find_equivalent_patterns == filter(equivalent_patterns).')
    chk.trust('spec/pattern_sem.py as the STIX patterning semantics on the bounded universe', 'ipaddress networks as the meaning of CIDR constants')
    for c in (K.generic_cmp_contract('int'), K.generic_cmp_contract('str'), K.iter_in_contract()):
        chk.prove(c); chk.canary(c)
    for name, claim in K.cmp_lemmas(): chk.lemma(name, claim)
    K.run_comparators(chk)      # comparison-level comparators: contracts + order lemmas over their path summaries
    from vf.check import SRC_ROOT
    K.run_decoded_cmps(chk)      # hex_cmp / bin_cmp: decode, then the byte order
    K.run_object_path_cmp(chk)      # object type names, then the step sequences (against the contract of the lexicographic comparison)
    K.run_constant_cmp(chk, SRC_ROOT)      # the dispatch over constant kinds, against the per-kind comparators' contracts; tables re-read from the source

    pats = PG.patterns(chk.tier)
    texts = []
    for t in pats:
        x = show(t)
        if any(w in x for w in ('ISSUBSET', 'ISSUPERSET', "t'", "h'", "b'", 'LIKE', 'MATCHES', 'true', "'")) and 'IN (' not in x and "= 'x'" not in x: continue   # constants outside the evaluator's universe
        texts.append(x)
    texts = list(dict.fromkeys(texts))
    seqs = universe(chk.rng, chk.tier)
    sig = {}
    for x in texts:
        tr = read(x)
        sig[x] = tuple(matches(tr, s) for s in seqs)
    chk.extra['semantic_universe'] = {'patterns': len(texts), 'observation_sequences': len(seqs)}

    def total_cases():
        for x in [show(t) for t in pats]: yield x

    def check_total(x):
        try:
            if not equivalent_patterns(x, x): return ('relation#reflexive', f'{x} is not equivalent to itself', {'pattern': x})
        except Exception as ex:
            return (f'total#never fails:{type(ex).__name__}', f'equivalent_patterns({x!r}, itself) raised {type(ex).__name__}: {str(ex)[:100]}', {'pattern': x})
    chk.bounded('totality and reflexivity on every generated pattern', list(total_cases()), check_total, classify=lambda x: x, bound=f'{len(pats)} patterns (all operators, NOT, constant kinds, qualifiers)')

    sample = list(texts)
    if chk.tier == 'quick' and len(sample) > 150:
        must = [x for x in sample if '] ' in x or '9007' in x or '1.0' in x or 'NOT' in x[:14]]       # every observation-level compound, the big-integer and negated leaves
        rest = [x for x in sample if x not in must]; chk.rng.shuffle(rest)
        sample = must + rest[:max(20, 170 - len(must))]          # at least 20 of the other patterns, whatever the number of compounds
    eq = {}

    def pair_cases():
        for a, b in itertools.combinations(sample, 2): yield (a, b)

    def check_pair(case):
        a, b = case
        try: e1 = equivalent_patterns(a, b); e2 = equivalent_patterns(b, a)
        except Exception as ex: return (f'total#never fails:{type(ex).__name__}', f'equivalent_patterns({a!r}, {b!r}) raised {type(ex).__name__}: {str(ex)[:100]}', {})
        eq[(a, b)] = e1
        if e1 != e2: return ('relation#symmetric', f'{a} ~ {b} is {e1} but the converse is {e2}', {})
        if e1 and sig[a] != sig[b]:
            i = next(i for i, (u, v) in enumerate(zip(sig[a], sig[b])) if u != v)
            kind = 'numeric constants' if any(ch.isdigit() for ch in a) and a.replace('9007199254740993', 'N') == b.replace('9007199254740992', 'N') else 'negation' if 'NOT' in a + b or '!=' in a + b else 'rewrite'
            return (f'sound#reported equivalent but semantics differ:{kind}', f'{a} ~ {b} reported equivalent, but only one of them matches the observation sequence {seqs[i]}', {'p': a, 'q': b})
    chk.bounded('symmetry and soundness on all pairs', list(pair_cases()), check_pair, classify=lambda c: c, bound=f'{len(sample)} patterns, all pairs; semantics over {len(seqs)} observation sequences')

    def triple_cases():
        cls = {}
        for (a, b), e in eq.items():
            if e: cls.setdefault(a, set()).add(b); cls.setdefault(b, set()).add(a)
        for a, bs in cls.items():
            for b in bs:
                for c in cls.get(b, ()):
                    if c != a: yield (a, b, c)

    def check_triple(case):
        a, b, c = case
        if not equivalent_patterns(a, c): return ('relation#transitive', f'{a} ~ {b} and {b} ~ {c} but not {a} ~ {c}', {})
    chk.bounded('transitivity on related triples', list(triple_cases())[:3000], check_triple, classify=lambda c: c, bound='every chain a ~ b ~ c found among the pairs above (first 3000)')

    def check_law(case):
        a, b, name = case
        try:
            if not equivalent_patterns(a, b): return (f'laws#documented rewrite recognised:{name}', f'{name}: {a} and {b} are not reported equivalent', {})
        except Exception as ex: return (f'total#never fails:{type(ex).__name__}', f'{name}: raised {ex!r}', {})
    chk.bounded('documented algebraic rewrites', LAWS, check_law, classify=lambda c: c[2], bound=f'{len(LAWS)} law instances')

    # ---- spellings of object paths: quoted and unquoted steps, quoted steps whose text looks like path syntax ('c[1]', 'c.d', 'k[x]'), index steps after quoted names.
    # Two comparisons that differ only in the path are equivalent exactly when the paths are the same sequence of (name, index) steps -- by a reader of its own.
    def read_path(t):
        steps = []; i = 0
        while i < len(t):
            if t[i] == '.': i += 1; continue
            if t[i] == "'":
                j = t.index("'", i + 1); steps.append(['name', t[i + 1:j]]); i = j + 1
            elif t[i] == '[':
                j = t.index(']', i); steps.append(['index', t[i + 1:j]]); i = j + 1
            else:
                j = i
                while j < len(t) and t[j] not in ".['": j += 1
                steps.append(['name', t[i:j]]); i = j
        return tuple(tuple(x) for x in steps)
    PATHS = ["b.c", "b.'c'", "'b'.c", "b.c[1]", "b.'c'[1]", "b.'c[1]'", "b.c[*]", "b.'c[*]'", "b.'c'[*]", "b.'k[x]'", "b.'c.d'", "b.c.d", "b.'c-d'", "b.c[1].d", "b.'c[1]'.d", "b.'c[1].d'", "b.c[-1]", "b.'c[-1]'", "'b.c'", "b.c_ref.d"]

    def path_cases():
        for p1 in PATHS:
            for p2 in PATHS:
                for tmpl in ('[a:{} = 1]', '[a:{} = 1 OR a:z = 2]', '[a:{} = 1] FOLLOWEDBY [a:z = 2]'): yield (p1, p2, tmpl)

    def path_check(case):
        p1, p2, tmpl = case
        a, b = tmpl.format(p1), tmpl.format(p2)
        try: e = equivalent_patterns(a, b)
        except Exception as ex: return (f'total#never fails:{type(ex).__name__}', f'equivalent_patterns({a!r}, {b!r}) raised {type(ex).__name__}: {str(ex)[:100]}', {})
        want = read_path(p1) == read_path(p2)
        # soundness only: the test need not recognise every respelling (quoting the first step is kept apart by the library), but what it reports equivalent must be the same path
        if e and not want: return ('sound#object paths', f'{a} and {b} are reported equivalent, the paths are different sequences of steps', {})
        if p1 == p2 and not e: return ('relation#reflexive', f'{a} is not equivalent to itself', {})
        if tmpl == '[a:{} = 1]' and p2 == PATHS[0]:
            coll = [tmpl.format(p) for p in PATHS]
            found = list(find_equivalent_patterns(a, coll)); pairwise = [c for c in coll if equivalent_patterns(a, c)]
            if found != pairwise: return ('find#exactly the pairwise equivalent members', f'find_equivalent_patterns({a}) = {found}, pairwise {pairwise}', {})
    chk.bounded('object path spellings: all pairs', list(path_cases()), path_check, classify=lambda c: c, bound=f'{len(PATHS)} spellings of paths (quoted / unquoted steps, quoted text that looks like path syntax, index steps) x all ordered pairs x 3 contexts')

    # ---- single-leaf substitutions in every rewrite context: two patterns that differ in one leaf and are reported equivalent must have the same meaning
    pool = PG.leaf_pool()
    def kin(l1, l2): return l1[1] == l2[1] or l1[2:] == l2[2:]            # same path, other test -- or same test, other path
    base_tests = set(PG.TESTS2[:8])
    def quick_pair(l1, l2):        # quick tier: path confusions on the 8 numeric tests over all 9 paths; constant-kind confusions on one path
        if l1[2:] in base_tests and l2[2:] in base_tests: return kin(l1, l2)
        return l1[1] == l2[1] == PG.PA
    leaf_pairs = [(l1, l2) for l1, l2 in itertools.combinations(pool, 2) if (chk.tier == 'thorough' and kin(l1, l2)) or quick_pair(l1, l2)]

    def local_sig(t1, t2):
        paths = sorted(PG.paths_of(t1) | PG.paths_of(t2))
        # value domain: absent, every constant of the two patterns (as typed tokens; timestamps by their instant), and one value none of them names
        def canon_tok(l): return ('ts', l[1].replace('.000Z', 'Z')) if l[0] == 'ts' else tok(l)
        vals_dom = [None] + sorted({canon_tok(c) for c in PG.constants_of(t1) | PG.constants_of(t2)}, key=repr) + [('num', 7.0)]
        if len(vals_dom) > 5: vals_dom = vals_dom[:4] + [vals_dom[-1]]
        obs = [dict((p, v) for p, v in zip(paths, vals) if v is not None) for vals in itertools.product(vals_dom, repeat=len(paths))]
        if len(obs) > 40: obs = obs[::len(obs) // 40 + 1] + [obs[-1]]
        seqs2 = [[(0, o)] for o in obs] + [[(t0, a), (t1_, b)] for a in obs for b in obs for t0, t1_ in ((0, 1), (5, 0))] + [[(0, a), (1, a), (2, b)] for a in obs[:9] for b in obs[:9]]
        def norm_ts(t):
            if not isinstance(t, tuple): return t
            if t and t[0] == 'ts': return ('ts', t[1].replace('.000Z', 'Z'))
            return tuple(norm_ts(x) if isinstance(x, tuple) else x for x in t)
        t1, t2 = norm_ts(t1), norm_ts(t2)
        for sq in seqs2:
            if matches_typed(t1, sq) != matches_typed(t2, sq): return sq
        return None

    def subst_cases():
        for name, ctx in PG.contexts():
            for l1, l2 in leaf_pairs: yield (name, l1, l2, ctx)

    def check_subst(case):
        name, l1, l2, ctx = case
        t1, t2 = ctx(l1), ctx(l2); a, b = show(t1), show(t2)
        try: e = equivalent_patterns(a, b)
        except Exception as ex: return (f'total#never fails:{type(ex).__name__}', f'equivalent_patterns({a!r}, {b!r}) raised {type(ex).__name__}: {str(ex)[:100]}', {})
        if e:
            w = local_sig(read(a), read(b))
            if w is not None:
                what = 'path' if l1[1] != l2[1] else 'negation' if l1[3] != l2[3] and l1[2] == l2[2] else 'test'
                return (f'sound#reported equivalent but semantics differ:{what} in {name}', f'{a} ~ {b} reported equivalent, but only one of them matches the observation sequence {w}', {'p': a, 'q': b})
    sc = list(subst_cases())
    chk.bounded('single-leaf substitutions in every rewrite context', sc, check_subst, classify=lambda c: (c[0], c[1][1] == c[2][1], c[1][2:], c[2][2:]),
                bound=f'{len(leaf_pairs)} leaf pairs (9 paths incl. index 0/1 steps and continuations x 19 tests over every constant kind; ' + ('same-path or same-test pairs' if chk.tier == 'thorough' else 'same-path or same-test pairs of the 8 numeric tests, all test pairs on one path') + f') x {len(PG.contexts())} contexts; meaning compared on all observation sequences of length <= 2 (and a length-3 subset) over the paths of the pair with values absent / each constant of the pair / another value (typed: a string never equals a hex or a number of the same text)')

    # ---- qualifiers: two patterns that differ in one qualifier parameter only (window start, window stop, WITHIN span, REPEATS count), in every position a qualifier can take
    a0 = ('OBS', ('CMP', PA, '=', False, ('num', 1))); b0 = ('OBS', ('CMP', PC, '=', False, ('num', 2)))
    TQ = lambda x: f"t'2020-01-01T00:00:{x:02d}Z'"
    QUALS = [('WITHIN', 5.0), ('WITHIN', 20.0), ('REPEATS', 2), ('REPEATS', 3), ('STARTSTOP', TQ(0), TQ(5)), ('STARTSTOP', TQ(0), TQ(10)), ('STARTSTOP', TQ(1), TQ(5)), ('STARTSTOP', TQ(1), TQ(10)), ('STARTSTOP', TQ(2), TQ(20))]
    QCTX = [('bare', lambda q: ('QUAL', a0, q)), ('on a group', lambda q: ('QUAL', ('PAREN', ('OAND', (a0, b0))), q)), ('under REPEATS', lambda q: ('QUAL', ('QUAL', a0, q), ('REPEATS', 2))),
            ('under WITHIN', lambda q: ('QUAL', ('QUAL', a0, q), ('WITHIN', 20.0))), ('over REPEATS', lambda q: ('QUAL', ('QUAL', a0, ('REPEATS', 2)), q)),
            ('operand of AND', lambda q: ('OAND', (('QUAL', a0, q), b0))), ('operand of OR', lambda q: ('OOR', (('QUAL', a0, q), b0))), ('operand of FOLLOWEDBY', lambda q: ('FBY', (b0, ('QUAL', a0, q)))),
            ('absorbable OR', lambda q: ('OOR', (('QUAL', a0, q), ('OAND', (('QUAL', a0, q), b0)))))]
    qobs = [{}, {PA: 1}, {PC: 2}, {PA: 1, PC: 2}]
    qseqs = [[(t, o)] for t in (0, 1, 5, 10) for o in qobs] + [[(t1_, o1), (t2_, o2)] for t1_, t2_ in ((0, 1), (0, 5), (1, 10), (5, 10), (0, 10), (2, 20), (1, 2)) for o1 in qobs[1:] for o2 in qobs[1:]] + \
            [[(t1_, o1), (t2_, o1), (t3_, o2)] for t1_, t2_, t3_ in ((0, 1, 2), (1, 2, 5), (0, 5, 10), (1, 2, 10), (2, 5, 20)) for o1 in qobs[1:] for o2 in qobs[1:]]

    def qual_cases():
        for name, ctx in QCTX:
            for q1, q2 in itertools.combinations(QUALS, 2): yield (name, q1, q2, ctx)

    def check_qual(case):
        name, q1, q2, ctx = case
        t1, t2 = ctx(q1), ctx(q2); a, b = show(t1), show(t2)
        try: e = equivalent_patterns(a, b)
        except Exception as ex: return (f'total#never fails:{type(ex).__name__}', f'equivalent_patterns({a!r}, {b!r}) raised {type(ex).__name__}: {str(ex)[:100]}', {})
        if e:
            r1, r2 = read(a), read(b)
            w = next((sq for sq in qseqs if matches(r1, sq) != matches(r2, sq)), None)
            if w is not None:
                what = 'window stop' if q1[0] == q2[0] == 'STARTSTOP' and q1[1] == q2[1] else 'window start' if q1[0] == q2[0] == 'STARTSTOP' and q1[2] == q2[2] else 'parameter' if q1[0] == q2[0] else 'kind'
                return (f'sound#reported equivalent but semantics differ:qualifier {what} ({name})', f'{a} ~ {b} reported equivalent, but only one of them matches the observation sequence {w}', {'p': a, 'q': b})
    chk.bounded('qualifiers differing in one parameter, in every qualifier position', list(qual_cases()), check_qual, classify=lambda c: (c[0], c[1], c[2]),
                bound=f'{len(QUALS)} qualifiers (2 spans, 2 counts, 5 windows differing in start / stop / both), all pairs x {len(QCTX)} positions; meaning compared on {len(qseqs)} timed observation sequences')

    # ---- tempting rewrites that are NOT valid: each pair differs in meaning (a witness sequence is found by the evaluator first), so it must not be reported equivalent
    c0 = ('OBS', ('CMP', PA, '=', False, ('num', 2)))
    R2, W5 = ('REPEATS', 2), ('WITHIN', 5.0)
    TEMPTING = [
        ('REPEATS does not distribute over OR', ('QUAL', ('PAREN', ('OOR', (a0, b0))), R2), ('OOR', (('QUAL', a0, R2), ('QUAL', b0, R2)))),
        ('REPEATS does not distribute over OR (same path)', ('QUAL', ('PAREN', ('OOR', (a0, c0))), R2), ('OOR', (('QUAL', a0, R2), ('QUAL', c0, R2)))),
        ('REPEATS does not distribute over AND', ('QUAL', ('PAREN', ('OAND', (a0, b0))), R2), ('OAND', (('QUAL', a0, R2), ('QUAL', b0, R2)))),
        ('REPEATS over OR, under FOLLOWEDBY', ('FBY', (b0, ('QUAL', ('PAREN', ('OOR', (a0, c0))), R2))), ('FBY', (b0, ('PAREN', ('OOR', (('QUAL', a0, R2), ('QUAL', c0, R2))))))),
        ('FOLLOWEDBY is not commutative', ('FBY', (a0, b0)), ('FBY', (b0, a0))),
        ('WITHIN does not distribute over FOLLOWEDBY', ('QUAL', ('PAREN', ('FBY', (a0, b0))), W5), ('FBY', (('QUAL', a0, W5), ('QUAL', b0, W5)))),
        ('WITHIN does not distribute over AND', ('QUAL', ('PAREN', ('OAND', (a0, b0))), W5), ('OAND', (('QUAL', a0, W5), ('QUAL', b0, W5)))),
        ('comparison AND is not observation AND', ('OBS', ('CAND', (a0[1], b0[1]))), ('OAND', (a0, b0))),
        ('REPEATS 2 is not REPEATS 3 of the same thing', ('QUAL', a0, R2), ('QUAL', a0, ('REPEATS', 3))),
        ('REPEATS of REPEATS multiplies', ('QUAL', ('QUAL', a0, R2), R2), ('QUAL', a0, R2)),
        ('AND does not absorb OR alternatives', ('OAND', (a0, ('PAREN', ('OOR', (b0, c0))))), ('OAND', (a0, b0))),
        ('FOLLOWEDBY does not distribute inward over AND', ('FBY', (a0, ('PAREN', ('OAND', (b0, c0))))), ('OAND', (('PAREN', ('FBY', (a0, b0))), c0))),
    ]
    qobs3 = qobs + [{PA: 2}, {PA: 2, PC: 2}]
    tseqs = qseqs + [[(t1_, o1), (t2_, o2)] for t1_, t2_ in ((0, 1), (1, 0), (0, 10)) for o1 in qobs3[1:] for o2 in qobs3[1:]] + \
            [[(0, o1), (1, o2), (2, o3)] for o1 in qobs3[1:] for o2 in qobs3[1:] for o3 in qobs3[1:]] + [[(0, o1), (1, o1), (2, o2), (3, o2)] for o1 in qobs3[1:] for o2 in qobs3[1:]]

    def check_tempting(case):
        name, t1, t2 = case
        a, b = show(t1), show(t2); r1, r2 = read(a), read(b)
        w = next((sq for sq in tseqs if matches(r1, sq) != matches(r2, sq)), None)
        if w is None: return None                     # (no difference on this universe: nothing to demand)
        try: e = equivalent_patterns(a, b)
        except Exception as ex: return (f'total#never fails:{type(ex).__name__}', f'equivalent_patterns({a!r}, {b!r}) raised {ex!r}', {})
        if e: return (f'sound#reported equivalent but semantics differ:{name}', f'{a} ~ {b} reported equivalent ({name}), but only one of them matches the observation sequence {w}', {'p': a, 'q': b})
    chk.bounded('tempting but invalid rewrites are not taken', TEMPTING, check_tempting, classify=lambda c: c[0], bound=f'{len(TEMPTING)} pairs (qualifier distribution, commutation of FOLLOWEDBY, comparison vs observation AND, absorption); witness searched on {len(tseqs)} timed sequences')

    # ---- comparison expressions over several object types inside one observation expression (an observation is matched against ONE object, so a conjunct
    #      of another type can never hold; every observation of this universe is an object of a single type)
    MIXED = ["[b:x = 1 AND (a:y = 2 OR b:z = 3)]", "[b:x = 9 AND (a:y = 2 OR b:z = 7)]", "[b:x = 1 AND b:z = 3]", "[b:x = 9 AND b:z = 7]", "[c:k = 1 OR (b:x = 1 AND (a:y = 2 OR b:z = 3))]", "[c:k = 1]",
             "[c:k = 1 OR (b:x = 1 AND b:z = 3)]", "[a:x = 1 AND (a:y = 2 OR b:z = 3)]", "[a:x = 1 AND a:y = 2]", "[(a:y = 2 OR b:z = 3) AND b:x = 1]", "[a:y = 2 OR b:z = 3]", "[b:z = 3 OR a:y = 2]",
             "[(b:x = 1 OR a:x = 1) AND (b:z = 3 OR a:y = 2)]", "[a:x = 1 AND (a:y = 2 OR b:z = 3) AND (a:y = 2 OR c:k = 1)]", "[b:z = 3 AND (a:y = 2 OR b:x = 1)] FOLLOWEDBY [a:x = 1 AND (b:z = 3 OR a:y = 2)]"]
    def P_(t, k): return (t, (('key', k),))
    mobs = [{P_('b', 'x'): v1, P_('b', 'z'): v2} for v1 in (1, 9) for v2 in (3, 7)] + [{P_('a', 'x'): 1, P_('a', 'y'): 2}, {P_('a', 'y'): 2}, {P_('a', 'x'): 1}, {P_('a', 'x'): 1, P_('a', 'y'): 3}, {P_('c', 'k'): 1}, {P_('c', 'k'): 2}, {P_('b', 'x'): 1}]
    mseqs = [[(0, o)] for o in mobs] + [[(0, o1), (1, o2)] for o1 in mobs for o2 in mobs]
    msig = {x: tuple(matches(read(x), sq) for sq in mseqs) for x in MIXED}

    def check_mixed(case):
        a, b = case
        try: e1 = equivalent_patterns(a, b); e2 = equivalent_patterns(b, a)
        except Exception as ex: return (f'total#never fails:{type(ex).__name__}', f'equivalent_patterns({a!r}, {b!r}) raised {type(ex).__name__}: {str(ex)[:100]}', {})
        if a == b and not e1: return ('relation#reflexive', f'{a} is not equivalent to itself', {})
        if e1 != e2: return ('relation#symmetric', f'{a} ~ {b} is {e1} but the converse is {e2}', {})
        if e1 and msig[a] != msig[b]:
            w = next(sq for sq, u, v in zip(mseqs, msig[a], msig[b]) if u != v)
            return ('sound#reported equivalent but semantics differ:comparisons over several object types', f'{a} ~ {b} reported equivalent, but only one of them matches {w}', {'p': a, 'q': b})
        if not e1 and a != b and msig[a] == msig[b] and {a, b} in ({MIXED[10], MIXED[11]},):
            return ('law#documented rewrite recognised:commutativity of OR (comparison), two object types', f'{a} !~ {b}', {})
    # each pattern is also compared with itself AFTER all the others were processed (normalisation must not leave anything behind in shared nodes)
    chk.bounded('comparisons over several object types in one observation expression', [(a, b) for a in MIXED for b in MIXED] + [(a, a) for a in MIXED], check_mixed, classify=lambda c: c,
                bound=f'{len(MIXED)} patterns, all ordered pairs, then each with itself again; meaning compared on {len(mseqs)} sequences of single-type observations')
    # known finding: a comparison AND whose operands share no object type is syntactically valid but refused by the pattern object model
    try:
        equivalent_patterns("[a:x = 1 AND b:x = 1]", "[a:x = 1 AND b:x = 1]")
    except ValueError as ex:
        if 'same object type' in str(ex): chk.violation('total#never fails:comparison AND whose operands share no object type', f"equivalent_patterns(\"[a:x = 1 AND b:x = 1]\", itself) raised ValueError: {ex}", {'pattern': "[a:x = 1 AND b:x = 1]"})
        else: chk.violation('total#never fails:ValueError', f"equivalent_patterns(\"[a:x = 1 AND b:x = 1]\", itself) raised ValueError: {ex}", {})
    except Exception as ex:
        chk.violation(f'total#never fails:{type(ex).__name__}', f"equivalent_patterns(\"[a:x = 1 AND b:x = 1]\", itself) raised {type(ex).__name__}: {ex}", {})

    # ---- set literals mixing constant KINDS whose payloads compare equal in Python (1 / true / 1.0, 0 / false, 'ab' / h'ab' / b'YWI='): members are distinct values
    KIND_SETS = [("[a:b IN (1, true)]", "[a:b IN (1)]"), ("[a:b IN (1, true)]", "[a:b IN (true)]"), ("[a:b IN (0, false)]", "[a:b IN (0)]"), ("[a:b IN (0, false)]", "[a:b IN (false)]"),
                 ("[a:b IN ('ab', h'ab')]", "[a:b IN ('ab')]"), ("[a:b IN ('ab', h'ab')]", "[a:b IN (h'ab')]"), ("[a:b NOT IN (1, true)]", "[a:b NOT IN (1)]"), ("[a:b IN (1.0, true)]", "[a:b IN (1.0)]"),
                 ("[a:b IN ('1', 1)]", "[a:b IN (1)]"), ("[a:b IN (1, true, 2)]", "[a:b IN (1, 2)]")]
    KIND_SAME = [("[a:b IN (1, true)]", "[a:b IN (true, 1)]"), ("[a:b IN (0, false, 2)]", "[a:b IN (2, false, 0)]"), ("[a:b IN ('ab', h'ab')]", "[a:b IN (h'ab', 'ab')]")]          # (removal of repeated members is not among the documented rewrites: not demanded)
    def check_kind(case):
        a, b, same = case
        try: e = equivalent_patterns(a, b); e2 = equivalent_patterns(b, a)
        except Exception as ex: return (f'total#never fails:{type(ex).__name__}', f'equivalent_patterns({a!r}, {b!r}) raised {ex!r}', {})
        if e != e2: return ('relation#symmetric', f'{a} ~ {b} is {e} but the converse is {e2}', {})
        if same and not e: return ('laws#documented rewrite recognised:order-insensitive set literals (members of several kinds)', f'{a} and {b} are not reported equivalent', {})
        if not same and e: return ('sound#reported equivalent but semantics differ:set literal members of different kinds', f'{a} ~ {b} reported equivalent, but a value of the kind only one of them lists matches only that one', {'p': a, 'q': b})
    chk.bounded('set literals mixing constant kinds with equal payloads', [(a, b, False) for a, b in KIND_SETS] + [(a, b, True) for a, b in KIND_SAME], check_kind, classify=lambda c: c,
                bound=f'{len(KIND_SETS)} pairs that differ in a member of another kind, {len(KIND_SAME)} reorderings')

    # ---- cascades: documented rewrites applied one after the other (a simplification that only becomes possible after another one)
    CASCADES = [
        ("(([a:b = 1] OR [a:b = 1]) WITHIN 5 SECONDS) OR ([a:b = 1] WITHIN 5 SECONDS)", "[a:b = 1] WITHIN 5 SECONDS", 'idempotence under a qualifier, then idempotence'),
        ("[((a:b = 1 OR a:b = 1) AND a:c = 2) OR (a:b = 1 AND a:c = 2)]", "[a:b = 1 AND a:c = 2]", 'idempotence under AND, then idempotence'),
        ("[(a:b = 1 OR a:b = 1) OR ((a:b = 1 OR a:b = 1) AND a:c = 2)]", "[a:b = 1]", 'idempotence, then absorption (comparison)'),
        ("([a:b = 1] OR [a:b = 1]) OR (([a:b = 1] OR [a:b = 1]) AND [a:c = 2])", "[a:b = 1]", 'idempotence, then absorption (observation)'),
        ("(([a:b = 1] OR [a:b = 1]) FOLLOWEDBY [a:c = 2]) OR ([a:b = 1] FOLLOWEDBY [a:c = 2])", "[a:b = 1] FOLLOWEDBY [a:c = 2]", 'idempotence under FOLLOWEDBY, then idempotence'),
        ("(([a:b = 1] OR [a:b = 1]) REPEATS 2 TIMES) OR ([a:b = 1] REPEATS 2 TIMES)", "[a:b = 1] REPEATS 2 TIMES", 'idempotence under REPEATS, then idempotence'),
        ("([a:b = 1] OR ([a:b = 1] OR [a:b = 1])) AND [a:c = 2]", "[a:b = 1] AND [a:c = 2]", 'associativity, then idempotence twice'),
        ("[a:b = 1 AND (a:c = 2 OR (a:c = 2 OR a:c = 2))]", "[a:b = 1 AND a:c = 2]", 'associativity, then idempotence twice (comparison)'),
        ("(([a:b = 1] AND [a:c = 2]) OR ([a:c = 2] AND [a:b = 1])) START t'2020-01-01T00:00:00Z' STOP t'2020-01-01T00:00:10Z'", "([a:b = 1] AND [a:c = 2]) START t'2020-01-01T00:00:00Z' STOP t'2020-01-01T00:00:10Z'", 'commutativity, then idempotence under START/STOP'),
        ("[a:b = 1 AND (a:c = 2 OR a:c = 1)] OR [(a:b = 1 AND a:c = 2) OR (a:b = 1 AND a:c = 1)]", "[(a:c = 1 AND a:b = 1) OR (a:c = 2 AND a:b = 1)]", 'distribution, commutativity, then idempotence of observation OR'),
    ]
    chk.bounded('documented rewrites in cascade', CASCADES, check_law, classify=lambda c: c[2], bound=f'{len(CASCADES)} instances where one documented rewrite enables the next')

    # ---- the paths the normaliser treats specially (addresses, registry keys) with constants of EVERY kind: total and reflexive like everywhere else
    SPECIAL_PATHS = ['ipv4-addr:value', 'ipv6-addr:value', 'windows-registry-key:key', 'windows-registry-key:values[*].name', 'windows-registry-key:values[0].name', 'windows-registry-key:values[*].data']
    CONSTS = ['1', '1.5', 'true', "'10.0.0.1'", "'10.0.0.0/8'", "'::1/64'", "'HKEY_X\\\\Key'", "''", "t'2020-01-01T00:00:00Z'", "h'ab'", "b'YWJj'"]
    def special_cases():
        for path in SPECIAL_PATHS:
            for c in CONSTS:
                for op in ('=', '!=', '<', 'LIKE') if c.startswith("'") else ('=', '!=') if c in ('true', 'false') else ('=', '!=', '<'): yield f'[{path} {op} {c}]'
            for st in ('(1, 2)', "('10.0.0.1', '10.0.0.0/8')", "(1, 'x')", '(true, false)'): yield f'[{path} IN {st}]'
    chk.bounded('special paths x every constant kind: total and reflexive', list(special_cases()), check_total, classify=lambda x: x,
                bound=f'{len(SPECIAL_PATHS)} special paths x {len(CONSTS)} constants of every kind x 3-4 operators, plus set literals')

    # ---- special-value canonicalisation (documented rewrites of the normaliser): CIDR networks and registry-key case, against integer arithmetic
    from stix2.equivalence.pattern.transform.specials import _mask_bytes
    def mask_cases():
        for size in (4, 16):
            for p in range(8 * size + 1):
                for fill in (0xFF, 0xA5, 0x01, 0x80): yield (size, p, fill)

    def check_mask(case):
        size, p, fill = case
        bs = bytearray([fill] * size); n = int.from_bytes(bs, 'big'); bits = 8 * size
        want = (n >> (bits - p) << (bits - p)) if p else 0
        try: _mask_bytes(bs, p)
        except Exception as ex: return ('special#_mask_bytes never fails', f'_mask_bytes({size} bytes of {fill:#x}, {p}) raised {ex!r}', {})
        if int.from_bytes(bs, 'big') != want: return ('special#_mask_bytes keeps exactly the prefix bits', f'_mask_bytes({size} bytes of {fill:#x}, prefix {p}) = {bytes(bs).hex()}, integer arithmetic {want.to_bytes(size, "big").hex()}', {'size': size, 'prefix': p})
    chk.bounded('_mask_bytes == integer mask', list(mask_cases()), check_mask, classify=lambda c: c, bound='every prefix size of 4- and 16-byte addresses x 4 byte fills (exhaustive in the prefix dimension)')

    import ipaddress
    def cidr_cases():
        v4 = ['10.0.0.1', '10.0.0.2', '10.0.0.129', '10.0.1.1', '10.1.0.1', '192.168.1.1', '138.0.0.1']
        for p in (0, 1, 7, 8, 9, 15, 16, 17, 23, 24, 25, 26, 30, 31, 32):
            for x, y in itertools.combinations(v4, 2): yield ('ipv4-addr', x, y, p)
        v6 = ['2001:db8::1', '2001:db8::2', '2001:db8::81', '2001:db8::1:1', '2001:db9::1', 'fe80::1']
        for p in (0, 1, 31, 32, 33, 64, 112, 113, 120, 121, 126, 127, 128):
            for x, y in itertools.combinations(v6, 2): yield ('ipv6-addr', x, y, p)

    def check_cidr(case):
        typ, x, y, p = case
        nx = ipaddress.ip_network(f'{x}/{p}', strict=False); ny = ipaddress.ip_network(f'{y}/{p}', strict=False)
        for neg in ('', 'NOT '):
            a, b = f"[{typ}:value {neg}= '{x}/{p}']", f"[{typ}:value {neg}= '{y}/{p}']"
            try: e = equivalent_patterns(a, b)
            except Exception as ex: return (f'total#never fails:{type(ex).__name__}', f'equivalent_patterns({a!r}, {b!r}) raised {ex!r}', {})
            if e and nx != ny: return ('sound#reported equivalent but semantics differ:different CIDR networks', f'{a} ~ {b} reported equivalent: networks {nx} and {ny} differ', {'p': a, 'q': b})
            if not e and nx == ny: return ('laws#documented rewrite recognised:CIDR host bits are insignificant', f'{a} and {b} denote the same network {nx} but are not reported equivalent', {'p': a, 'q': b})
    chk.bounded('CIDR constants: equivalent exactly when the networks are equal', list(cidr_cases()), check_cidr, classify=lambda c: (c[0], c[3], c[1], c[2]),
                bound='7 IPv4 addresses x 15 prefix sizes (byte boundaries and both sides of them) and 6 IPv6 addresses x 13 prefix sizes, all pairs, with and without NOT; reference: ipaddress networks')

    def reg_cases():
        for path, ci in (('key', True), ('values[0].name', True), ('values[*].name', True), ('values[0].data', False), ('modified_time', False)):
            for x, y in (('HKEY_LOCAL_MACHINE\\\\Foo', 'hkey_local_machine\\\\foo'), ('Abc', 'abc'), ('abc', 'abd')): yield (path, ci, x, y)

    def check_reg(case):
        path, ci, x, y = case
        a, b = f"[windows-registry-key:{path} = '{x}']", f"[windows-registry-key:{path} = '{y}']"
        try: e = equivalent_patterns(a, b)
        except Exception as ex: return (f'total#never fails:{type(ex).__name__}', f'equivalent_patterns({a!r}, {b!r}) raised {ex!r}', {})
        same = x == y or (ci and x.lower() == y.lower())
        if e and not same: return ('sound#reported equivalent but semantics differ:registry value case', f'{a} ~ {b} reported equivalent', {'p': a, 'q': b})
        if not e and same: return ('laws#documented rewrite recognised:registry key names are case-insensitive', f'{a} and {b} are not reported equivalent', {'p': a, 'q': b})
    chk.bounded('registry-key constants: case-insensitive on key and value names only', list(reg_cases()), check_reg, classify=lambda c: c, bound='5 paths x 3 constant pairs')

    # ---- the generic sequence comparator against its specification (lexicographic three-way comparison), element values incl. falsy ones
    from stix2.equivalence.pattern.compare import iter_lex_cmp, generic_cmp
    def lex_cases():
        for alphabet in ((0, 1, 2), ('', 'a', 'b')):
            seqs_ = [tuple(c) for n in range(4) for c in itertools.product(alphabet, repeat=n)]
            for s1 in seqs_:
                for s2 in seqs_: yield (s1, s2)

    def check_lex(case):
        s1, s2 = case
        want = (s1 > s2) - (s1 < s2)
        for mk in (list, iter):
            try: got = iter_lex_cmp(mk(s1), mk(s2), generic_cmp)
            except Exception as ex: return ('comparator#iter_lex_cmp never fails', f'iter_lex_cmp({s1}, {s2}) raised {ex!r}', {})
            if (got > 0) - (got < 0) != want: return ('comparator#iter_lex_cmp is the lexicographic order', f'iter_lex_cmp({s1}, {s2}) = {got}, lexicographic comparison gives {want}', {'seq1': s1, 'seq2': s2})
    chk.bounded('iter_lex_cmp == lexicographic three-way comparison', list(lex_cases()), check_lex, classify=lambda c: (len(c[0]), len(c[1]), c[0][:1], c[1][:1]),
                bound='all pairs of sequences of length <= 3 over {0, 1, 2} and over {"", "a", "b"} (falsy elements included), lists and one-shot iterators')

    # the collection also holds every law / cascade / several-object-type pattern (equivalents whose sets of object types differ, OR chains of three comparisons over two types reordered)
    FIND_EXTRA = [x for pair in LAWS + CASCADES for x in pair[:2]] + MIXED + ["[a:b = 1] OR ([a:b = 1] AND [c:d = 2])", "[a:b = 1]", "([a:b = 1] OR ([a:b = 1] AND [c:d = 2])) WITHIN 5 SECONDS", "[a:b = 1] WITHIN 5 SECONDS",
                  "[a:x = 1 OR b:y = 2 OR c:z = 3]", "[c:z = 3 OR b:y = 2 OR a:x = 1]", "[b:y = 2 OR a:x = 1 OR c:z = 3]", "[a:x = 1 OR b:y = 2]", "[a:x = 1]"]
    FIND_EXTRA = list(dict.fromkeys(FIND_EXTRA))

    def find_cases():
        for q in sample[:25]: yield q
        for q in FIND_EXTRA: yield q

    def check_find(q):
        coll = sample[:60] + FIND_EXTRA
        got = list(find_equivalent_patterns(q, coll)); want = [p for p in coll if equivalent_patterns(q, p)]
        if got != want: return ('find#returns exactly the pairwise equivalent members', f'find_equivalent_patterns({q}) = {got[:3]}..., pairwise filter {want[:3]}...', {})
    chk.bounded('find_equivalent_patterns == filter(equivalent_patterns)', list(find_cases()), check_find, classify=lambda q: q, bound=f'{25 + len(FIND_EXTRA)} queries against a {60 + len(FIND_EXTRA)}-pattern collection (generated patterns, every law / cascade instance, patterns over several object types)')
