"""C09 -- pattern equivalence is a total, sound equivalence relation (proved leaf comparators + bounded soundness against an independent evaluator)."""
import itertools
import z3
from vf.pyvc.lib import REG
from spec.pattern_sem import show, read, matches, matches_typed, tok
from props import _patterns as PG
from contracts import patterns as K

LEVEL = 'exploration'
PA, PC = PG.PA, PG.PC


def universe(rng, tier):
    vals = [1, 2, 'x', 1.5, 9007199254740993, 9007199254740992]
    obs_universe = [{PA: v1, PC: v2} for v1 in vals for v2 in (1, 'x')] + [{PA: 1}, {PA: 2}, {PC: 1}, {}]
    seqs = []
    for n in (1, 2, 3):
        combos = list(itertools.product(range(len(obs_universe)), repeat=n))
        if n == 3: combos = [c for c in combos if rng.random() < (0.06 if tier == 'quick' else 0.3)]
        for combo in combos:
            for times in ((0, 1, 5)[:n], (0, 0, 10)[:n], (5, 1, 0)[:n]):
                seqs.append([(times[i], obs_universe[c]) for i, c in enumerate(combo)])
    return seqs


LAWS = [   # documented rewrites: each pair must be reported equivalent
    ("[a:b = 1 AND a:c = 2]", "[a:c = 2 AND a:b = 1]", 'commutativity of AND (comparison)'), ("[a:b = 1 OR a:c = 2]", "[a:c = 2 OR a:b = 1]", 'commutativity of OR (comparison)'),
    ("[a:b = 1] AND [a:c = 2]", "[a:c = 2] AND [a:b = 1]", 'commutativity of AND (observation)'), ("[a:b = 1] OR [a:c = 2]", "[a:c = 2] OR [a:b = 1]", 'commutativity of OR (observation)'),
    ("[(a:b = 1 AND a:c = 2) AND a:b = 2]", "[a:b = 1 AND (a:c = 2 AND a:b = 2)]", 'associativity of AND'), ("([a:b = 1] OR [a:c = 2]) OR [a:b = 2]", "[a:b = 1] OR ([a:c = 2] OR [a:b = 2])", 'associativity of OR'),
    ("[a:b = 1 OR a:b = 1]", "[a:b = 1]", 'idempotence of OR (comparison)'), ("[a:b = 1] OR [a:b = 1]", "[a:b = 1]", 'idempotence of OR (observation)'),
    ("[a:b = 1 OR (a:b = 1 AND a:c = 2)]", "[a:b = 1]", 'absorption (comparison)'), ("[a:b = 1] OR ([a:b = 1] AND [a:c = 2])", "[a:b = 1]", 'absorption (observation)'),
    ("[a:b = 1 AND (a:c = 2 OR a:c = 1)]", "[(a:b = 1 AND a:c = 2) OR (a:b = 1 AND a:c = 1)]", 'distribution of AND over OR (comparison)'),
    ("[a:b = 1] AND ([a:c = 2] OR [a:c = 1])", "([a:b = 1] AND [a:c = 2]) OR ([a:b = 1] AND [a:c = 1])", 'distribution of AND over OR (observation)'),
    ("[a:b = 1] FOLLOWEDBY ([a:c = 2] OR [a:c = 1])", "([a:b = 1] FOLLOWEDBY [a:c = 2]) OR ([a:b = 1] FOLLOWEDBY [a:c = 1])", 'distribution of FOLLOWEDBY over OR'),
    ("[a:b != 1 AND (a:c = 2 OR a:c = 1)]", "[(a:b != 1 AND a:c = 2) OR (a:b != 1 AND a:c = 1)]", 'distribution of AND over OR keeps negation'),
    ("[a:b NOT IN (1, 2) AND (a:c = 2 OR a:c = 1)]", "[(a:b NOT IN (1, 2) AND a:c = 2) OR (a:b NOT IN (1, 2) AND a:c = 1)]", 'distribution of AND over OR keeps NOT'),
    ("[a:b[0].c = 1 AND a:b[0].d = 2]", "[a:b[0].d = 2 AND a:b[0].c = 1]", 'commutativity with indexed paths'),
    ("[a:b IN (1, 2)]", "[a:b IN (2, 1)]", 'order-insensitive set literals'), ("[a:b = 1]", "[a:b = 1.0]", 'numerically equal constants'),
]


def run(chk):
    from stix2.equivalence.pattern import equivalent_patterns, find_equivalent_patterns
    chk.registry = REG
    chk.explanation = ('P (leaf comparators only): generic_cmp is the three-way comparison of its operands (ints and strings) and iter_in is membership up to the comparator '
                       '(loop invariant with break); from the contract the == 0 kernel is an equivalence and the sign is antisymmetric and transitive (z3 lemmas), which is what '
                       'sorting and the final comparison of normal forms rely on.  B (carries the property; recursive AST rewriting is outside PyVC): on the generated pattern '
                       'family the test never fails, is reflexive and symmetric, transitive on sampled triples, and SOUND: patterns reported equivalent match exactly the same '
                       'observation sequences under an independent evaluator of the patterning semantics (binding sets over sequences of <= 3 observations, 3 timestamp '
                       'layouts, values incl. integers beyond 2^53); every documented rewrite law instance is recognised; find_equivalent_patterns == filter(equivalent_patterns).')
    chk.trust('spec/pattern_sem.py as the STIX patterning semantics on the bounded universe (special-value canonicalisations -- CIDR, registry-key case -- are not exercised by the generated constants)')
    for c in (K.generic_cmp_contract('int'), K.generic_cmp_contract('str'), K.iter_in_contract()):
        chk.prove(c); chk.canary(c)
    for name, claim in K.cmp_lemmas(): chk.lemma(name, claim)

    pats = PG.patterns(chk.tier)
    texts = []
    for t in pats:
        x = show(t)
        if any(w in x for w in ('ISSUBSET', 'ISSUPERSET', "t'", "h'", "b'", 'LIKE', 'MATCHES', 'true', "'")) and 'IN (' not in x and "= 'x'" not in x: continue   # constants outside the evaluator's universe
        texts.append(x)
    texts = list(dict.fromkeys(texts))
    seqs = universe(chk.rng, chk.tier)
    sig = {}
    for x in texts:
        tr = read(x)
        sig[x] = tuple(matches(tr, s) for s in seqs)
    chk.extra['semantic_universe'] = {'patterns': len(texts), 'observation_sequences': len(seqs)}

    def total_cases():
        for x in [show(t) for t in pats]: yield x

    def check_total(x):
        try:
            if not equivalent_patterns(x, x): return ('relation#reflexive', f'{x} is not equivalent to itself', {'pattern': x})
        except Exception as ex:
            return (f'total#never fails:{type(ex).__name__}', f'equivalent_patterns({x!r}, itself) raised {type(ex).__name__}: {str(ex)[:100]}', {'pattern': x})
    chk.bounded('totality and reflexivity on every generated pattern', list(total_cases()), check_total, classify=lambda x: x, bound=f'{len(pats)} patterns (all operators, NOT, constant kinds, qualifiers)')

    sample = list(texts)
    if chk.tier == 'quick' and len(sample) > 150:
        must = [x for x in sample if '] ' in x or '9007' in x or '1.0' in x or 'NOT' in x[:14]]       # every observation-level compound, the big-integer and negated leaves
        rest = [x for x in sample if x not in must]; chk.rng.shuffle(rest)
        sample = must + rest[:max(0, 170 - len(must))]
    eq = {}

    def pair_cases():
        for a, b in itertools.combinations(sample, 2): yield (a, b)

    def check_pair(case):
        a, b = case
        try: e1 = equivalent_patterns(a, b); e2 = equivalent_patterns(b, a)
        except Exception as ex: return (f'total#never fails:{type(ex).__name__}', f'equivalent_patterns({a!r}, {b!r}) raised {type(ex).__name__}: {str(ex)[:100]}', {})
        eq[(a, b)] = e1
        if e1 != e2: return ('relation#symmetric', f'{a} ~ {b} is {e1} but the converse is {e2}', {})
        if e1 and sig[a] != sig[b]:
            i = next(i for i, (u, v) in enumerate(zip(sig[a], sig[b])) if u != v)
            kind = 'numeric constants' if any(ch.isdigit() for ch in a) and a.replace('9007199254740993', 'N') == b.replace('9007199254740992', 'N') else 'negation' if 'NOT' in a + b or '!=' in a + b else 'rewrite'
            return (f'sound#reported equivalent but semantics differ:{kind}', f'{a} ~ {b} reported equivalent, but only one of them matches the observation sequence {seqs[i]}', {'p': a, 'q': b})
    chk.bounded('symmetry and soundness on all pairs', list(pair_cases()), check_pair, classify=lambda c: c, bound=f'{len(sample)} patterns, all pairs; semantics over {len(seqs)} observation sequences')

    def triple_cases():
        cls = {}
        for (a, b), e in eq.items():
            if e: cls.setdefault(a, set()).add(b); cls.setdefault(b, set()).add(a)
        for a, bs in cls.items():
            for b in bs:
                for c in cls.get(b, ()):
                    if c != a: yield (a, b, c)

    def check_triple(case):
        a, b, c = case
        if not equivalent_patterns(a, c): return ('relation#transitive', f'{a} ~ {b} and {b} ~ {c} but not {a} ~ {c}', {})
    chk.bounded('transitivity on related triples', list(triple_cases())[:3000], check_triple, classify=lambda c: c, bound='every chain a ~ b ~ c found among the pairs above (first 3000)')

    def check_law(case):
        a, b, name = case
        try:
            if not equivalent_patterns(a, b): return (f'laws#documented rewrite recognised:{name}', f'{name}: {a} and {b} are not reported equivalent', {})
        except Exception as ex: return (f'total#never fails:{type(ex).__name__}', f'{name}: raised {ex!r}', {})
    chk.bounded('documented algebraic rewrites', LAWS, check_law, classify=lambda c: c[2], bound=f'{len(LAWS)} law instances')

    # ---- single-leaf substitutions in every rewrite context: two patterns that differ in one leaf and are reported equivalent must have the same meaning
    pool = PG.leaf_pool()
    def kin(l1, l2): return l1[1] == l2[1] or l1[2:] == l2[2:]            # same path, other test -- or same test, other path
    base_tests = set(PG.TESTS2[:8])
    def quick_pair(l1, l2):        # quick tier: path confusions on the 8 numeric tests over all 9 paths; constant-kind confusions on one path
        if l1[2:] in base_tests and l2[2:] in base_tests: return kin(l1, l2)
        return l1[1] == l2[1] == PG.PA
    leaf_pairs = [(l1, l2) for l1, l2 in itertools.combinations(pool, 2) if (chk.tier == 'thorough' and kin(l1, l2)) or quick_pair(l1, l2)]

    def local_sig(t1, t2):
        paths = sorted(PG.paths_of(t1) | PG.paths_of(t2))
        # value domain: absent, every constant of the two patterns (as typed tokens; timestamps by their instant), and one value none of them names
        def canon_tok(l): return ('ts', l[1].replace('.000Z', 'Z')) if l[0] == 'ts' else tok(l)
        vals_dom = [None] + sorted({canon_tok(c) for c in PG.constants_of(t1) | PG.constants_of(t2)}, key=repr) + [('num', 7.0)]
        if len(vals_dom) > 5: vals_dom = vals_dom[:4] + [vals_dom[-1]]
        obs = [dict((p, v) for p, v in zip(paths, vals) if v is not None) for vals in itertools.product(vals_dom, repeat=len(paths))]
        if len(obs) > 40: obs = obs[::len(obs) // 40 + 1] + [obs[-1]]
        seqs2 = [[(0, o)] for o in obs] + [[(t0, a), (t1_, b)] for a in obs for b in obs for t0, t1_ in ((0, 1), (5, 0))] + [[(0, a), (1, a), (2, b)] for a in obs[:9] for b in obs[:9]]
        def norm_ts(t):
            if not isinstance(t, tuple): return t
            if t and t[0] == 'ts': return ('ts', t[1].replace('.000Z', 'Z'))
            return tuple(norm_ts(x) if isinstance(x, tuple) else x for x in t)
        t1, t2 = norm_ts(t1), norm_ts(t2)
        for sq in seqs2:
            if matches_typed(t1, sq) != matches_typed(t2, sq): return sq
        return None

    def subst_cases():
        for name, ctx in PG.contexts():
            for l1, l2 in leaf_pairs: yield (name, l1, l2, ctx)

    def check_subst(case):
        name, l1, l2, ctx = case
        t1, t2 = ctx(l1), ctx(l2); a, b = show(t1), show(t2)
        try: e = equivalent_patterns(a, b)
        except Exception as ex: return (f'total#never fails:{type(ex).__name__}', f'equivalent_patterns({a!r}, {b!r}) raised {type(ex).__name__}: {str(ex)[:100]}', {})
        if e:
            w = local_sig(read(a), read(b))
            if w is not None:
                what = 'path' if l1[1] != l2[1] else 'negation' if l1[3] != l2[3] and l1[2] == l2[2] else 'test'
                return (f'sound#reported equivalent but semantics differ:{what} in {name}', f'{a} ~ {b} reported equivalent, but only one of them matches the observation sequence {w}', {'p': a, 'q': b})
    sc = list(subst_cases())
    chk.bounded('single-leaf substitutions in every rewrite context', sc, check_subst, classify=lambda c: (c[0], c[1][1] == c[2][1], c[1][2:], c[2][2:]),
                bound=f'{len(leaf_pairs)} leaf pairs (9 paths incl. index 0/1 steps and continuations x 19 tests over every constant kind; ' + ('same-path or same-test pairs' if chk.tier == 'thorough' else 'same-path or same-test pairs of the 8 numeric tests, all test pairs on one path') + f') x {len(PG.contexts())} contexts; meaning compared on all observation sequences of length <= 2 (and a length-3 subset) over the paths of the pair with values absent / each constant of the pair / another value (typed: a string never equals a hex or a number of the same text)')

    # ---- the generic sequence comparator against its specification (lexicographic three-way comparison), element values incl. falsy ones
    from stix2.equivalence.pattern.compare import iter_lex_cmp, generic_cmp
    def lex_cases():
        for alphabet in ((0, 1, 2), ('', 'a', 'b')):
            seqs_ = [tuple(c) for n in range(4) for c in itertools.product(alphabet, repeat=n)]
            for s1 in seqs_:
                for s2 in seqs_: yield (s1, s2)

    def check_lex(case):
        s1, s2 = case
        want = (s1 > s2) - (s1 < s2)
        for mk in (list, iter):
            try: got = iter_lex_cmp(mk(s1), mk(s2), generic_cmp)
            except Exception as ex: return ('comparator#iter_lex_cmp never fails', f'iter_lex_cmp({s1}, {s2}) raised {ex!r}', {})
            if (got > 0) - (got < 0) != want: return ('comparator#iter_lex_cmp is the lexicographic order', f'iter_lex_cmp({s1}, {s2}) = {got}, lexicographic comparison gives {want}', {'seq1': s1, 'seq2': s2})
    chk.bounded('iter_lex_cmp == lexicographic three-way comparison', list(lex_cases()), check_lex, classify=lambda c: (len(c[0]), len(c[1]), c[0][:1], c[1][:1]),
                bound='all pairs of sequences of length <= 3 over {0, 1, 2} and over {"", "a", "b"} (falsy elements included), lists and one-shot iterators')

    def find_cases():
        for q in sample[:25]: yield q

    def check_find(q):
        coll = sample[:60]
        got = list(find_equivalent_patterns(q, coll)); want = [p for p in coll if equivalent_patterns(q, p)]
        if got != want: return ('find#returns exactly the pairwise equivalent members', f'find_equivalent_patterns({q}) = {got[:3]}..., pairwise filter {want[:3]}...', {})
    chk.bounded('find_equivalent_patterns == filter(equivalent_patterns)', list(find_cases()), check_find, classify=lambda q: q, bound='25 queries against a 60-pattern collection')
