"""C13 -- library operations never modify their arguments or existing objects."""
import copy, itertools, json, os, shutil, tempfile
import z3
from vf.pyvc.lib import REG
from vf import objgen as G
from contracts import immutability as K, timefmt as KT

LEVEL = 'exploration'
TLP = 'marking-definition--613f2e26-407d-48c7-9eca-b8e91df99dc9'


def snapshot(v):
    """deep value snapshot: plain data by value, STIX objects by their serialization"""
    if hasattr(v, 'serialize') and hasattr(v, '_inner'): return ('obj', type(v).__name__, v.serialize(), snapshot(dict(v._inner)))
    if isinstance(v, dict): return ('dict', tuple((k, snapshot(x)) for k, x in v.items()))
    if isinstance(v, (list, tuple)): return (type(v).__name__, tuple(snapshot(x) for x in v))
    return ('val', repr(v))


def mutable_ids(v, acc=None):
    acc = acc if acc is not None else {}
    if hasattr(v, '_inner') and hasattr(v, 'serialize'):
        acc[id(v)] = v; mutable_ids(v._inner, acc)
    elif isinstance(v, dict):
        acc[id(v)] = v
        for x in v.values(): mutable_ids(x, acc)
    elif isinstance(v, list):
        acc[id(v)] = v
        for x in v: mutable_ids(x, acc)
    return acc


def inputs():
    """nested argument shapes: extensions, observed-data members, granular markings, embedded objects, objects shared between calls"""
    import stix2
    ext_file = {'type': 'file', 'spec_version': '2.1', 'id': 'file--' + G.UUID, 'name': 'f', 'hashes': {'MD5': 'a' * 32},
                'extensions': {'ntfs-ext': {'sid': 's', 'alternate_data_streams': [{'name': 'n', 'hashes': {'MD5': 'b' * 32}}]}}}
    od20 = {'type': 'observed-data', 'id': 'observed-data--' + G.UUID, 'created': G.T1, 'modified': G.T1, 'first_observed': G.T1, 'last_observed': G.T1, 'number_observed': 1,
            'objects': {'0': {'type': 'email-message', 'is_multipart': False, 'from_ref': '1', 'additional_header_fields': {'X-Header': ['a', 'b']}}, '1': {'type': 'email-addr', 'value': 'a@b.c'}}}
    mal = {'type': 'malware', 'spec_version': '2.1', 'id': 'malware--' + G.UUID, 'created': G.T1, 'modified': G.T1, 'is_family': False, 'name': 'm', 'labels': ['a', 'b'],
           'kill_chain_phases': [{'kill_chain_name': 'k', 'phase_name': 'p'}], 'external_references': [{'source_name': 's', 'hashes': {'MD5': 'c' * 32}, 'external_id': 'e'}],
           'object_marking_refs': [TLP], 'granular_markings': [{'marking_ref': TLP, 'selectors': ['name', 'labels.[0]']}], 'x_custom': {'deep': [1, {'k': [2]}]}}
    ident20 = {'type': 'identity', 'id': 'identity--' + G.UUID, 'created': G.T1, 'modified': G.T1, 'name': 'n', 'identity_class': 'individual', 'labels': ['l']}
    # hash dictionaries whose keys are not in the specification's spelling (the library renames them in ITS copy), at top level and in an embedded object
    file_hashes = {'type': 'file', 'spec_version': '2.1', 'id': 'file--' + G.UUID2, 'name': 'g', 'hashes': {'md5': 'a' * 32, 'Sha-1': 'b' * 40, 'sha256': 'c' * 64, 'SHA-512': 'd' * 128}}
    ident_hashes = {'type': 'identity', 'id': 'identity--' + G.UUID2, 'created': G.T1, 'modified': G.T1, 'name': 'n', 'identity_class': 'individual',
                    'external_references': [{'source_name': 's', 'url': 'http://x', 'hashes': {'sha256': 'c' * 64, 'md5': 'a' * 32}}]}
    # a custom type declared with extension_name: the library adds the extension-definition entry to the object, not to the caller's dictionary
    from stix2 import registry
    EXT = 'extension-definition--' + G.UUID2
    if 'x-vf-ext-sdo' not in registry.STIX2_OBJ_MAPS['2.1']['objects']:
        @stix2.v21.CustomObject('x-vf-ext-sdo', [('x_p', stix2.properties.StringProperty())], extension_name=EXT)
        class VFExtSdo(object): pass
    ext_sdo = {'type': 'x-vf-ext-sdo', 'spec_version': '2.1', 'id': 'x-vf-ext-sdo--' + G.UUID, 'created': G.T1, 'modified': G.T1, 'x_p': 'v', 'extensions': {'x-other-ext': {'a': [1]}}}
    ext_sdo2 = dict(ext_sdo, id='x-vf-ext-sdo--' + G.UUID2, extensions={EXT: {'extension_type': 'new-sdo'}})
    return {'file+extension (2.1)': ext_file, 'observed-data (2.0)': od20, 'malware+markings+custom (2.1)': mal, 'identity (2.0)': ident20,
            'file with differently spelled hash names (2.1)': file_hashes, 'embedded hashes with differently spelled names (2.0)': ident_hashes,
            'custom type with extension_name, own extensions given': ext_sdo, 'custom type with extension_name, definition entry given': ext_sdo2}


def run(chk):
    import stix2
    from stix2 import markings as MK, versioning as V
    chk.registry = REG
    chk.explanation = ('P (small core): _STIXBase.__setattr__ lets only underscore names through (ImmutableError for every public name); __deepcopy__ constructs the copy from '
                       'copy.deepcopy(self._inner) and writes only into that private copy (frame obligations on every store).  B (carries the property; true frame proofs would '
                       'need an ownership discipline Python does not have): deep snapshots of every argument and of obj.serialize() before and after each public operation '
                       '(parse, constructors from dictionaries and from objects, Bundle in every argument shape, parse_observable, new_version, revoke, all marking functions, '
                       'MemoryStore / FileSystemStore add, Environment) over nested shapes and sequences of <= 2 operations on the same inputs; assignment and deletion refused; '
                       'deepcopy(o) == o and shares no mutable object with o (id walk).')
    for c in (K.setattr_contract(), K.deepcopy_contract()):
        chk.prove(c); chk.canary(c)
    from contracts import stores as KS
    c = KS.filesystem_query_contract(); chk.prove(c); chk.canary(c)
    c = KS.memory_query_contract(); chk.prove(c); chk.canary(c)          # frame: the FilterSet / list a caller hands to MemorySource.query is never written to (in-place add on the argument = failed obligation)
    for k in ('datetime', 'stixdatetime'): chk.prove(KT.parse_contract(k))        # frame: a timestamp handed in (possibly a property value of another object) is never written to
    ins = inputs()
    tmp = tempfile.mkdtemp(prefix='vf-c13-')
    try:
        def operations():
            ops = {
                'parse(dict)': lambda d, o: stix2.parse(d, allow_custom=True),
                'parse(dict) strict refusal': lambda d, o: _try(lambda: stix2.parse(d, allow_custom=False)),
                'constructor(**dict)': lambda d, o: type(o)(allow_custom=True, **{k: v for k, v in d.items()}),
                'deepcopy(object)': lambda d, o: copy.deepcopy(o),
                'new_version(object)': lambda d, o: _try(lambda: o.new_version(labels=['z'])),
                'new_version(dict)': lambda d, o: _try(lambda: V.new_version(d, labels=['z'])),
                'revoke(dict)': lambda d, o: _try(lambda: V.revoke(d)),
                'add_markings(object, granular)': lambda d, o: _try(lambda: MK.add_markings(o, TLP, ['name'])),
                'add_markings(dict, granular)': lambda d, o: _try(lambda: MK.add_markings(d, TLP, ['name'])),
                'add_markings(object, object-level)': lambda d, o: _try(lambda: MK.add_markings(o, 'marking-definition--34098fce-860f-48ae-8e50-ebd3cc5e41da', None)),
                'add_markings(dict, object-level)': lambda d, o: _try(lambda: MK.add_markings(d, 'marking-definition--34098fce-860f-48ae-8e50-ebd3cc5e41da', None)),
                'remove_markings(object)': lambda d, o: _try(lambda: MK.remove_markings(o, TLP, ['name'])),
                'clear_markings(dict)': lambda d, o: _try(lambda: MK.clear_markings(d, ['name'])),
                'set_markings(object)': lambda d, o: _try(lambda: MK.set_markings(o, TLP, ['name'])),
                'get_markings(object)': lambda d, o: _try(lambda: MK.get_markings(o, ['name'], inherited=True, descendants=True)),
                'Bundle([dict])': lambda d, o: _bundle(d, o, 'list'), 'Bundle([object], object)': lambda d, o: _bundle(d, o, 'list+single'),
                'Bundle(objects=[object])': lambda d, o: _bundle(d, o, 'kw'), 'Bundle(object, objects=[dict])': lambda d, o: _bundle(d, o, 'mixed'),
                'MemoryStore.add(dict)': lambda d, o: stix2.MemoryStore(allow_custom=True).add(d), 'MemoryStore.add([object])': lambda d, o: stix2.MemoryStore(allow_custom=True).add([o]),
                'MemoryStore(stix_data=[dict]).get': lambda d, o: stix2.MemoryStore(stix_data=[d], allow_custom=True).get(d['id']),
                'FileSystemStore.add(object)': lambda d, o: stix2.FileSystemStore(tempfile.mkdtemp(dir=tmp), allow_custom=True).add(o),
                'FileSystemStore.add(dict)': lambda d, o: stix2.FileSystemStore(tempfile.mkdtemp(dir=tmp), allow_custom=True).add(d),
                'serialize(pretty)': lambda d, o: o.serialize(pretty=True, include_optional_defaults=True),
                'other objects built from this object\'s property values': lambda d, o: _reuse(o),
                'Environment.add + query': lambda d, o: _env(d, o),
            }
            return ops

        def _try(fn):
            try: return fn()
            except (stix2.exceptions.STIXError, ValueError, TypeError): return None

        def _bundle(d, o, how):
            B = stix2.v21.Bundle if d.get('spec_version') == '2.1' else stix2.v20.Bundle
            other = stix2.v21.Identity(name='x') if d.get('spec_version') == '2.1' else stix2.v20.Identity(name='x', identity_class='individual')
            keep = [o]; keepd = [d]
            if how == 'list': r = B(keepd, allow_custom=True); return r, keepd
            if how == 'list+single':
                r = B(keep, other, allow_custom=True); r2 = B(keep, allow_custom=True)
                if len(r2.objects) != 1: raise AssertionError('FRAME: Bundle(list, object) changed the caller\'s list')
                return r, keep
            if how == 'kw': r = B(objects=keep, allow_custom=True); return r, keep
            r = B(other, objects=keepd, allow_custom=True); return r, keepd

        def _reuse(o):
            import stix2.patterns as SP2, stix2.utils as SU
            out = []
            for k in ('created', 'modified', 'first_observed'):
                if k in o:
                    out.append(_try(lambda: stix2.v21.Indicator(pattern="[file:name = 'a']", pattern_type='stix', valid_from=o[k])))
                    out.append(_try(lambda: stix2.v20.Indicator(pattern="[file:name = 'a']", labels=['l'], valid_from=o[k], created=o[k], modified=o[k])))
                    out.append(_try(lambda: stix2.v21.Sighting(sighting_of_ref='indicator--' + G.UUID, first_seen=o[k], last_seen=o[k])))
                    out.append(_try(lambda: SP2.TimestampConstant(o[k])))
                    for pr, pc in (('any', 'exact'), ('second', 'exact'), ('millisecond', 'min'), ('second', 'min')):
                        out.append(_try(lambda: SU.parse_into_datetime(o[k], pr, pc))); out.append(_try(lambda: SU.STIXdatetime(o[k], precision=pr, precision_constraint=pc)))
            for k in ('labels', 'external_references', 'kill_chain_phases', 'object_marking_refs', 'granular_markings', 'extensions', 'hashes'):
                if k in o: out.append(_try(lambda: type(o)(**{**{p: v for p, v in o.items() if p != 'id'}, k: o[k]})))
            return out

        def _env(d, o):
            env = stix2.Environment(store=stix2.MemoryStore(allow_custom=True)); env.add(o); return env.query([stix2.Filter('id', '=', d['id'])])
        ops = operations()

        def cases():
            names = list(ops)
            for iname in ins:
                for a in names: yield (iname, (a,))
                pairs = list(itertools.product(names, repeat=2))
                for pr in pairs[chk.seed % 5::(5 if chk.tier == 'quick' else 1)]: yield (iname, pr)

        def check(case):
            iname, seq = case
            d = copy.deepcopy(ins[iname])
            o = stix2.parse(copy.deepcopy(d), allow_custom=True)
            d0, o0 = snapshot(d), snapshot(o)
            for a in seq:
                try: r = ops[a](d, o)
                except AssertionError as ex: return (f'frame#{a}', f'{iname}: {ex}', {})
                except (stix2.exceptions.STIXError, ValueError, TypeError): r = None
                except stix2.datastore.DataSourceError: r = None
                if snapshot(d) != d0: return (f'frame#{a}:dictionary argument', f'{iname}: {a} modified the caller\'s dictionary (sequence {seq})', {})
                if snapshot(o) != o0: return (f'frame#{a}:existing object', f'{iname}: {a} modified a previously created object (sequence {seq})', {})
            return None
        chk.bounded('frame: arguments and existing objects unchanged after every operation', list(cases()), check, classify=lambda c: c,
                    bound=f'{len(ins)} nested input shapes x {len(ops)} operations singly and in sequences of 2 (' + ('every 5th pair' if chk.tier == 'quick' else 'all pairs') + ')')

        # ---- every argument counts, not only the object: selector and marking lists handed to the marking functions, dictionaries and reference scopes handed to parse_observable
        M2x = 'marking-definition--34098fce-860f-48ae-8e50-ebd3cc5e41da'
        def arg_cases():
            for iname in ('malware+markings+custom (2.1)', 'identity (2.0)'):
                for fname in ('add_markings', 'set_markings', 'remove_markings', 'clear_markings', 'get_markings', 'is_marked'):
                    for form in ('function(object)', 'function(dict)', 'method'):
                        for sels in (['name', 'labels', 'created'], ['name', 'created', 'name'], ('name', 'created'), ['name']):
                            for layout in ('grouped', 'one entry per pair'): yield ('markings', iname, fname, form, sels, layout)
            for dname, d in (('registered observable (2.0 form)', {'type': 'file', 'name': 'f', 'hashes': {'md5': 'a' * 32}, 'parent_directory_ref': '1', 'extensions': {'ntfs-ext': {'sid': 's'}}}),
                             ('unregistered observable', {'type': 'x-vf-unreg-obs', 'foo': [1, {'a': [2]}], 'bar_ref': '1'}),
                             ('registered observable (2.1 form)', {'type': 'file', 'spec_version': '2.1', 'id': 'file--' + G.UUID, 'name': 'f', 'hashes': {'sha256': 'c' * 64}})):
                for ac in (True, False):
                    for ver in ('2.0', '2.1'):
                        for refs in ({'1': 'directory'}, ['1'], None): yield ('parse_observable', dname, d, ac, ver, refs)

        def arg_check(case):
            if case[0] == 'markings':
                _, iname, fname, form, sels, layout = case
                d = copy.deepcopy(ins[iname]); o = stix2.parse(copy.deepcopy(d), allow_custom=True)
                if fname in ('remove_markings', 'clear_markings', 'set_markings', 'get_markings', 'is_marked') or layout != 'grouped':
                    # the object already carries the markings: grouped per marking, or spelled out as one entry per (marking, selector) pair -- both valid
                    if layout == 'grouped': gm = [{'marking_ref': TLP, 'selectors': sorted(set(sels))}, {'marking_ref': M2x, 'selectors': sorted(set(sels))}]
                    else: gm = [{'marking_ref': m, 'selectors': [x]} for m in (TLP, M2x) for x in sorted(set(sels))]
                    if 'spec_version' in d: gm = gm + [{'lang': 'en', 'selectors': [sorted(set(sels))[0]]}]
                    d['granular_markings'] = gm; o = stix2.parse(copy.deepcopy(d), allow_custom=True)
                sel_arg = copy.deepcopy(sels); marks = [M2x, TLP]; target = o if form != 'function(dict)' else d
                s0, m0, t0 = snapshot(sel_arg), snapshot(marks), snapshot(target)
                try:
                    if form == 'method':
                        if not hasattr(o, fname): return None
                        getattr(o, fname)(*([sel_arg] if fname in ('clear_markings', 'get_markings') else [marks, sel_arg]))
                    else: getattr(MK, fname)(target, *([sel_arg] if fname in ('clear_markings', 'get_markings') else [marks, sel_arg]))
                except (stix2.exceptions.STIXError, ValueError, TypeError): pass
                if snapshot(sel_arg) != s0: return (f'frame#{fname}:selector list argument', f'{iname}: {fname} ({form}) changed the caller\'s selector list {sels!r} into {sel_arg!r}', {})
                if snapshot(marks) != m0: return (f'frame#{fname}:marking list argument', f'{iname}: {fname} ({form}) changed the caller\'s marking list into {marks!r}', {})
                if snapshot(target) != t0: return (f'frame#{fname}:object argument', f'{iname}: {fname} ({form}) changed its object argument', {})
                return None
            _, dname, d, ac, ver, refs = case
            d1 = copy.deepcopy(d); r1 = copy.deepcopy(refs); d0, r0 = snapshot(d1), snapshot(r1)
            for data in (d1,):
                try: stix2.parse_observable(data, _valid_refs=r1, allow_custom=ac, version=ver)
                except (stix2.exceptions.STIXError, ValueError, TypeError): pass
                if snapshot(d1) != d0: return ('frame#parse_observable:dictionary argument', f'{dname}: parse_observable(allow_custom={ac}, version={ver}, _valid_refs={refs!r}) changed the caller\'s dictionary into {d1!r:.200}', {})
                if snapshot(r1) != r0: return ('frame#parse_observable:reference scope argument', f'{dname}: parse_observable changed the caller\'s _valid_refs into {r1!r}', {})
        chk.bounded('frame: every argument of the marking functions and of parse_observable', list(arg_cases()), arg_check, classify=lambda c: tuple(repr(x)[:40] for x in c),
                    bound='6 marking functions x 3 call forms x 4 selector lists (unsorted, repeated, tuple, single) x 2 layouts of the markings already carried (grouped / one entry per pair, plus a language marking) x 2 objects; parse_observable on 3 dictionaries x custom modes x versions x 3 reference scopes')

        # ---- object factories: the defaults handed to a factory stay the caller's, and what one create() call adds does not show up in the next
        def factory_cases():
            for how in ('constructor', 'setters', 'Environment'):
                for single in (True, False):
                    for append in (True, False): yield (how, single, append)

        def factory_check(case):
            how, single, append = case
            refs = [{'source_name': 's', 'url': 'http://x'}]; marks = [TLP]
            if how == 'constructor': f = stix2.ObjectFactory(external_references=refs, object_marking_refs=marks, list_append=append)
            else:
                f = stix2.ObjectFactory(list_append=append); f.set_default_external_refs(refs); f.set_default_object_marking_refs(marks)
            maker = stix2.Environment(factory=f, store=stix2.MemoryStore()) if how == 'Environment' else f
            r0, m0 = snapshot(refs), snapshot(marks)
            extra = {'source_name': 'only-for-the-first', 'url': 'http://y'}; extra_m = 'marking-definition--34098fce-860f-48ae-8e50-ebd3cc5e41da'
            try: o1 = maker.create(stix2.v21.Identity, name='a', external_references=extra if single else [extra], object_marking_refs=extra_m if single else [extra_m])
            except (stix2.exceptions.STIXError, ValueError, TypeError): o1 = None          # (a single dictionary without list_append is not a legal list value: refused, fine)
            o2 = maker.create(stix2.v21.Identity, name='b')
            if snapshot(refs) != r0 or snapshot(marks) != m0:
                return ('frame#ObjectFactory.create:default list argument', f'{how}, list_append={append}: create() with a {"single value" if single else "list"} changed the list the caller had given as default: {refs!r:.160} / {marks}', {})
            if [e['source_name'] for e in o2.external_references] != ['s'] or list(o2.object_marking_refs) != [TLP]:
                return ('frame#ObjectFactory.create:later objects', f'{how}, list_append={append}: an object created later carries what was given to an earlier create() only: {[e["source_name"] for e in o2.external_references]}, {list(o2.object_marking_refs)}', {})
        chk.bounded('frame: object factory defaults', list(factory_cases()), factory_check, classify=lambda c: c, bound='3 ways of giving list defaults x single value / list override x list_append on / off')

        # ---- dictionaries handed over as the VALUE of an option keyword (custom_properties=...), next to other keywords of the same call
        def optdict_cases():
            for ver, V_, extra in (('2.1', stix2.v21, {}), ('2.0', stix2.v20, {'identity_class': 'individual'})):
                for cp in ({'x_a': 1}, {'x_b': [1, {'c': 2}], 'x_a': 'v'}, {}):
                    for others in ({}, {'x_other': 1}, {'x_other': {'n': [1]}, 'x_more': 2}):
                        for route in ('constructor', 'new_version(object)', 'new_version(dict)', 'parse(dict with a custom_properties member)'): yield (ver, V_, extra, cp, others, route)

        def optdict_check(case):
            ver, V_, extra, cp, others, route = case
            mine = copy.deepcopy(cp); before = snapshot(mine)
            try:
                if route == 'constructor': V_.Identity(name='n', custom_properties=mine, allow_custom=True, **dict(extra, **copy.deepcopy(others)))
                elif route == 'new_version(object)': V.new_version(V_.Identity(name='n', allow_custom=True, **dict(extra, **copy.deepcopy(others))), custom_properties=mine, allow_custom=True)
                elif route == 'new_version(dict)': V.new_version(json.loads(V_.Identity(name='n', allow_custom=True, **dict(extra, **copy.deepcopy(others))).serialize()), custom_properties=mine, allow_custom=True)
                else:
                    whole = dict(json.loads(V_.Identity(name='n', **extra).serialize()), custom_properties=mine, **copy.deepcopy(others)); w0 = snapshot(whole)
                    stix2.parse(whole, allow_custom=True)
                    if snapshot(whole) != w0: return ('frame#option dictionary:parse', f'{ver}: parse(dict with custom_properties={cp!r} and {others!r}) changed its argument into {whole!r:.200}', {})
            except (stix2.exceptions.STIXError, ValueError, TypeError): pass
            if snapshot(mine) != before:
                return (f'frame#option dictionary:{route}', f'{ver} {route}: the dictionary given as custom_properties={cp!r} next to {others!r} is {mine!r} afterwards', {})
        chk.bounded('frame: dictionaries given as option keyword values', list(optdict_cases()), optdict_check, classify=lambda c: (c[0], repr(c[3]), repr(c[4]), c[5]),
                    bound='custom_properties dictionaries of 3 shapes x 3 sets of other custom keywords x 4 routes x both versions')

        def imm_cases():
            for iname in ins:
                o = stix2.parse(copy.deepcopy(ins[iname]), allow_custom=True)
                for k in list(o)[:6] + ['new_public_name']: yield (iname, o, k, False)
                # the same after the object has been read in every way (attribute and item access, iteration, serialization, str/repr, copy, hash of the id):
                # what is refused on a fresh object is refused on a used one
                o2 = stix2.parse(copy.deepcopy(ins[iname]), allow_custom=True)
                for k in list(o2)[:6] + ['new_public_name']: yield (iname + ' (after reads)', o2, k, True)

        def imm_check(case):
            iname, o, k, used = case
            if used:
                for n in list(o):
                    getattr(o, n, None); o.get(n); o[n]
                o.serialize(); str(o); repr(o); copy.copy(o); dict(o); len(o); getattr(o, 'no_such_property', None)
            for what, fn, ok_exc in (('assignment', lambda: setattr(o, k, 'changed'), (stix2.exceptions.ImmutableError,)), ('attribute deletion', lambda: delattr(o, k), (AttributeError, stix2.exceptions.ImmutableError)),
                                     ('item assignment', lambda: o.__setitem__(k, 1), (TypeError, AttributeError)), ('item deletion', lambda: o.__delitem__(k), (TypeError, AttributeError))):
                before = o.serialize()
                try:
                    fn(); return (f'immutable#{what} refused', f'{iname}: {what} of {k!r} was accepted', {})
                except ok_exc: pass
                except Exception as ex:
                    if o.serialize() != before: return (f'immutable#{what} refused', f'{iname}: {what} of {k!r} raised {type(ex).__name__} but changed the object', {})
                if o.serialize() != before: return (f'immutable#{what} refused', f'{iname}: {what} of {k!r} changed the object', {})
        chk.bounded('assignment and deletion refused', list(imm_cases()), imm_check, classify=lambda c: (c[0], c[2]), bound='4 objects x 7 names x {setattr, delattr, item assignment, item deletion}, on a fresh object and on one that has been read in every way')

        def dc_cases():
            for iname in ins: yield (iname, stix2.parse(copy.deepcopy(ins[iname]), allow_custom=True))
            # objects whose timestamp precision was decided from the value they were given
            for txt in ('2020-01-01T00:00:00.000Z', '2020-01-01T00:00:00Z', '2020-01-01T00:00:00.120Z', '2020-01-01T00:00:00.000001Z'):
                yield (f'2.0 statement marking created {txt}', stix2.v20.MarkingDefinition(definition_type='statement', definition=stix2.v20.StatementMarking('s'), created=txt))
                yield (f'2.1 statement marking created {txt}', stix2.v21.MarkingDefinition(definition_type='statement', definition=stix2.v21.StatementMarking('s'), created=txt))
                yield (f'2.1 indicator valid_from {txt}', stix2.v21.Indicator(pattern="[file:name = 'a']", pattern_type='stix', valid_from=txt))
            yield ('2.0 TLP marking', stix2.v20.TLP_GREEN); yield ('2.1 TLP marking', stix2.v21.TLP_GREEN)
            for ver in ('2.0', '2.1'):
                for label, cat, cls, kw in G.variants(ver, alts=(0,), with_all=True):
                    if label.endswith(':all-optional') and cat in ('objects', 'observables'):
                        try: yield (label, G.build(label, cat, cls, kw, ver))
                        except Exception: pass

        def dc_check(case):
            name, o = case
            c = copy.deepcopy(o)
            if c != o or type(c) is not type(o) or c.serialize() != o.serialize(): return ('deepcopy#equal to the original', f'{name}: deepcopy differs from its original: {c.serialize()[:200]} vs {o.serialize()[:200]}', {})
            import pickle
            try: pk = pickle.loads(pickle.dumps(o))
            except Exception: pk = None           # (not every object pickles; copying by pickle is not promised)
            if pk is not None and (pk != o or pk.serialize() != o.serialize()): return ('deepcopy#pickle round trip equal to the original', f'{name}: the unpickled copy is written {pk.serialize()[:200]}, the original {o.serialize()[:200]}', {})
            shared = [v for i, v in mutable_ids(c).items() if i in mutable_ids(o)]
            if shared: return ('deepcopy#shares no mutable state', f'{name}: deepcopy shares {len(shared)} mutable object(s) with the original, e.g. {type(shared[0]).__name__} {str(shared[0])[:80]}', {})
        chk.bounded('deepcopy equal and disjoint', list(dc_cases()), dc_check, classify=lambda c: c[0], bound='the 4 nested shapes and the all-optional form of every type of both versions; id() walk over dictionaries, lists and embedded objects')
        # ---- query arguments: the filters a caller hands to a source or store (a FilterSet, a list, a single Filter) are the caller's objects and are re-used across
        # sources; sources with filters of their own, composites with filters, both back ends, every reading call that takes filters
        from stix2.datastore.filters import Filter, FilterSet
        from stix2.datastore import CompositeDataSource
        from stix2 import MemoryStore, MemorySource, FileSystemStore, FileSystemSource, Environment, v21
        qdir = os.path.join(tmp, 'q'); os.makedirs(qdir, exist_ok=True)
        pop = [v21.Identity(name='a', identity_class='individual'), v21.Identity(name='b', identity_class='individual'), v21.Malware(name='m', is_family=False),
               v21.Relationship('identity--311b2d2d-f010-4473-83ec-1edf84858f4c', 'related-to', 'identity--c78cb6e5-0c4b-4611-8297-d1b8b55e40b5')]
        fss = FileSystemStore(qdir); fss.add(pop)

        def sources():
            own = [Filter('type', '!=', 'tool')]
            ms = MemoryStore(list(pop)); yield 'memory store', ms
            m2 = MemorySource(list(pop)); m2.filters.add(own); yield 'memory source with filters of its own', m2
            f2 = FileSystemSource(qdir); f2.filters.add(own); yield 'filesystem source with filters of its own', f2
            yield 'filesystem store', fss
            c = CompositeDataSource(); c.add_data_sources([m2, FileSystemSource(qdir)]); c.filters.add(Filter('name', '!=', 'zz')); yield 'composite with filters over two members', c
            yield 'environment', Environment(store=MemoryStore(list(pop)))

        def q_cases():
            f1, f2_ = Filter('type', '=', 'identity'), Filter('name', '=', 'a')
            for sname, src in sources():
                for qname, mk in (('FilterSet', lambda: FilterSet([f1])), ('FilterSet of two', lambda: FilterSet([f1, f2_])), ('list', lambda: [f1, f2_]), ('single Filter', lambda: f1), ('empty FilterSet', lambda: FilterSet())):
                    for call in ('query', 'query twice', 'related_to', 'relationships'):
                        yield (sname, src, qname, mk, call)

        def q_check(case):
            sname, src, qname, mk, call = case
            q = mk(); before = snapshot(list(q) if not isinstance(q, Filter) else [q]); own_before = snapshot(list(getattr(src, 'filters', None) or []))
            try:
                if call == 'query': src.query(q)
                elif call == 'query twice': src.query(q); src.query(q)
                elif call == 'related_to': src.related_to(pop[0], filters=q)
                else: src.relationships(pop[0].id)
            except (AttributeError, TypeError):
                return None            # not every front end has every navigation call
            after = snapshot(list(q) if not isinstance(q, Filter) else [q])
            if after != before: return ('frame#the caller\'s filters are unchanged after a reading call', f'{sname}.{call}({qname}) changed the caller\'s filters: {after} (were {before})', {})
            if snapshot(list(getattr(src, 'filters', None) or [])) != own_before: return ('frame#the source\'s own filters are unchanged after a reading call', f'{sname}.{call}({qname}) changed the filters attached to the source', {})
        chk.bounded('frame: filters handed to sources, stores, composites and environments', list(q_cases()), q_check, classify=lambda c: (c[0], c[2], c[4]),
                    bound='6 front ends (memory / filesystem, with and without filters of their own, composite with filters, environment) x 5 shapes of the filter argument x 4 reading calls')

        # ---- the pattern object model: building an expression from existing expressions leaves the operands what they were (text and the object types they range over)
        import stix2.patterns as P

        def comp(t, prop='name', v='x'): return P.EqualityComparisonExpression(P.ObjectPath(t, [prop]), P.StringConstant(v))

        def psnap(e): return (str(e), type(e).__name__, tuple(sorted(getattr(e, 'root_types', ()) or ())), tuple(psnap(o) for o in getattr(e, 'operands', ()) or ()))

        def p_cases():
            builders = {
                'OR of two object types': lambda a, b, c: P.OrBooleanExpression([a, b]),
                'OR of three': lambda a, b, c: P.OrBooleanExpression([a, b, c]),
                'AND of the same type': lambda a, b, c: P.AndBooleanExpression([a, c]),
                'OR nested in AND': lambda a, b, c: P.AndBooleanExpression([P.OrBooleanExpression([a, b]), c]),
                'AND of different types (refused)': lambda a, b, c: _try(lambda: P.AndBooleanExpression([a, b])),
                'observation': lambda a, b, c: P.ObservationExpression(a),
                'parenthetical': lambda a, b, c: P.ParentheticalExpression(P.OrBooleanExpression([a, b])),
                'observation AND': lambda a, b, c: P.AndObservationExpression([P.ObservationExpression(a), P.ObservationExpression(b)]),
                'qualified': lambda a, b, c: P.QualifiedObservationExpression(P.ObservationExpression(P.OrBooleanExpression([a, b])), P.RepeatQualifier(2)),
            }
            for n1, b1 in builders.items():
                for n2, b2 in builders.items(): yield (n1, b1, n2, b2)

        def p_check(case):
            n1, b1, n2, b2 = case
            a, b, c = comp('file'), comp('domain-name', 'value'), comp('file', 'size', 'y')
            lst = [a, b]
            before = [psnap(e) for e in (a, b, c)]
            r1 = b1(a, b, c); mid = [psnap(e) for e in (a, b, c)]
            if mid != before: return ('frame#pattern operands unchanged', f'building "{n1}" changed an operand: {mid} (was {before})', {})
            s1 = psnap(r1) if r1 is not None and not isinstance(r1, Exception) else None
            b2(a, b, c)
            if [psnap(e) for e in (a, b, c)] != before: return ('frame#pattern operands unchanged', f'building "{n2}" after "{n1}" changed an operand: {[psnap(e) for e in (a, b, c)]} (was {before})', {})
            if s1 is not None and psnap(r1) != s1: return ('frame#existing pattern expressions unchanged', f'building "{n2}" changed the expression built before ("{n1}"): {psnap(r1)} (was {s1})', {})
            P.OrBooleanExpression(lst)
            if lst != [a, b]: return ('frame#operand list unchanged', 'the list of operands handed to OrBooleanExpression was modified', {})
        chk.bounded('frame: operands of pattern expressions', list(p_cases()), p_check, classify=lambda c: (c[0], c[2]), bound='9 ways of building an expression from three comparison expressions, all ordered pairs of them')
    finally:
        shutil.rmtree(tmp, ignore_errors=True)
