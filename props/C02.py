"""C02 -- whatever the library emits in strict mode is valid STIX (proved cleaners/lexical rules/co-constraints + table invariant + fault enumeration)."""
import json
import z3
from vf.pyvc.lib import REG
from vf.pyvc import timelib  # noqa
from vf import tables as T
from contracts import cleaners as K, lexical as KL, coconstraints as KC, parsing as KPI, timefmt as KT
from props import _objects as O

LEVEL = 'other'


def lexical_part(chk, prop):
    obs, notes = KL.language_obligations()
    n = 0
    for ob, props, pat, flags, mode in obs:
        if prop not in props: continue
        n += 1
        chk.lemmas.append(ob)
        if ob.result == 'discharged': continue
        if ob.result == 'undecided':
            chk.undecided_notes.append(f'{ob.clause}: {ob.detail}'); continue
        s = (ob.model or {}).get('s')
        rec = {'obligation': ob.clause, 'verifier_output': ob.record()}
        if isinstance(s, str):
            s2 = s.encode().decode('unicode_escape') if '\\u{' not in s else s
            rec['input'] = s; rec['code_accepts'] = KL.native_witness(pat, flags, mode, s2 if isinstance(s2, str) else s)
        chk.violation('lexical#' + ob.clause.split(':')[0] + (':accepts-invalid' if 'accepts is' in ob.clause else ':rejects-valid'),
                      f'language obligation fails: {ob.clause}; witness string {s!r}', rec, no_input=not isinstance(s, str))
    for nt in notes: chk.undecided_notes.append(nt)
    chk.say(f'  [P] lexical rules: {n} language obligations for {prop}, {sum(1 for o, p, *_ in obs if prop in p and o.result == "discharged")} discharged')
    return n


def table_invariant(chk):
    n = 0
    for ver in ('2.0', '2.1'):
        cur = T.dump(ver)
        n += sum(len(c['properties']) for c in cur.values())
        for cname, pn, what in T.diff_tables(ver):
            chk.violation(f'table#{ver}:{cname}:{pn}', f'property table differs from the frozen specification model: {ver} {cname}.{pn}: {what}', {'version': ver, 'class': cname, 'property': pn, 'what': what})
    chk.bounded_runs.append({'name': 'table invariant: abstract view of every _properties entry == frozen model', 'bound': 'exhaustive over all classes of both versions', 'evaluations': n,
                             'distinct_classes': n, 'witnesses': 0, 'wall_s': 0, 'samples': ['2.1 objects:indicator.valid_until -> {kind: TimestampProperty, required: false, precision: millisecond, constraint: min}']})
    chk.say(f'  [B] table invariant: {n} property slots compared with spec/tables_*.json')


def run(chk):
    chk.registry = REG
    chk.explanation = ('P: EnumProperty / HexProperty / FloatProperty.clean accept exactly the specification-valid values (iff), DictionaryProperty.clean key rules per spec version, '
                       'ExtensionsProperty.clean (strict refusal and custom flag over all entries); language of every lexical regex == specification grammar (type names, dictionary keys, hex, selectors, 15 hash value rules; two inclusion '
                       'queries each, witnesses are concrete strings); _validate_type and IntegerProperty.clean accept exactly the specification-valid values; ten '
                       'timestamp-order co-constraint overrides (normal return => constraint; ValueError only when violated); the three inter-property helpers every per-type '
                       'constraint is built from (_check_mutually_exclusive_properties, _check_at_least_one_property, _check_properties_dependency: error iff the stated '
                       'condition on the populated properties, nested loop invariants); ListProperty / HashesProperty / '
                       'ReferenceProperty.clean never return custom content in strict mode.  Table invariant (exhaustive): abstract view of all 1382 property '
                       'slots == frozen model.  B (fault enumeration): every parseable type x every slot x corruption kind (removed, wrong JSON kind, out of range / '
                       'vocabulary, disallowed or malformed reference, malformed identifier / timestamp / key / hash / hex, unknown property, violated co-constraint): '
                       'a strict parse must fail with a library error or emit JSON the independent validator (frozen model) accepts.  The composition through '
                       '_STIXBase.__init__ is bounded only.')
    chk.trust('spec/tables_v20.json, spec/tables_v21.json, spec/lexical.py and vf/tables.py COCONSTRAINTS as the specification model (bootstrapped from the tree after the fix commits, deviations known at build time kept as findings)')
    chk.assume('pattern validity is delegated to stix2patterns (assumed)', 'custom property names are checked for their first character only: known finding (reachable only with customisation allowed)')
    lexical_part(chk, 'C02')
    cs = [K.validate_type_contract(), K.integer_clean_contract(), K.integer_clean_contract('bool'), K.hashes_clean_contract(), K.list_clean_contract(), K.reference_clean_contract()] + [K.order_contract(*row) for row in K.ORDER_TABLE] + KC.all_contracts() + \
         [K.enum_clean_contract(), K.hex_clean_contract(), K.dictionary_clean_contract(), K.float_clean_contract(), K.observable_clean_contract(), K.extensions_clean_contract(), KPI.init_prefix_contract()] + \
         [KT.parse_contract(k) for k in ('str', 'datetime', 'stixdatetime')] + [KT.format_datetime_contract(True)]        # every timestamp emitted goes through these two
    for c in cs:
        chk.prove(c); chk.canary(c)
    from vf.callsites import purity_obligations
    from vf.check import SRC_ROOT
    for ob in purity_obligations(SRC_ROOT, ['stix2/properties.py::_check_uuid', 'stix2/properties.py::_validate_id', 'stix2/properties.py::_validate_type',
                                            'stix2/hashes.py::check_hash', 'stix2/hashes.py::infer_hash_algorithm', 'stix2/utils.py::parse_into_datetime', 'stix2/utils.py::format_datetime',
                                            'stix2/properties.py::IntegerProperty.clean', 'stix2/properties.py::ReferenceProperty.clean', 'stix2/properties.py::HashesProperty.clean',
                                            'stix2/properties.py::DictionaryProperty.clean', 'stix2/properties.py::EnumProperty.clean', 'stix2/properties.py::ListProperty.clean'],
                                  allow=('_HASH_REGEXES',)):
        chk.lemmas.append(ob)
        if ob.result != 'discharged':
            chk.violation('frame#' + ob.clause.split(':')[2].split(' ')[0], 'frame obligation fails: ' + ob.clause, {'obligation': ob.clause}, no_input=True)
    table_invariant(chk)
    tabs = {v: T.frozen(v) for v in ('2.0', '2.1')}

    def corpus_cases():
        for ver in ('2.0', '2.1'):
            for label, cat, cls, kw, o, d in O.corpus(ver, alts=(0, 1) if chk.tier == 'quick' else (0, 1, 2)):
                yield (ver, label, cat, d)

    def check_valid(case):
        ver, label, cat, d = case
        errs = T.validate(d, ver, cat)
        if errs: return (f'emit#{label.split(":")[2]}:{errs[0].split(":")[0].split(".")[-1]}', f'{label}: strict output violates the specification model: {errs[:3]}', {'output': d})
    cc = list(corpus_cases())
    chk.bounded('valid corpus: strict output passes the independent validator', cc, check_valid, classify=lambda c: c[1], bound='every class variant of the table-driven generator (minimal, each optional property, all optional) with 2-3 value classes')

    # ---- values re-used across objects and versions: constructors given timestamp objects read from objects of the other spec version (other precision rules)
    import stix2, datetime as dtm
    def reuse_cases():
        for text in ('2017-01-01T12:34:56.123456Z', '2017-01-01T12:34:56Z', '2017-01-01T12:34:56.5Z', '2017-01-01T12:34:56.120Z'):
            d21 = stix2.v21.Identity(name='n', created=text, modified=text); d20 = stix2.v20.Identity(name='n', identity_class='individual', created=text, modified=text)
            ind21 = stix2.v21.Indicator(pattern="[file:name = 'a']", pattern_type='stix', valid_from=text, created=text, modified=text)
            for ver, label, cat, d in cc:
                if cat != 'objects' or not label.endswith(':minimal') or 'created' not in d or d['type'] in ('bundle',): continue
                for donor_name, donor in (('2.1 created', d21.created), ('2.0 created', d20.created), ('2.1 valid_from', ind21.valid_from), ('aware datetime', dtm.datetime(2017, 1, 1, 12, 34, 56, 123456, tzinfo=dtm.timezone.utc))):
                    yield (ver, label, d, donor_name, text, donor)

    def check_reuse(case):
        ver, label, d, donor_name, text, donor = case
        cls = stix2.registry.class_for_type(d['type'], ver)
        kw = {k: v for k, v in d.items() if k != 'type'}
        for k in ('created', 'modified', 'valid_from', 'first_observed', 'last_observed', 'first_seen', 'published'):
            if k in kw: kw[k] = donor
        try: o = cls(**kw)
        except Exception as ex:
            if O.family(ex): return None
            return (f'fault-escape#{type(ex).__name__}', f'{label} given {donor_name} of {text}: {type(ex).__name__}: {ex}', {})
        out = json.loads(o.serialize()); errs = T.validate(out, ver, 'objects')
        if errs: return (f'emit#{label.split(":")[2]}:re-used timestamp object:{errs[0].split(":")[0].split(".")[-1]}', f'{label} built with the {donor_name} timestamp object of {text} emits invalid content: {errs[:2]}', {'output': out})
    chk.bounded('timestamp objects re-used across objects and spec versions', list(reuse_cases()), check_reuse, classify=lambda c: (c[1], c[3], c[4]),
                bound='every versioned object type of both versions (minimal form) x 4 instants (0, 1, 3, 6 fraction digits) x 4 donors (2.1 / 2.0 created, 2.1 valid_from, aware datetime)')

    # ---- nested values handed over as ready-made library objects of ANOTHER class than the slot is for: refused, or converted so that what is emitted is valid
    def wrong_class_cases():
        for V, ver in ((stix2.v21, '2.1'), (stix2.v20, '2.0')):
            tlp = lambda: V.TLPMarking(tlp='red'); stmt = lambda: V.StatementMarking(statement='s')
            er = lambda: V.ExternalReference(source_name='s', url='http://x'); kc = lambda: V.KillChainPhase(kill_chain_name='k', phase_name='p')
            ic = {'identity_class': 'individual'} if ver == '2.0' else {}
            yield (ver, 'marking-definition: definition_type statement, definition a TLP marking object', lambda: V.MarkingDefinition(definition_type='statement', definition=tlp()))
            yield (ver, 'marking-definition: definition_type tlp, definition a statement marking object', lambda: V.MarkingDefinition(definition_type='tlp', definition=stmt()))
            yield (ver, 'marking-definition: definition_type tlp, definition a TLP object with an unknown colour', lambda: V.MarkingDefinition(definition_type='tlp', definition=V.TLPMarking(tlp='purple')))
            yield (ver, 'external_references holding a kill-chain-phase object', lambda: V.Identity(name='n', external_references=[kc()], **ic))
            yield (ver, 'kill_chain_phases holding an external-reference object', lambda: V.Malware(name='m', kill_chain_phases=[er()], **({'is_family': False} if ver == '2.1' else {'labels': ['bot']})))
            yield (ver, 'extensions: ntfs-ext slot holding an archive-ext object', lambda: V.File(name='f', extensions={'ntfs-ext': V.ArchiveExt(contains_refs=(['file--' + G.UUID] if ver == '2.1' else ['0']))}))
            yield (ver, 'granular_markings holding an external-reference object', lambda: V.Identity(name='n', granular_markings=[er()], **ic))
            yield (ver, 'bundle member that is an embedded (non top-level) object', lambda: V.Bundle(objects=[er()]))

    def check_wrong_class(case):
        ver, what, mk = case
        try: o = mk()
        except Exception as ex:
            if O.family(ex): return None
            return (f'fault-escape#{type(ex).__name__}', f'{ver} {what}: {type(ex).__name__}: {ex}', {})
        out = json.loads(o.serialize()); errs = T.validate(out, ver, 'objects')
        try: stix2.parse(o.serialize(), version=ver)
        except Exception as ex: errs = errs + [f'the library refuses its own output: {type(ex).__name__}: {str(ex)[:100]}']
        if errs: return (f'fault#ready-made object of another class:{what.split(":")[0]}', f'{ver} {what} was accepted in strict mode and emitted {json.dumps(out)[:200]}: {errs[:2]}', {'output': out})
    chk.bounded('ready-made nested objects of another class than the slot is for', list(wrong_class_cases()), check_wrong_class, classify=lambda c: c[:2], bound='8 slots x both spec versions')

    def fault_cases():
        for ver, label, cat, d in cc:
            if not (label.endswith(':minimal') or label.endswith(':all-optional')): continue
            for kind, bad in O.corruptions(d, ver, cat, tabs[ver]):
                yield (ver, label, cat, kind, bad)

    def check_fault(case):
        ver, label, cat, kind, bad = case
        if ver == '2.0' and 'identifier' in kind and isinstance(bad.get('id'), str):
            # order dependence: the same identifier text may have been validated for 2.1 content earlier in the process
            try: O.strict_parse({'type': 'identity', 'spec_version': '2.1', 'id': 'identity--' + bad['id'].split('--', 1)[-1], 'created': '2020-01-01T00:00:00.000Z',
                                 'modified': '2020-01-01T00:00:00.000Z', 'name': 'n'}, 'objects', '2.1')
            except Exception: pass
        try:
            o = O.strict_parse(bad, cat, ver)
        except Exception as ex:
            if O.family(ex): return None
            return (f'fault-escape#{type(ex).__name__}', f'{label} [{kind}]: {type(ex).__name__}: {ex}', {'input': bad})
        out = json.loads(o.serialize())
        errs = T.validate(out, ver, cat)
        if errs:
            key = kind.split(':')[0] if ':' in kind else kind
            return (f'fault#{label.split(":")[2]}:{key}:{kind.split(": ")[-1][:40]}', f'{label} [{kind}] was accepted in strict mode and emitted invalid content: {errs[:2]}', {'input': bad, 'output': out})
    fc = list(fault_cases())
    if chk.tier == 'quick' and len(fc) > 45000:
        chk.rng.shuffle(fc); fc = fc[:45000]
    chk.bounded('fault enumeration: (type, property, corruption kind)', fc, check_fault, classify=lambda c: (c[1].split(':')[2], c[3].split(':')[0], c[3].split(' ')[1] if ' ' in c[3] else ''),
                bound='every parseable type (minimal + all-optional form) x every populated slot x corruption kinds' + (' (random 45000-case subset in the quick tier)' if chk.tier == 'quick' else ''), stop_after=200)
