"""C15 -- timestamps are written in canonical form, truncated, order-preserving (proof + bounded cross-check)."""
import datetime as dtm, itertools, importlib, multiprocessing as mp
import z3
from vf.pyvc.lib import REG, recording_callee
from vf.pyvc import timelib  # noqa: F401  (registers the theories)
from vf.pyvc.contract import Contract
from vf.pyvc.engine import Val, Rec
from vf.selftest import mutation_selftest
from contracts import timefmt as K

LEVEL = 'proof'
M = 10**6
PCS = [(p, c) for p in ('ANY', 'SECOND', 'MILLISECOND') for c in ('EXACT', 'MIN')]


def contracts():
    cs = [K.format_datetime_contract(True), K.format_datetime_contract(False)]
    cs += [K.parse_contract(k) for k in ('datetime', 'stixdatetime', 'date', 'str')]
    cs += [K.to_enum_contract(k) for k in ('member', 'none', 'str', 'other')]
    cs.append(timestamp_property_contract())
    cs += [K.should_set_millisecond_contract(k) for k in ('str', 'datetime', 'stixdatetime')]
    return cs


def timestamp_property_contract():
    """TimestampProperty.clean forwards (value, self.precision, self.precision_constraint) to parse_into_datetime, by the real signature"""
    prec, con, value = Val('opaque', x='self.precision'), Val('opaque', x='self.precision_constraint'), Val('opaque', x='value')

    def ens(a, r):
        ok = (r.sort == 'tuple' and len(r.x) == 2 and r.x[0].sort == 'callres' and r.x[0].x['callee'] == 'parse_into_datetime'
              and r.x[0].x['bound'].get('value') is value and r.x[0].x['bound'].get('precision') is prec
              and r.x[0].x['bound'].get('precision_constraint') is con and r.x[1].sort == 'bool' and z3.is_false(r.x[1].t))
        return z3.BoolVal(bool(ok))
    return Contract('stix2/properties.py::TimestampProperty.clean', props=['C15', 'C02'],
                    params={'self': Rec(precision=prec, precision_constraint=con), 'value': value, 'allow_custom': 'bool'},
                    ensures=[('result == (parse_into_datetime(value, self.precision, self.precision_constraint), False)', ens)],
                    raises={'ValueError': None, 'TypeError': None, 'KeyError': None},
                    handlers={'parse_into_datetime': recording_callee('/repo', 'stix2/utils.py', 'parse_into_datetime', may_raise=('ValueError', 'TypeError', 'KeyError'))},
                    note='call-site obligation: the property\'s precision settings reach the parser unchanged')


# ------------------------------------------------------------------ independent integer-arithmetic formatter (oracle of the stand-in)
def spec_text(us_utc, P, C):
    c = K.civil_from_us(us_utc)
    f = us_utc % M
    date = '%04d-%02d-%02dT%02d:%02d:%02d' % (c['year'], c['month'], c['day'], c['hour'], c['minute'], c['second'])
    if (P, C) == ('SECOND', 'EXACT'): frac = ''
    elif (P, C) == ('MILLISECOND', 'EXACT'): frac = '%03d' % (f // 1000)
    else:
        frac = ('%06d' % f).rstrip('0') if f else ''
        if (P, C) == ('MILLISECOND', 'MIN'): frac = frac.ljust(3, '0')
    return date + ('.' + frac if frac else '') + 'Z'


def us_of(d):
    """UTC instant of a datetime in integer microseconds since 0001-01-01 (naive read as UTC)"""
    if not isinstance(d, dtm.datetime): return (d - dtm.date(1, 1, 1)).days * 86400 * M
    off = d.utcoffset() if d.tzinfo is not None else None
    w = d.replace(tzinfo=None) - dtm.datetime(1, 1, 1)
    us = (w.days * 86400 + w.seconds) * M + w.microseconds
    return us - (0 if off is None else int(off / dtm.timedelta(microseconds=1)))


def text_to_us(s):
    m = K.TS_RE.match(s)
    if not m: return None
    y, mo, d, h, mi, sec = (int(m.group(i)) for i in range(1, 7))
    days = (dtm.date(y, mo, d) - dtm.date(1, 1, 1)).days
    frac = m.group(8)
    return ((days * 86400 + h * 3600 + mi * 60 + sec) * M) + (int(frac.ljust(6, '0')[:6]) if frac else 0)


def check_case(case):
    import stix2.utils as U
    d, P, C = case
    try:
        parsed = U.parse_into_datetime(d, P.lower(), C.lower())
        text = U.format_datetime(parsed)
    except Exception as ex:
        return ('native#no-exception', f'format/parse raised {type(ex).__name__}: {ex} for {case!r}', {})
    us = us_of(d) if not isinstance(d, str) else text_to_us(d)
    unit = {('SECOND', 'EXACT'): M, ('MILLISECOND', 'EXACT'): 1000}.get((P, C), 1)
    want = spec_text(us - us % unit, P, C)
    if text != want:
        return ('native#text == independent formatter', f'{case!r}: library wrote {text!r}, specification formatter {want!r}', {'got': text, 'want': want})
    back = U.format_datetime(U.parse_into_datetime(text, P.lower(), C.lower()))
    if back != text:
        return ('native#fixed point', f'{case!r}: {text!r} re-read and re-written as {back!r}', {})
    return None


US_BOUNDARY = sorted({0, 1, 9, 10, 99, 100, 999, 1000, 1001, 1999, 9999, 10000, 99999, 100000, 100001, 123000, 123400, 123450, 123456, 500000, 999000,
                      999499, 999500, 999999, 999990, 999900, 990000, 900000, 1234, 120000, 100, 10, 5000, 50, 700, 70000})
DATES = [(1, 1, 1), (9, 12, 31), (99, 2, 28), (999, 12, 31), (1000, 1, 1), (1582, 10, 15), (1900, 2, 28), (1970, 1, 1), (2000, 2, 29), (2024, 2, 29), (2038, 1, 19), (9999, 12, 31)]
OFFSETS = [None, 0, 3600, -3600, 14 * 3600, -14 * 3600, 19800, 20700, -12600, 1, -1, 86399, -86399]


def quick_domain(rng):
    for (y, mo, d), off, us in itertools.product(DATES, OFFSETS, US_BOUNDARY):
        for hms in ((0, 0, 0), (23, 59, 59)):
            try:
                tz = None if off is None else dtm.timezone(dtm.timedelta(seconds=off))
                v = dtm.datetime(y, mo, d, *hms, us, tzinfo=tz)
                if off: v.astimezone(dtm.timezone.utc)       # skip values whose UTC conversion overflows year 1..9999
            except (OverflowError, ValueError): continue
            for P, C in PCS: yield (v, P, C)
    for (y, mo, d) in DATES:
        for P, C in PCS: yield (dtm.date(y, mo, d), P, C)
    for (y, mo, d) in DATES:
        for digits in ('', '.0', '.5', '.50', '.05', '.123', '.1234', '.12345', '.123456', '.000001', '.999999', '.100000', '.000'):
            for P, C in PCS: yield ('%04d-%02d-%02dT12:34:56%sZ' % (y, mo, d, digits), P, C)


def _exh_chunk(args):
    import stix2.utils as U
    lo, hi = args; bad = []
    base = dtm.datetime(2021, 7, 4, 23, 59, 59, tzinfo=dtm.timezone.utc)
    base_us = us_of(base)
    n = 0
    for us in range(lo, hi):
        d = base.replace(microsecond=us)
        for P, C in PCS:
            n += 1
            text = U.format_datetime(U.parse_into_datetime(d, P.lower(), C.lower()))
            unit = {('SECOND', 'EXACT'): M, ('MILLISECOND', 'EXACT'): 1000}.get((P, C), 1)
            if text != spec_text(base_us + us - us % unit, P, C): bad.append((us, P, C, text))
    return n, bad[:5]


def probes(chk):
    """conformance probes for the assumed external contracts"""
    import pytz, stix2.utils as U
    n = 0
    for (y, mo, d), off in itertools.product(DATES[4:], OFFSETS[1:]):
        a = dtm.datetime(y, mo, d, 1, 2, 3, 456789, tzinfo=dtm.timezone(dtm.timedelta(seconds=off)))
        try: z = a.astimezone(pytz.utc)
        except OverflowError: continue
        assert us_of(z) == us_of(a) and z.utcoffset() == dtm.timedelta(0), 'astimezone contract'
        nv = a.replace(tzinfo=None); l = pytz.utc.localize(nv)
        assert l.replace(tzinfo=None) == nv and l.utcoffset() == dtm.timedelta(0), 'localize contract'
        r = a.replace(microsecond=0); assert us_of(r) == us_of(a) - 456789, 'replace contract'
        s = U.STIXdatetime(a, precision='millisecond', precision_constraint='min')
        assert s == a and s.precision is U.Precision.MILLISECOND and s.precision_constraint is U.PrecisionConstraint.MIN, 'STIXdatetime contract'
        c = K.civil_from_us(us_of(z)); assert (c['year'], c['month'], c['day'], c['hour'], c['minute'], c['second']) == (z.year, z.month, z.day, z.hour, z.minute, z.second), 'civil fields'
        try:
            pytz.utc.localize(a); assert False, 'localize must refuse aware input'
        except ValueError: pass
        n += 1
    for v in (0, 1, 9, 10, 999999, 123456, 100000, 5): assert '{:06d}'.format(v) == str(v).rjust(6, '0')
    for txt, ok in (('2020-01-01T00:00:00Z', True), ('2020-01-01T00:00:00.5Z', True), ('2020-01-01T00:00:00.123456Z', True), ('2020-1-1T0:0:0Z', True),
                    ('2020-01-01T00:00:00', False), ('2020-13-01T00:00:00Z', False), ('2020-01-01T00:00:00.Z', False), ('2020-01-01T00:00:00.1234567Z', False)):
        fmt = U._TIMESTAMP_FORMAT_FRAC if '.' in txt else U._TIMESTAMP_FORMAT
        try: dtm.datetime.strptime(txt, fmt); got = True
        except ValueError: got = False
        assert got == ok, f'strptime contract on {txt}'
    assert dtm.datetime.strptime('2020-01-01T00:00:00.5Z', U._TIMESTAMP_FORMAT_FRAC).microsecond == 500000
    chk.extra['assumption_probes'] = {'datetime/pytz/STIXdatetime/civil-fields cases': n, 'strptime strings': 8, 'result': 'all conform'}


def run(chk):
    chk.registry = REG
    chk.explanation = ('P: format_datetime (STIXdatetime and plain-datetime variants), parse_into_datetime (datetime / date / string variants), to_enum '
                       '(four argument kinds) and TimestampProperty.clean are verified against contracts taken from the property statement: the text is '
                       'YYYY-MM-DDTHH:MM:SS[.frac]Z built from the zero-padded civil fields of the UTC instant, the fraction digits are exactly those the '
                       '(precision, constraint) pair requires, written <= input < written + unit, for every integer microsecond instant and every '
                       'offset (DigitStr theory, linear integer arithmetic).  Fixed point and monotonicity are lemmas over the two contracts.  '
                       'B: the real functions are compared with an independent integer-arithmetic formatter on boundary microseconds x 12 dates '
                       '(years 1..9999) x 13 offsets x 6 (precision, constraint) pairs, dates, and strings with 0-6 fraction digits; thorough tier: '
                       'all 10^6 microsecond values x 6 pairs.')
    chk.assume('the contracts take the UTC offset of a value as given (a number); which offset a zone assigns to a wall-clock time, incl. fold, is exercised by the bounded zone run only')
    chk.trust('contracts/timefmt.py spec functions as a reading of the property statement', 'civil-from-days algorithm used by the native oracle')
    for c in contracts():
        chk.prove(c)
        if c.ensures: chk.canary(c)
    for name, claim in K.lemmas():
        chk.lemma(name, claim)
    try:
        probes(chk)
    except AssertionError as ex:
        chk.faults.append(f'an assumed external contract does not hold on this platform: {ex}')
    dom = list(quick_domain(chk.rng))
    if chk.tier == 'quick':
        chk.rng.shuffle(dom); dom = dom[:12000]
    chk.bounded('native: format(parse(x,P,C)) == independent formatter; fixed point', dom, check_case,
                classify=lambda c: (type(c[0]).__name__, c[1], c[2], (c[0].microsecond if hasattr(c[0], 'microsecond') else c[0]) if not isinstance(c[0], str) else c[0][19:]),
                bound=f'{len(US_BOUNDARY)} boundary microsecond values x {len(DATES)} dates x {len(OFFSETS)} offsets x 2 times of day x 6 (P,C); dates; 13 fraction spellings' + (' (random 12000-case subset in the quick tier)' if chk.tier == 'quick' else ''))
    # monotonicity on adjacent boundary instants (native)
    import stix2.utils as U
    def mono(case):
        a, b, P, C = case
        ta = text_to_us(U.format_datetime(U.parse_into_datetime(a, P.lower(), C.lower())))
        tb = text_to_us(U.format_datetime(U.parse_into_datetime(b, P.lower(), C.lower())))
        if ta > tb: return ('native#monotone', f'{a!r} <= {b!r} but written {ta} > {tb} under {P},{C}', {})
    base = dtm.datetime(1999, 12, 31, 23, 59, 59, tzinfo=dtm.timezone.utc)
    seq = [base.replace(microsecond=u) for u in US_BOUNDARY] + [base.replace(microsecond=0) + dtm.timedelta(seconds=1)]
    chk.bounded('native: monotone on adjacent instants', [(a, b, P, C) for a, b in zip(seq, seq[1:]) for P, C in PCS], mono, classify=repr, bound='adjacent boundary instants across a second/day/year boundary x 6 (P,C)')
    # the property-level statement: whatever value kind reaches a TimestampProperty, the text written is the one its own (precision, constraint) requires
    import stix2.properties as SP

    def prop_cases():
        base = dtm.datetime(2021, 7, 4, 23, 59, 59, tzinfo=dtm.timezone.utc)
        for us in (0, 1, 999, 1000, 123456, 500000, 999999, 120000):
            d = base.replace(microsecond=us)
            for P, C in PCS:
                yield (P, C, 'str', U.format_datetime(d))
                yield (P, C, 'datetime', d)
                yield (P, C, 'naive datetime', d.replace(tzinfo=None))
                for P2, C2 in PCS:
                    yield (P, C, f'STIXdatetime[{P2},{C2}]', U.STIXdatetime(d, precision=P2.lower(), precision_constraint=C2.lower()))

    def check_prop(case):
        P, C, kind, v = case
        prop = SP.TimestampProperty(precision=P.lower(), precision_constraint=C.lower())
        pre = None if isinstance(v, str) else (U.format_datetime(v), getattr(v, 'precision', None), getattr(v, 'precision_constraint', None))
        try: cleaned, _ = prop.clean(v)
        except Exception as ex: return ('property#clean accepts every timestamp value kind', f'TimestampProperty({P},{C}).clean({kind} {v!r}) raised {type(ex).__name__}: {ex}', {})
        if pre is not None and (U.format_datetime(v), getattr(v, 'precision', None), getattr(v, 'precision_constraint', None)) != pre:
            return ('frame#the timestamp object handed in is written as before', f'after TimestampProperty({P},{C}).clean the {kind} handed in is written {U.format_datetime(v)!r} with precision settings {getattr(v, "precision", None)}, {getattr(v, "precision_constraint", None)} (was {pre[0]!r} with {pre[1]}, {pre[2]}): a timestamp shared with another object changed how it is written', {})
        text = U.format_datetime(cleaned)
        us = text_to_us(v) if isinstance(v, str) else us_of(v)
        unit = {('SECOND', 'EXACT'): M, ('MILLISECOND', 'EXACT'): 1000}.get((P, C), 1)
        want = spec_text(us - us % unit, P, C)
        if text != want:
            return ('property#text is the one the property\'s precision requires', f'TimestampProperty({P},{C}) given {kind} {v!r} writes {text!r}, specification formatter {want!r}', {})
    chk.bounded('native: TimestampProperty.clean over value kinds', list(prop_cases()), check_prop, classify=lambda c: (c[0], c[1], c[2]),
                bound='6 property settings x {string, aware datetime, naive datetime, STIXdatetime of each of the 6 settings} x 8 microsecond values')
    # ---- every route by which a timestamp reaches an object and its serialization: the text written is the one the property's own (precision, constraint) requires
    import stix2, copy as _copy, json as _json

    def route_cases():
        for us in (0, 1, 999, 1000, 120000, 123000, 123456, 500000, 999999):
            d = dtm.datetime(2021, 7, 4, 23, 59, 59, us, tzinfo=dtm.timezone.utc)
            for ver, P, C in (('2.1', 'MILLISECOND', 'MIN'), ('2.0', 'MILLISECOND', 'EXACT')):
                for route in ('constructor(datetime)', 'constructor(text)', 'parse', 'ObjectFactory default', 'ObjectFactory(created=text)', 'Environment factory default', 'deepcopy of the object', 'deepcopy of the bundle',
                              'new_version of it', 'member of a bundle', 'through MemoryStore', 'deep copy of the timestamp object', 'pickle round trip of the object'):
                    yield (us, ver, P, C, route, d)

    def check_route(case):
        us, ver, P, C, route, d = case
        V = stix2.v21 if ver == '2.1' else stix2.v20
        text6 = spec_text(us_of(d), 'ANY', 'EXACT') if us else U.format_datetime(d)
        kw = {'name': 'n'} if ver == '2.1' else {'name': 'n', 'identity_class': 'individual'}
        unit = 1000 if C == 'EXACT' else 1
        want = spec_text(us_of(d) - us_of(d) % unit, P, C)
        try:
            if route == 'constructor(datetime)': o = V.Identity(created=d, modified=d, **kw)
            elif route == 'constructor(text)': o = V.Identity(created=text6, modified=text6, **kw)
            elif route == 'parse': o = stix2.parse(dict({'type': 'identity', 'id': 'identity--' + '311b2d2d-f010-4473-83ec-1edf84858f4c', 'created': text6, 'modified': text6}, **kw, **({'spec_version': '2.1'} if ver == '2.1' else {})))
            elif route == 'ObjectFactory default':
                f = stix2.ObjectFactory(); f.set_default_created(d); o = f.create(V.Identity, **kw)
            elif route == 'ObjectFactory(created=text)': o = stix2.ObjectFactory(created=text6).create(V.Identity, **kw)
            elif route == 'Environment factory default':
                env = stix2.Environment(factory=stix2.ObjectFactory(created=d), store=stix2.MemoryStore()); o = env.create(V.Identity, **kw)
            elif route == 'deepcopy of the object': o = _copy.deepcopy(V.Identity(created=d, modified=d, **kw))
            elif route == 'deepcopy of the bundle': o = _copy.deepcopy(V.Bundle(V.Identity(created=d, modified=d, **kw))).objects[0]
            elif route == 'new_version of it':
                o = V.Identity(created=d, modified=d, **kw).new_version(name='m')
                got = _json.loads(o.serialize())['created']
                return None if got == want else ('route#text is the one the property\'s precision requires:' + route, f'{ver} identity created {text6} via {route}: created written {got!r}, specification formatter {want!r}', {})
            elif route == 'member of a bundle': o = stix2.parse(V.Bundle(V.Identity(created=d, modified=d, **kw)).serialize()).objects[0]
            elif route == 'through MemoryStore':
                ms = stix2.MemoryStore(); src = V.Identity(created=d, modified=d, **kw); ms.add(src); o = ms.get(src.id)
            elif route == 'pickle round trip of the object':
                import pickle
                o = pickle.loads(pickle.dumps(V.Identity(created=d, modified=d, **kw)))
            else:
                src = V.Identity(created=d, modified=d, **kw)
                got = U.format_datetime(_copy.deepcopy(src.created))
                return None if got == want else ('route#text is the one the property\'s precision requires:' + route, f'{ver} created {text6}: a deep copy of the timestamp object is written {got!r}, the object writes {want!r}', {})
        except Exception as ex:
            return ('route#accepted:' + route, f'{ver} identity with created {text6} via {route}: {type(ex).__name__}: {ex}', {})
        got = _json.loads(o.serialize())
        for k in ('created', 'modified'):
            if got[k] != want: return ('route#text is the one the property\'s precision requires:' + route, f'{ver} identity {k} {text6} via {route}: written {got[k]!r}, specification formatter {want!r}', {})
    chk.bounded('native: every route of a timestamp into an object', list(route_cases()), check_route, classify=lambda c: (c[0], c[1], c[4]),
                bound='9 microsecond values x 2 spec versions x 13 routes (constructors, parse, factory / environment defaults, deep copies, new_version, bundle, store)')
    # ---- objects whose timestamp precision is decided from the value they are given (marking definitions): what is written is read back and written identically
    def md_cases():
        for us in (0, 1, 400, 999, 1000, 120000, 123456, 999999):
            for aware in (True, False):
                d = dtm.datetime(2021, 7, 4, 23, 59, 59, us, tzinfo=dtm.timezone.utc if aware else None)
                for ver in ('2.0', '2.1'):
                    for kind in ('datetime', 'text', 'text with 3 digits', 'timestamp object of another object'): yield (us, aware, ver, kind, d)
    def check_md(case):
        us, aware, ver, kind, d = case
        V = stix2.v21 if ver == '2.1' else stix2.v20
        da = d if aware else d.replace(tzinfo=dtm.timezone.utc)
        if kind == 'datetime': v = d
        elif kind == 'text': v = U.format_datetime(da)
        elif kind == 'text with 3 digits': v = spec_text(us_of(da) - us_of(da) % 1000, 'MILLISECOND', 'EXACT')
        else: v = stix2.v21.Identity(name='n', created=da, modified=da).created
        try: m = V.MarkingDefinition(definition_type='statement', definition=V.StatementMarking('s'), created=v)
        except Exception as ex: return ('marking#accepted', f'{ver} statement marking created from {kind} {v!r}: {type(ex).__name__}: {ex}', {})
        t1 = m.serialize(); t2 = stix2.parse(t1, version=ver).serialize()
        if t1 != t2: return ('marking#write, read, write is a fixed point', f'{ver} statement marking created from {kind} {v!r}: first written {_json.loads(t1)["created"]}, after reading it back {_json.loads(t2)["created"]}', {})
        w = _json.loads(t1)['created']
        if text_to_us(w) > us_of(da) or us_of(da) - text_to_us(w) >= 1000: return ('marking#truncated by less than a millisecond, never rounded up', f'{ver} statement marking created from {kind} {v!r} is written {w}', {})
    chk.bounded('native: marking definitions (precision decided from the value given)', list(md_cases()), check_md, classify=lambda c: c[:4],
                bound='8 microsecond values x aware / naive x 2 spec versions x 4 value kinds (datetime, full text, 3-digit text, timestamp object of another object)')

    # ---- zone-based offsets (IANA zones via zoneinfo): the offset depends on the date and, at the end of daylight saving time, on `fold`; the text denotes the instant
    try:
        import zoneinfo
        zones = [zoneinfo.ZoneInfo(z) for z in ('Europe/Berlin', 'America/New_York', 'Australia/Lord_Howe', 'Asia/Kolkata')]
    except Exception as ex:       # noqa (no tz database on this platform)
        zones = []; chk.undecided_notes.append(f'zoneinfo not usable here ({ex!r}): zone-based offsets not exercised')
    def zone_cases():
        for z in zones:
            for (y, mo, d_, h, mi) in ((2021, 10, 31, 2, 30), (2021, 3, 28, 2, 30), (2021, 11, 7, 1, 30), (2021, 4, 4, 1, 45), (2021, 7, 1, 12, 0), (2021, 1, 1, 0, 0)):
                for fold in (0, 1):
                    for us in (0, 123456): yield (z, dtm.datetime(y, mo, d_, h, mi, 0, us, tzinfo=z, fold=fold))
    def check_zone(case):
        z, d = case
        inst = d.astimezone(dtm.timezone.utc)          # the instant Python assigns to this wall time, zone and fold
        want = spec_text(us_of(inst), 'MILLISECOND', 'MIN')
        for route, fn in (('format_datetime(datetime)', lambda: spec_text(text_to_us(U.format_datetime(d)), 'MILLISECOND', 'MIN')), ('2.1 identity created', lambda: _json.loads(stix2.v21.Identity(name='n', created=d, modified=d).serialize())['created']),
                          ('TimestampProperty.clean', lambda: U.format_datetime(SP.TimestampProperty(precision='millisecond', precision_constraint='min').clean(d)[0])),
                          ('deep copy of the object', lambda: _json.loads(_copy.deepcopy(stix2.v21.Identity(name='n', created=d, modified=d)).serialize())['created'])):
            try: got = fn()
            except Exception as ex: return ('zone#accepted', f'{route} of {d!r} (fold={d.fold}): {type(ex).__name__}: {ex}', {})
            if got != want: return ('zone#text denotes the instant', f'{route} of {d.isoformat()} {z.key} fold={d.fold} writes {got}, the instant is {want}', {})
    chk.bounded('native: zone-based offsets incl. ambiguous and skipped wall-clock times', list(zone_cases()), check_zone, classify=lambda c: (c[0].key, c[1].isoformat(), c[1].fold),
                bound='4 IANA zones x 6 wall-clock times (both DST transitions of each hemisphere, summer, winter) x fold 0/1 x 2 microsecond values x 4 routes')
    if chk.tier == 'thorough':
        step = M // 64
        with mp.Pool(16) as pool:
            res = pool.map(_exh_chunk, [(lo, min(M, lo + step)) for lo in range(0, M, step)])
        n = sum(r[0] for r in res); bad = [b for r in res for b in r[1]]
        chk.bounded_runs.append({'name': 'native exhaustive: every microsecond value x 6 (P,C) on 2021-07-04T23:59:59Z', 'bound': 'exhaustive over the sub-second field', 'evaluations': n,
                                 'distinct_classes': n, 'witnesses': len(bad), 'wall_s': 0, 'samples': [repr(b) for b in bad[:3]] or ['(us=123456, MILLISECOND, MIN) -> 2021-07-04T23:59:59.123456Z']})
        chk.say(f'  [B] exhaustive microseconds: evaluations={n} witnesses={len(bad)}')
        for b in bad[:3]:
            chk.violation('native#text == independent formatter', f'exhaustive: {b}', {'case': repr(b)})
        results = []
        for c in (K.format_datetime_contract(True), K.parse_contract('datetime'), K.parse_contract('str')):
            r = mutation_selftest(c, REG, '/repo', None)
            results.append(r)
            chk.say(f'  [selftest] {r["function"]} ({c.note}): mutants={r["total"]} killed={r["killed"]} undecided={r["undecided"]} survivors={r["survivors"]}')
        chk.extra['mutation_selftest'] = results
