"""C17 -- bad input is reported only through the library's error family (proved raw-input functions + fault enumeration)."""
import copy, itertools, json
import z3
from vf.pyvc.lib import REG
from vf.pyvc.jsonmodel import concretize, string_constants, model_strings
from vf.check import Replay
from vf import objgen as G
from contracts import parsing as K, markings as KM

LEVEL = 'other'
JUNK = [None, True, False, 0, -1, 2**70, 10**400, 1.5, '', 'x', 'a' * 300, [], [None], [[]], [{}], ['x', 1], {}, {'a': None}, {'type': 'x'}, {'': {'': []}}, [{'a': [{'b': None}]}]]
JUNK_QUICK = [None, False, 0, 10**400, 1.5, '', 'x', [], [{}], {}, {'a': None}]


def family_ok(ex):
    import stix2.exceptions as X
    return isinstance(ex, (X.STIXError, ValueError, TypeError))


def j_replay(fn_name):
    """replay of a J-sorted counterexample: concretise the model to a JSON value, call the real function, compare the exception class"""
    def lower_z3(model, ob):
        keys = string_constants(ob.pc + [ob.claim]) | {'type', 'id', 'objects', 'extensions', 'spec_version'} | model_strings(model, ob.pc)
        from vf.pyvc.engine import J
        root = z3.Const('stix_dict', J)
        return {'stix_dict': concretize(model, root, keys)}

    def call(py):
        import stix2.parsing, stix2.utils
        if fn_name == 'detect_spec_version': return stix2.utils.detect_spec_version(py['stix_dict'])
        return stix2.parsing.dict_to_stix2(py['stix_dict'])

    def judge(py, outcome, ob):
        if outcome[0] == 'raise' and not family_ok(outcome[1]): return [f'escaped {type(outcome[1]).__name__}: {outcome[1]}']
        return []
    return Replay(call=call, lower_z3=lower_z3, judge=judge)


def init_replay():
    """replay for the __init__ region contract: self is abstract in the proof (its property table is an uninterpreted set), so the concretised keyword
    dictionary is tried on a few real classes; if none reproduces the escape the violation is reported without an input (not as a checker fault)"""
    def candidates(is20):
        import stix2
        return [stix2.v20.Identity, stix2.v20.File] if is20 else [stix2.v21.Identity, stix2.v21.File, stix2.v21.Bundle, stix2.v21.NTFSExt]

    def lower_z3(model, ob):
        from vf.pyvc.engine import J
        keys = string_constants(ob.pc + [ob.claim]) | {'custom_properties', 'extensions', 'extension_type'} | model_strings(model, ob.pc)
        kw = concretize(model, z3.Const('kwargs', J), keys)
        if not isinstance(kw, dict): kw = {}
        ac = bool(model.eval(z3.Bool('allow_custom'), model_completion=True)); is20 = bool(model.eval(z3.Bool('isinstance(self, _STIXBase20)'), model_completion=True))
        for cls in candidates(is20):
            for allow in (ac, not ac):
                try: cls(allow_custom=allow, **copy.deepcopy(kw))
                except Exception as ex:        # noqa
                    if not family_ok(ex): return {'cls': cls, 'allow_custom': allow, 'kwargs': kw}
        raise RuntimeError('the model depends on the abstract property table; no concrete class reproduces it')

    def call(py): return py['cls'](allow_custom=py['allow_custom'], **copy.deepcopy(py['kwargs']))

    def judge(py, outcome, ob):
        if outcome[0] == 'raise' and not family_ok(outcome[1]): return [f'escaped {type(outcome[1]).__name__}: {outcome[1]}']
        return []
    return Replay(call=call, lower_z3=lower_z3, judge=judge)


def slots(d, path=()):
    """every (path, value) slot of a JSON value, depth-limited"""
    if isinstance(d, dict):
        for k, v in d.items():
            yield path + (k,), v
            if len(path) < 3: yield from slots(v, path + (k,))
    elif isinstance(d, list):
        for i, v in enumerate(d[:2]):
            yield path + (i,), v
            if len(path) < 3: yield from slots(v, path + (i,))


def put(d, path, value):
    d = copy.deepcopy(d); cur = d
    for k in path[:-1]: cur = cur[k]
    cur[path[-1]] = value
    return d


def corpus(ver, tier):
    """valid JSON objects of every parseable type"""
    out = []
    for label, cat, cls, kw in G.variants(ver, alts=(0,), with_all=True):
        if cat not in ('objects', 'observables'): continue
        if not (label.endswith(':minimal') or label.endswith(':all-optional')): continue
        try:
            o = G.build(label, cat, cls, kw, ver)
            out.append((label, cat, json.loads(o.serialize())))
        except Exception:
            continue
    return out


def run(chk):
    import stix2, stix2.exceptions as X
    from stix2 import registry
    chk.registry = REG
    chk.explanation = ('P: utils.detect_spec_version, parsing.dict_to_stix2 and parsing.parse are verified with the input of sort J (an arbitrary JSON '
                       'value, any nesting): every subscript, attribute/method access, membership test and iteration on raw input is an obligation site, '
                       'and no path lets KeyError/AttributeError/IndexError escape (raises subset of STIXError | ValueError | TypeError); the same for the part '
                       'of _STIXBase.__init__ that inspects the raw keyword dictionary before property cleaning (custom_properties, the extensions scan, '
                       'custom property naming; region contract cut at the property loop, self abstracted to an arbitrary property-name set); callee '
                       'preconditions (recursive detect call, registry lookup, constructor) are call-site obligations.  B (fault enumeration): every '
                       'parseable type of both versions x every JSON slot down to depth 3 x wrong-kind values, through stix2.parse in both custom modes, '
                       'parse_observable and constructors; whole-input scalars and text; 17 nesting sites at depths near the stack limit; integers beyond the double range; registries compared with their snapshot.')
    chk.assume('termination is not decided; RecursionError on deep nesting is checked by the bounded nesting family only (17 sites, depths up to the decoder\'s own limit), not proved',
               'the class constructors raise only Family errors: checked by the fault enumeration (B), not proved')
    c1 = K._fix_detect(K.detect_contract()); c1.replay = j_replay('detect_spec_version')
    c2 = K.dict_to_stix2_contract(); c2.replay = j_replay('dict_to_stix2')
    c3 = K.parse_contract()
    c4 = K.init_prefix_contract(); c4.replay = init_replay()
    for c in (c1, c2, c3, c4, KM.validate_contract(), KM.validate_selector_contract(), KM.evaluate_expression_contract()):
        chk.prove(c); chk.canary(c)
    # ---- structured inputs around the raw-input code of dict_to_stix2 / detect_spec_version (every branch of the proved functions, natively): unknown and known
    # types x extensions of every shape x extension_type of every JSON kind; bundles whose members have every shape
    def raw_inputs():
        U = G.UUID
        for typ in ('x-unknown-type', 'identity', 'file', 'bundle', 'marking-definition', 5, None, [], {}):
            base = {'type': typ, 'id': (typ if isinstance(typ, str) else 'x') + '--' + U}
            for sv in (None, '2.1', '2.0', 5, []):
                b = dict(base, **({'spec_version': sv} if sv is not None else {}))
                yield b
                for ek in ('extension-definition--' + U, 'extension-definition--', 'x-ext', 'ntfs-ext', ''):
                    for ev in JUNK_QUICK + [{'extension_type': et} for et in (None, 5, 1.5, True, [], {}, '', 'property-extension', 'new-sdo', 'toplevel-property-extension', ['property-extension'])]:
                        yield dict(b, extensions={ek: ev})
                for exts in JUNK_QUICK: yield dict(b, extensions=exts)
            for objs in JUNK_QUICK + [[5], [None], [{}], [{'type': 5}], [{'type': 'identity'}], [[{}]], [{'type': 'bundle', 'objects': [{}]}], [{'type': 'x', 'spec_version': '9.9'}]]:
                yield dict(base, objects=objs)

    # properties whose presence other code relies on (co-constraints run after cleaning and read several properties at once): every combination of
    # absent / valid / junk for the members of such a group, with and without an extensions entry that waives "required" rules
    def group_inputs():
        U = G.UUID; EXT = {'extension-definition--' + G.UUID2: {'extension_type': 'property-extension'}}
        for sv in ('2.1', None):
            base = {'type': 'marking-definition', 'id': 'marking-definition--' + U, 'created': '2020-01-01T00:00:00.000Z'}
            if sv: base['spec_version'] = sv
            for dt in (None, 'tlp', 'statement', 'x-unregistered', 5, ''):
                for df in (None, {'tlp': 'red'}, {'tlp': 'purple'}, {'statement': 's'}, {}, 'red', 5, [], {'tlp': 5}, {'tlp': None}):
                    for ext in (None, EXT, {}):
                        for nm in (None, 'n'):
                            w = dict(base)
                            if dt is not None: w['definition_type'] = dt
                            if df is not None: w['definition'] = df
                            if ext is not None: w['extensions'] = ext
                            if nm is not None: w['name'] = nm
                            yield w
        for w in ({'type': 'language-content', 'spec_version': '2.1', 'id': 'language-content--' + U, 'created': '2020-01-01T00:00:00.000Z', 'modified': '2020-01-01T00:00:00.000Z', 'object_ref': 'identity--' + U},):
            for contents in JUNK_QUICK + [{'de': 'text'}, {'de': ['x']}, {'de': {}}, {'de': {'name': 5}}, {'de': None}, {'': {'name': 'n'}}, {'de': {'': 'n'}}]: yield dict(w, contents=contents)

        # members named like the constructors' private / option keywords (they arrive as **kwargs from the input mapping): junk of every shape
        for base in ({'type': 'directory', 'path': '/x', 'contains_refs': ['0']}, {'type': 'email-message', 'is_multipart': False, 'from_ref': '1', 'to_refs': ['0', '1']},
                     {'type': 'file', 'name': 'f', 'parent_directory_ref': '0', 'extensions': {'archive-ext': {'contains_refs': ['0']}}}, {'type': 'identity', 'spec_version': '2.1', 'id': 'identity--' + G.UUID, 'name': 'n'}):
            for key in ('_valid_refs', 'custom_properties', 'allow_custom', 'interoperability', '_store', 'version'):
                for junk_v in JUNK_QUICK + [{'0': None}, {'0': 5}, {'0': True}, {'0': []}, {'0': ['file']}, {'0': {}}, {'0': {'type': 'file'}}, {'0': 'file', '1': None}, {'1': 5, '0': 'directory'}, {'0': [[{'a': None}]]}]:
                    yield dict(base, **{key: junk_v})

    def check_raw(w):
        for fn, nm in ((lambda: stix2.parse(copy.deepcopy(w)), 'parse'), (lambda: stix2.parse(copy.deepcopy(w), allow_custom=True), 'parse(allow_custom)'),
                       (lambda: stix2.parse(copy.deepcopy(w), version='2.1'), 'parse(version=2.1)'), (lambda: stix2.parse(copy.deepcopy(w), version='2.0', allow_custom=True), 'parse(version=2.0, allow_custom)')):
            try: fn()
            except Exception as ex:      # noqa
                if not family_ok(ex): return (f'escape#{type(ex).__name__}', f'{nm}({json.dumps(w)[:170]}): {type(ex).__name__}: {str(ex)[:100]}', {'input': w})
    chk.bounded('groups of properties that co-constraints read together: absent / valid / junk in every combination', list(group_inputs()), check_raw, classify=lambda w: json.dumps(w, sort_keys=True, default=str)[40:200],
                bound='marking-definition: 6 definition_type x 10 definition x 3 extensions x 2 name x 2 spec_version values; language-content: 17 contents values; 4 objects x 6 private / option keyword names x junk of every shape; 4 parse variants')
    chk.bounded('structured raw inputs around type / spec_version / extensions / objects', list(raw_inputs()), check_raw, classify=lambda w: json.dumps(w, sort_keys=True, default=str)[:120],
                bound='9 type values x 5 spec_version values x (5 extension keys x 21 extension values + 10 extensions values) + 18 objects values; 4 parse variants')
    snapshot = {v: {c: dict(m) for c, m in cats.items()} for v, cats in registry.STIX2_OBJ_MAPS.items()}
    junk = JUNK if chk.tier == 'thorough' else JUNK_QUICK

    def attempt(fn, what):
        try:
            fn()
        except Exception as ex:     # noqa
            if not family_ok(ex):
                return (f'escape#{type(ex).__name__}', f'{what}: {type(ex).__name__}: {str(ex)[:120]}', {'exception': type(ex).__name__})
        return None

    def fault_cases():
        for ver in ('2.0', '2.1'):
            for label, cat, d in corpus(ver, chk.tier):
                sl = list(slots(d))
                for path, old in sl:
                    for jv in junk:
                        if type(jv) is type(old) and jv == old: continue
                        yield (label, cat, path, jv, d)
                for key in ('custom_properties', 'extensions', 'granular_markings', 'x_new'):
                    if key not in d:
                        for jv in junk: yield (label, cat, (key,), jv, d)
                if label.endswith(':minimal'):
                    for key in ('', ' ', '7', 'x', 'ü', 'A', '_', 'a' * 300, 'x-y', 'a b', '\n'):      # junk property NAMES (legal JSON keys)
                        yield (label, cat, (key,), 1, d)

    def check_fault(case):
        label, cat, path, jv, d = case
        bad = put(d, path, jv)
        ver = label[:3]
        for ac in (False, True):
            if cat == 'observables' and ver == '2.0':
                r = attempt(lambda: stix2.parse_observable(bad, _valid_refs={'0': 'file'}, allow_custom=ac, version='2.0'), f'parse_observable({label} with {path}={jv!r}, allow_custom={ac})')
            else:
                r = attempt(lambda: stix2.parse(bad, allow_custom=ac), f'parse({label} with {"/".join(map(str, path))}={jv!r}, allow_custom={ac})')
            if r: return (r[0], r[1], dict(r[2], input=bad))
            if chk.tier == 'quick' and not (len(path) == 1 and path[0] not in d): break      # new keys are also tried with customisation allowed
        return None
    cases = list(fault_cases())
    if chk.tier == 'quick' and len(cases) > 40000:
        chk.rng.shuffle(cases); cases = cases[:40000]
    chk.bounded('fault enumeration: one slot replaced by a wrong-kind value', cases, check_fault,
                classify=lambda c: (c[0].split(':')[2] if c[0].count(':') > 2 else c[0], len(c[2]), type(c[3]).__name__),
                bound=f'every parseable type of both versions (minimal and all-optional form) x every slot to depth 3 x {len(junk)} junk values' + (' (random 40000-case subset, strict mode only, in the quick tier)' if chk.tier == 'quick' else ' x both custom modes'))

    def whole_inputs():
        for jv in JUNK + ['{', '[]', '5', 'null', '"type"', '{"type": 5}', '{"type": []}', '{"type": {}}', '{"type": "bundle"}', '{"type": "bundle", "objects": 5}',
                          '{"type": "bundle", "id": "bundle--1", "objects": [5, null, {}]}', '{"type": "identity", "id": 5}', '{"type": "identity", "spec_version": 2.1, "id": "x"}',
                          '{"type": "identity", "spec_version": [], "id": "x"}', '{"type": "x", "extensions": {"extension-definition--1": 5}}', b'{"type": "x"}', 5.5, ('type',)]:
            yield jv

    def check_whole(jv):
        for fn, nm in ((lambda: stix2.parse(jv), 'parse'), (lambda: stix2.parse(jv, allow_custom=True), 'parse(allow_custom)'),
                       (lambda: stix2.parse(jv, version='2.1'), 'parse(version=2.1)'), (lambda: stix2.parse_observable(jv), 'parse_observable'),
                       (lambda: stix2.parse_observable(jv, version='2.0', allow_custom=True), 'parse_observable(2.0, allow_custom)')):
            r = attempt(fn, f'{nm}({jv!r})')
            if r: return (r[0], r[1], dict(r[2], input=repr(jv)))
    chk.bounded('whole-input junk', list(whole_inputs()), check_whole, classify=repr, bound='JSON scalars, arrays, malformed text and minimal dictionaries as the whole input, 5 entry-point variants')

    # ---- selectors: well-formed granular-marking selectors that step through scalars, lists and absent properties (validated across properties, after cleaning)
    from props.C08 import shapes as sel_shapes, near_misses as sel_near_misses, TLP as SEL_TLP
    from props.C03 import selectors_of

    def selector_cases():
        for name, d in sel_shapes().items():
            sels = sorted(set(sel_near_misses(d)) | {p for p, _ in selectors_of(d)})
            for sel in sels: yield (name, sel)
            yield (name, [sels[0], 5]); yield (name, None); yield (name, {'a': 1})

    def check_selector(case):
        name, sel = case
        d = sel_shapes()[name]
        gm = [{'marking_ref': SEL_TLP, 'selectors': sel if isinstance(sel, list) else [sel]}] if sel is not None and not isinstance(sel, dict) else [{'marking_ref': SEL_TLP, 'selectors': sel}]
        x = dict(copy.deepcopy(d), granular_markings=gm)
        cls = type(stix2.parse(copy.deepcopy(d), allow_custom=True))
        for fn, nm in ((lambda: stix2.parse(copy.deepcopy(x)), 'parse'), (lambda: stix2.parse(copy.deepcopy(x), allow_custom=True), 'parse(allow_custom)'),
                       (lambda: cls(**{k: v for k, v in copy.deepcopy(x).items() if k != 'type'}), 'constructor'),
                       (lambda: stix2.markings.add_markings(copy.deepcopy(d), SEL_TLP, sel if isinstance(sel, list) else [sel]), 'add_markings(dict)'),
                       (lambda: stix2.markings.is_marked(stix2.parse(copy.deepcopy(d)), SEL_TLP, sel if isinstance(sel, list) else [sel]), 'is_marked(object)')):
            r = attempt(fn, f'{nm} of {name} with selector {sel!r}')
            if r: return (r[0] + ':selector', r[1], dict(r[2], selector=repr(sel)))
    chk.bounded('granular-marking selectors of every shape', list(selector_cases()), check_selector, classify=lambda c: (c[0], repr(c[1])),
                bound='7 object shapes x (every existing path + near misses: absent key, one step too deep through a string / number / dictionary / list, index past the end, prefixes) x parse / constructor / marking functions')

    # ---- deep nesting: JSON-decodable input whose nesting approaches the interpreter's stack limit (RecursionError must not escape)
    U = G.UUID; EXTID = 'extension-definition--9c59fd79-4215-4ba2-920d-3e4f320e1e62'
    TS = '"created": "2015-12-21T19:59:11.000Z", "modified": "2015-12-21T19:59:11.000Z"'
    arr = lambda n: '[' * n + '1' + ']' * n
    objn = lambda n: '{"k": ' * n + '1' + '}' * n
    ident = lambda extra: '{"type": "identity", "spec_version": "2.1", "id": "identity--%s", %s, "name": "n"%s}' % (U, TS, extra)
    NEST_SITES = {
        'whole input: nested arrays': arr, 'whole input: nested objects': objn,
        'bundle in bundle': lambda n: ('{"type": "bundle", "id": "bundle--%s", "objects": [' % U) * n + ident('') + ']}' * n,
        'custom property: nested arrays': lambda n: ident(', "x_c": ' + arr(n)), 'custom property: nested objects': lambda n: ident(', "x_c": ' + objn(n)),
        'file without id: extension-definition content': lambda n: '{"type": "file", "spec_version": "2.1", "name": "a", "extensions": {"%s": {"extension_type": "property-extension", "blob": %s}}}' % (EXTID, arr(n)),
        'file with id: extension-definition content': lambda n: '{"type": "file", "spec_version": "2.1", "id": "file--%s", "name": "a", "extensions": {"%s": {"extension_type": "property-extension", "blob": %s}}}' % (U, EXTID, objn(n)),
        'identity with granular markings and nested extension content': lambda n: ident(', "granular_markings": [{"marking_ref": "marking-definition--613f2e26-407d-48c7-9eca-b8e91df99dc9", "selectors": ["name"]}], "extensions": {"%s": {"extension_type": "property-extension", "blob": %s}}' % (EXTID, objn(n))),
        'indicator pattern: nested parentheses': lambda n: json.dumps({'type': 'indicator', 'spec_version': '2.1', 'id': 'indicator--' + U, 'created': G.T1, 'modified': G.T1, 'pattern': '[' + '(' * n + 'a:b = 1' + ')' * n + ']', 'pattern_type': 'stix', 'valid_from': G.T1}),
        'indicator pattern (2.0): nested parentheses': lambda n: json.dumps({'type': 'indicator', 'id': 'indicator--' + U, 'created': G.T1, 'modified': G.T1, 'pattern': '[' + '(' * n + 'a:b = 1' + ')' * n + ']', 'labels': ['l'], 'valid_from': G.T1}),
        'string property: nested arrays': lambda n: '{"type": "identity", "spec_version": "2.1", "id": "identity--%s", %s, "name": %s}' % (U, TS, arr(n)),
        'list property: nested arrays': lambda n: ident(', "labels": ' + arr(n)), 'embedded object: nested arrays': lambda n: ident(', "external_references": [{"source_name": %s}]' % arr(n)),
        'extensions value: nested objects': lambda n: '{"type": "file", "spec_version": "2.1", "id": "file--%s", "name": "a", "extensions": %s}' % (U, objn(n)),
        'registered extension content: nested arrays': lambda n: '{"type": "file", "spec_version": "2.1", "id": "file--%s", "name": "a", "extensions": {"ntfs-ext": {"sid": %s}}}' % (U, arr(n)),
        'observed-data (2.0) member dictionary property: nested objects': lambda n: '{"type": "observed-data", "id": "observed-data--%s", %s, "first_observed": "2015-12-21T19:59:11.000Z", "last_observed": "2015-12-21T19:59:11.000Z", "number_observed": 1, "objects": {"0": {"type": "email-message", "is_multipart": false, "additional_header_fields": {"X": %s}}}}' % (U, TS, objn(n)),
        'selector list: nested arrays': lambda n: ident(', "granular_markings": [{"marking_ref": "marking-definition--613f2e26-407d-48c7-9eca-b8e91df99dc9", "selectors": %s}]' % arr(n)),
    }
    depths = (100, 200, 300, 400, 450, 500, 600, 700, 800, 950, 1100, 1200, 1300, 1400, 1450) if chk.tier == 'thorough' else (150, 300, 450, 600, 750, 950, 1200, 1400)

    def nest_cases():
        for site in NEST_SITES:
            for n in depths: yield (site, n)

    def check_nest(case):
        site, n = case
        text = NEST_SITES[site](n)
        try: value = json.loads(text)
        except RecursionError: return None             # not JSON-decodable on this interpreter: outside the property
        routes = [(lambda: stix2.parse(text), 'parse(text)'), (lambda: stix2.parse(text, allow_custom=True), 'parse(text, allow_custom)'), (lambda: stix2.parse(value, allow_custom=True), 'parse(dict, allow_custom)')]
        if isinstance(value, dict) and isinstance(value.get('type'), str):
            cls = registry.class_for_type(value['type'], '2.1' if value.get('spec_version') == '2.1' or value['type'] == 'bundle' else '2.0')
            if cls is not None:
                kw = {k: v for k, v in value.items() if k != 'type'}
                routes.append((lambda: cls(allow_custom=True, **kw), f'{cls.__name__}(**dict, allow_custom)')); routes.append((lambda: cls(**kw), f'{cls.__name__}(**dict)'))
        for fn, nm in routes:
            try: fn()
            except Exception as ex:      # noqa
                if not family_ok(ex): return (f'escape#{type(ex).__name__}:deep nesting:{site}', f'{nm} of {site} at nesting depth {n}: {type(ex).__name__}: {str(ex)[:80]}', {'site': site, 'depth': n, 'route': nm})
            except RecursionError as ex:
                return (f'escape#RecursionError:deep nesting:{site}', f'{nm} of {site} at nesting depth {n}: RecursionError', {'site': site, 'depth': n, 'route': nm})
    chk.bounded('deep nesting (JSON-decodable, near the stack limit)', list(nest_cases()), check_nest, classify=lambda c: c,
                bound=f'{len(NEST_SITES)} nesting sites x depths {depths} x parse (text / dictionary, both custom modes) and the class constructors')

    def ctor_cases():
        for ver in ('2.0', '2.1'):
            for cname, (cat, cls) in sorted(G.classes(ver).items()):
                base = G.minimal(cls, ver)
                for pname in list(cls._properties)[:40]:
                    for jv in junk[:6]:
                        yield (f'{ver}:{cname}', cat, cls, ver, pname, jv, base)

    def check_ctor(case):
        name, cat, cls, ver, pname, jv, base = case
        kw = G.ctor_kwargs(cls, cat, ver, dict(base, **{pname: jv}))
        r = attempt(lambda: cls(**kw), f'{name}({pname}={jv!r})')
        if r: return (r[0], r[1], dict(r[2], kwargs=repr(kw)))
    cc = list(ctor_cases())
    if chk.tier == 'quick':
        # the sample always contains the numeric extremes on every property of the 2.1 observables (their identifiers are derived from the values, outside the per-property error wrapping)
        must = [c for c in cc if c[3] == '2.1' and c[1] == 'observables' and isinstance(c[5], int) and not isinstance(c[5], bool) and abs(c[5]) > 2**64]
        chk.rng.shuffle(cc); cc = must + cc[:8000]
    def id_less_cases():
        EXTD = 'extension-definition--' + G.UUID2
        for cname, (cat, cls) in sorted(G.classes('2.1').items()):
            if cat != 'observables': continue
            base = {k: v for k, v in G.minimal(cls, '2.1').items() if k != 'id'}
            for jv in (10**400, -10**400, float('inf'), float('nan'), 2**70, [10**400], {'n': 10**400}):
                for pname in cls._id_contributing_properties:
                    yield (cname, cls, dict(base, **{pname: jv}), f'{pname}={str(jv)[:12]}')
                if 'extensions' in cls._properties: yield (cname, cls, dict(base, extensions={EXTD: {'extension_type': 'property-extension', 'n': jv}}), f'extension content {str(jv)[:12]}')
    def check_id_less(case):
        cname, cls, kw, what = case
        d = dict({'type': cname.split(':')[1], 'spec_version': '2.1'}, **kw)
        for fn, nm in ((lambda: cls(**copy.deepcopy(kw)), 'constructor'), (lambda: cls(allow_custom=True, **copy.deepcopy(kw)), 'constructor(allow_custom)'), (lambda: stix2.parse(copy.deepcopy(d)), 'parse'),
                       (lambda: stix2.parse_observable(copy.deepcopy(d), version='2.1', allow_custom=True), 'parse_observable(allow_custom)')):
            r = attempt(fn, f'{nm} of {cname} without id, {what}')
            if r: return (r[0] + ':identifier derivation', r[1], dict(r[2], kwargs=repr(kw)[:300]))
    chk.bounded('2.1 observables without id: numeric extremes in identifier-contributing values', list(id_less_cases()), check_id_less, classify=lambda c: (c[0], c[3]),
                bound='every 2.1 observable type x every identifier-contributing property (and unregistered extension content) x 7 extreme values x constructor / parse / parse_observable')
    chk.bounded('constructors (incl. embedded and extension classes): one property replaced by a wrong-kind value', cc, check_ctor,
                classify=lambda c: (c[0], c[4]), bound='every class of both versions x every property x 6 junk values' + (' (8000-case subset)' if chk.tier == 'quick' else ''))
    now = {v: {c: dict(m) for c, m in cats.items()} for v, cats in registry.STIX2_OBJ_MAPS.items()}
    if now != snapshot:
        chk.violation('registry#unchanged after failed constructions', 'type registries differ from their snapshot after the fault enumeration', {})
    # a failed add leaves a store unchanged
    ms = stix2.MemoryStore()
    good = {'type': 'identity', 'spec_version': '2.1', 'id': 'identity--' + G.UUID, 'created': G.T1, 'modified': G.T1, 'name': 'n'}
    ms.add(good)
    before = {k: (v.all_versions.copy() if hasattr(v, 'all_versions') else v) for k, v in ms._data.items()}
    for bad in ([good, {'type': 'identity', 'spec_version': '2.1', 'id': 'identity--bad'}], {'type': 'bundle', 'id': 'bundle--' + G.UUID, 'objects': [dict(good, name=5)]}):
        try: ms.add(bad)
        except Exception as ex:
            if not family_ok(ex) and not isinstance(ex, (KeyError,)): chk.violation(f'escape#store:{type(ex).__name__}', f'MemoryStore.add junk: {ex!r}', {})
    after = {k: (v.all_versions.copy() if hasattr(v, 'all_versions') else v) for k, v in ms._data.items()}
    chk.extra['store_after_failed_add'] = 'unchanged' if set(before) == set(after) else f'keys changed: {sorted(set(after) - set(before))}'
