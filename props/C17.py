"""C17 -- bad input is reported only through the library's error family (proved raw-input functions + fault enumeration)."""
import copy, itertools, json
import z3
from vf.pyvc.lib import REG
from vf.pyvc.jsonmodel import concretize, string_constants, model_strings
from vf.check import Replay
from vf import objgen as G
from contracts import parsing as K

LEVEL = 'other'
JUNK = [None, True, False, 0, -1, 2**70, 1.5, '', 'x', 'a' * 300, [], [None], [[]], [{}], ['x', 1], {}, {'a': None}, {'type': 'x'}, {'': {'': []}}, [{'a': [{'b': None}]}]]
JUNK_QUICK = [None, False, 0, 1.5, '', 'x', [], [{}], {}, {'a': None}]


def family_ok(ex):
    import stix2.exceptions as X
    return isinstance(ex, (X.STIXError, ValueError, TypeError))


def j_replay(fn_name):
    """replay of a J-sorted counterexample: concretise the model to a JSON value, call the real function, compare the exception class"""
    def lower_z3(model, ob):
        keys = string_constants(ob.pc + [ob.claim]) | {'type', 'id', 'objects', 'extensions', 'spec_version'} | model_strings(model, ob.pc)
        from vf.pyvc.engine import J
        root = z3.Const('stix_dict', J)
        return {'stix_dict': concretize(model, root, keys)}

    def call(py):
        import stix2.parsing, stix2.utils
        if fn_name == 'detect_spec_version': return stix2.utils.detect_spec_version(py['stix_dict'])
        return stix2.parsing.dict_to_stix2(py['stix_dict'])

    def judge(py, outcome, ob):
        if outcome[0] == 'raise' and not family_ok(outcome[1]): return [f'escaped {type(outcome[1]).__name__}: {outcome[1]}']
        return []
    return Replay(call=call, lower_z3=lower_z3, judge=judge)


def init_replay():
    """replay for the __init__ region contract: self is abstract in the proof (its property table is an uninterpreted set), so the concretised keyword
    dictionary is tried on a few real classes; if none reproduces the escape the violation is reported without an input (not as a checker fault)"""
    def candidates(is20):
        import stix2
        return [stix2.v20.Identity, stix2.v20.File] if is20 else [stix2.v21.Identity, stix2.v21.File, stix2.v21.Bundle, stix2.v21.NTFSExt]

    def lower_z3(model, ob):
        from vf.pyvc.engine import J
        keys = string_constants(ob.pc + [ob.claim]) | {'custom_properties', 'extensions', 'extension_type'} | model_strings(model, ob.pc)
        kw = concretize(model, z3.Const('kwargs', J), keys)
        if not isinstance(kw, dict): kw = {}
        ac = bool(model.eval(z3.Bool('allow_custom'), model_completion=True)); is20 = bool(model.eval(z3.Bool('isinstance(self, _STIXBase20)'), model_completion=True))
        for cls in candidates(is20):
            for allow in (ac, not ac):
                try: cls(allow_custom=allow, **copy.deepcopy(kw))
                except Exception as ex:        # noqa
                    if not family_ok(ex): return {'cls': cls, 'allow_custom': allow, 'kwargs': kw}
        raise RuntimeError('the model depends on the abstract property table; no concrete class reproduces it')

    def call(py): return py['cls'](allow_custom=py['allow_custom'], **copy.deepcopy(py['kwargs']))

    def judge(py, outcome, ob):
        if outcome[0] == 'raise' and not family_ok(outcome[1]): return [f'escaped {type(outcome[1]).__name__}: {outcome[1]}']
        return []
    return Replay(call=call, lower_z3=lower_z3, judge=judge)


def slots(d, path=()):
    """every (path, value) slot of a JSON value, depth-limited"""
    if isinstance(d, dict):
        for k, v in d.items():
            yield path + (k,), v
            if len(path) < 3: yield from slots(v, path + (k,))
    elif isinstance(d, list):
        for i, v in enumerate(d[:2]):
            yield path + (i,), v
            if len(path) < 3: yield from slots(v, path + (i,))


def put(d, path, value):
    d = copy.deepcopy(d); cur = d
    for k in path[:-1]: cur = cur[k]
    cur[path[-1]] = value
    return d


def corpus(ver, tier):
    """valid JSON objects of every parseable type"""
    out = []
    for label, cat, cls, kw in G.variants(ver, alts=(0,), with_all=True):
        if cat not in ('objects', 'observables'): continue
        if not (label.endswith(':minimal') or label.endswith(':all-optional')): continue
        try:
            o = G.build(label, cat, cls, kw, ver)
            out.append((label, cat, json.loads(o.serialize())))
        except Exception:
            continue
    return out


def run(chk):
    import stix2, stix2.exceptions as X
    from stix2 import registry
    chk.registry = REG
    chk.explanation = ('P: utils.detect_spec_version, parsing.dict_to_stix2 and parsing.parse are verified with the input of sort J (an arbitrary JSON '
                       'value, any nesting): every subscript, attribute/method access, membership test and iteration on raw input is an obligation site, '
                       'and no path lets KeyError/AttributeError/IndexError escape (raises subset of STIXError | ValueError | TypeError); the same for the part '
                       'of _STIXBase.__init__ that inspects the raw keyword dictionary before property cleaning (custom_properties, the extensions scan, '
                       'custom property naming; region contract cut at the property loop, self abstracted to an arbitrary property-name set); callee '
                       'preconditions (recursive detect call, registry lookup, constructor) are call-site obligations.  B (fault enumeration): every '
                       'parseable type of both versions x every JSON slot down to depth 3 x wrong-kind values, through stix2.parse in both custom modes, '
                       'parse_observable and constructors; whole-input scalars and text; registries compared with their snapshot.')
    chk.assume('termination / RecursionError on adversarially deep nesting is not decided (neither by PyVC nor by the depth-3 bound)',
               'the class constructors raise only Family errors: checked by the fault enumeration (B), not proved')
    c1 = K._fix_detect(K.detect_contract()); c1.replay = j_replay('detect_spec_version')
    c2 = K.dict_to_stix2_contract(); c2.replay = j_replay('dict_to_stix2')
    c3 = K.parse_contract()
    c4 = K.init_prefix_contract(); c4.replay = init_replay()
    for c in (c1, c2, c3, c4):
        chk.prove(c); chk.canary(c)
    # ---- structured inputs around the raw-input code of dict_to_stix2 / detect_spec_version (every branch of the proved functions, natively): unknown and known
    # types x extensions of every shape x extension_type of every JSON kind; bundles whose members have every shape
    def raw_inputs():
        U = G.UUID
        for typ in ('x-unknown-type', 'identity', 'file', 'bundle', 'marking-definition', 5, None, [], {}):
            base = {'type': typ, 'id': (typ if isinstance(typ, str) else 'x') + '--' + U}
            for sv in (None, '2.1', '2.0', 5, []):
                b = dict(base, **({'spec_version': sv} if sv is not None else {}))
                yield b
                for ek in ('extension-definition--' + U, 'extension-definition--', 'x-ext', 'ntfs-ext', ''):
                    for ev in JUNK_QUICK + [{'extension_type': et} for et in (None, 5, 1.5, True, [], {}, '', 'property-extension', 'new-sdo', 'toplevel-property-extension', ['property-extension'])]:
                        yield dict(b, extensions={ek: ev})
                for exts in JUNK_QUICK: yield dict(b, extensions=exts)
            for objs in JUNK_QUICK + [[5], [None], [{}], [{'type': 5}], [{'type': 'identity'}], [[{}]], [{'type': 'bundle', 'objects': [{}]}], [{'type': 'x', 'spec_version': '9.9'}]]:
                yield dict(base, objects=objs)

    def check_raw(w):
        for fn, nm in ((lambda: stix2.parse(copy.deepcopy(w)), 'parse'), (lambda: stix2.parse(copy.deepcopy(w), allow_custom=True), 'parse(allow_custom)'),
                       (lambda: stix2.parse(copy.deepcopy(w), version='2.1'), 'parse(version=2.1)'), (lambda: stix2.parse(copy.deepcopy(w), version='2.0', allow_custom=True), 'parse(version=2.0, allow_custom)')):
            try: fn()
            except Exception as ex:      # noqa
                if not family_ok(ex): return (f'escape#{type(ex).__name__}', f'{nm}({json.dumps(w)[:170]}): {type(ex).__name__}: {str(ex)[:100]}', {'input': w})
    chk.bounded('structured raw inputs around type / spec_version / extensions / objects', list(raw_inputs()), check_raw, classify=lambda w: json.dumps(w, sort_keys=True, default=str)[:120],
                bound='9 type values x 5 spec_version values x (5 extension keys x 21 extension values + 10 extensions values) + 18 objects values; 4 parse variants')
    snapshot = {v: {c: dict(m) for c, m in cats.items()} for v, cats in registry.STIX2_OBJ_MAPS.items()}
    junk = JUNK if chk.tier == 'thorough' else JUNK_QUICK

    def attempt(fn, what):
        try:
            fn()
        except Exception as ex:     # noqa
            if not family_ok(ex):
                return (f'escape#{type(ex).__name__}', f'{what}: {type(ex).__name__}: {str(ex)[:120]}', {'exception': type(ex).__name__})
        return None

    def fault_cases():
        for ver in ('2.0', '2.1'):
            for label, cat, d in corpus(ver, chk.tier):
                sl = list(slots(d))
                for path, old in sl:
                    for jv in junk:
                        if type(jv) is type(old) and jv == old: continue
                        yield (label, cat, path, jv, d)
                for key in ('custom_properties', 'extensions', 'granular_markings', 'x_new'):
                    if key not in d:
                        for jv in junk: yield (label, cat, (key,), jv, d)
                if label.endswith(':minimal'):
                    for key in ('', ' ', '7', 'x', 'ü', 'A', '_', 'a' * 300, 'x-y', 'a b', '\n'):      # junk property NAMES (legal JSON keys)
                        yield (label, cat, (key,), 1, d)

    def check_fault(case):
        label, cat, path, jv, d = case
        bad = put(d, path, jv)
        ver = label[:3]
        for ac in (False, True):
            if cat == 'observables' and ver == '2.0':
                r = attempt(lambda: stix2.parse_observable(bad, _valid_refs={'0': 'file'}, allow_custom=ac, version='2.0'), f'parse_observable({label} with {path}={jv!r}, allow_custom={ac})')
            else:
                r = attempt(lambda: stix2.parse(bad, allow_custom=ac), f'parse({label} with {"/".join(map(str, path))}={jv!r}, allow_custom={ac})')
            if r: return (r[0], r[1], dict(r[2], input=bad))
            if chk.tier == 'quick' and not (len(path) == 1 and path[0] not in d): break      # new keys are also tried with customisation allowed
        return None
    cases = list(fault_cases())
    if chk.tier == 'quick' and len(cases) > 40000:
        chk.rng.shuffle(cases); cases = cases[:40000]
    chk.bounded('fault enumeration: one slot replaced by a wrong-kind value', cases, check_fault,
                classify=lambda c: (c[0].split(':')[2] if c[0].count(':') > 2 else c[0], len(c[2]), type(c[3]).__name__),
                bound=f'every parseable type of both versions (minimal and all-optional form) x every slot to depth 3 x {len(junk)} junk values' + (' (random 40000-case subset, strict mode only, in the quick tier)' if chk.tier == 'quick' else ' x both custom modes'))

    def whole_inputs():
        for jv in JUNK + ['{', '[]', '5', 'null', '"type"', '{"type": 5}', '{"type": []}', '{"type": {}}', '{"type": "bundle"}', '{"type": "bundle", "objects": 5}',
                          '{"type": "bundle", "id": "bundle--1", "objects": [5, null, {}]}', '{"type": "identity", "id": 5}', '{"type": "identity", "spec_version": 2.1, "id": "x"}',
                          '{"type": "identity", "spec_version": [], "id": "x"}', '{"type": "x", "extensions": {"extension-definition--1": 5}}', b'{"type": "x"}', 5.5, ('type',)]:
            yield jv

    def check_whole(jv):
        for fn, nm in ((lambda: stix2.parse(jv), 'parse'), (lambda: stix2.parse(jv, allow_custom=True), 'parse(allow_custom)'),
                       (lambda: stix2.parse(jv, version='2.1'), 'parse(version=2.1)'), (lambda: stix2.parse_observable(jv), 'parse_observable'),
                       (lambda: stix2.parse_observable(jv, version='2.0', allow_custom=True), 'parse_observable(2.0, allow_custom)')):
            r = attempt(fn, f'{nm}({jv!r})')
            if r: return (r[0], r[1], dict(r[2], input=repr(jv)))
    chk.bounded('whole-input junk', list(whole_inputs()), check_whole, classify=repr, bound='JSON scalars, arrays, malformed text and minimal dictionaries as the whole input, 5 entry-point variants')

    def ctor_cases():
        for ver in ('2.0', '2.1'):
            for cname, (cat, cls) in sorted(G.classes(ver).items()):
                base = G.minimal(cls, ver)
                for pname in list(cls._properties)[:40]:
                    for jv in junk[:6]:
                        yield (f'{ver}:{cname}', cat, cls, ver, pname, jv, base)

    def check_ctor(case):
        name, cat, cls, ver, pname, jv, base = case
        kw = G.ctor_kwargs(cls, cat, ver, dict(base, **{pname: jv}))
        r = attempt(lambda: cls(**kw), f'{name}({pname}={jv!r})')
        if r: return (r[0], r[1], dict(r[2], kwargs=repr(kw)))
    cc = list(ctor_cases())
    if chk.tier == 'quick': chk.rng.shuffle(cc); cc = cc[:8000]
    chk.bounded('constructors (incl. embedded and extension classes): one property replaced by a wrong-kind value', cc, check_ctor,
                classify=lambda c: (c[0], c[4]), bound='every class of both versions x every property x 6 junk values' + (' (8000-case subset)' if chk.tier == 'quick' else ''))
    now = {v: {c: dict(m) for c, m in cats.items()} for v, cats in registry.STIX2_OBJ_MAPS.items()}
    if now != snapshot:
        chk.violation('registry#unchanged after failed constructions', 'type registries differ from their snapshot after the fault enumeration', {})
    # a failed add leaves a store unchanged
    ms = stix2.MemoryStore()
    good = {'type': 'identity', 'spec_version': '2.1', 'id': 'identity--' + G.UUID, 'created': G.T1, 'modified': G.T1, 'name': 'n'}
    ms.add(good)
    before = {k: (v.all_versions.copy() if hasattr(v, 'all_versions') else v) for k, v in ms._data.items()}
    for bad in ([good, {'type': 'identity', 'spec_version': '2.1', 'id': 'identity--bad'}], {'type': 'bundle', 'id': 'bundle--' + G.UUID, 'objects': [dict(good, name=5)]}):
        try: ms.add(bad)
        except Exception as ex:
            if not family_ok(ex) and not isinstance(ex, (KeyError,)): chk.violation(f'escape#store:{type(ex).__name__}', f'MemoryStore.add junk: {ex!r}', {})
    after = {k: (v.all_versions.copy() if hasattr(v, 'all_versions') else v) for k, v in ms._data.items()}
    chk.extra['store_after_failed_add'] = 'unchanged' if set(before) == set(after) else f'keys changed: {sorted(set(after) - set(before))}'
