"""C06 -- STIX 2.1 observable identifiers are deterministic and specification-exact."""
import copy, hashlib, itertools, json, os, subprocess, sys, uuid
import z3
from vf.pyvc.lib import REG
from vf import objgen as G, tables as T
from vf.callsites import purity_obligations
from vf.check import SRC_ROOT
from contracts import observables as K, timefmt as KT
from spec.rfc8785 import canon

LEVEL = 'other'
NAMESPACE = '00abedb4-aa42-466c-9c01-fed23315a9b7'      # STIX 2.1 section 2.9: the namespace for deterministic SCO identifiers
# identifier-contributing properties per STIX 2.1 section 6 (frozen; the library's lists are compared with the frozen tables in C02's table invariant as well)
HASH_ORDER = ['MD5', 'SHA-1', 'SHA-256', 'SHA-512']


def uuid5(ns, name):
    h = hashlib.sha1(uuid.UUID(ns).bytes + name.encode('utf-8')).digest()
    b = bytearray(h[:16]); b[6] = (b[6] & 0x0F) | 0x50; b[8] = (b[8] & 0x3F) | 0x80
    x = b.hex()
    return f'{x[:8]}-{x[8:12]}-{x[12:16]}-{x[16:20]}-{x[20:]}'


def spec_id(d, contributing):
    """independent recomputation from the emitted JSON: canonical JSON (own RFC 8785) of exactly the contributing properties present"""
    obj = {}
    for k in contributing:
        if k in d:
            v = d[k]
            if k == 'hashes':
                pick = next((h for h in HASH_ORDER if h in v), None) or next(iter(v))
                v = {pick: v[pick]}
            obj[k] = v
    if not obj: return None
    return d['type'] + '--' + uuid5(NAMESPACE, canon(obj))


def run(chk):
    import stix2
    from stix2 import registry
    chk.registry = REG
    chk.explanation = ('P: _choose_one_hash returns exactly one entry chosen in the order MD5, SHA-1, SHA-256, SHA-512, else the first key, None iff empty (JSON-dictionary sort); '
                       'the 2.1 observable constructor replaces the id iff none was given and one could be generated, by exactly the generated value; _generate_id, '
                       '_make_json_serializable and canonicalize read no mutable module state.  Table invariant: every _id_contributing_properties list == frozen model '
                       '(exhaustive).  B: for every 2.1 SCO type (and a registered custom observable) x generator variants x value classes (JSON escapes, timestamps, '
                       'integers incl. 0, floats in extensions, reference lists): the id of the constructed and of the re-parsed object equals an independent recomputation '
                       '(own RFC 8785 canonicalizer + SHA-1); equal contributing values => equal ids across argument orders, dictionary orders, non-contributing changes and '
                       'a fresh process, and after new_version / revoke were applied to observables of every type (contributing lists unchanged); floats of every decade class '
                       'in dictionary values and extension content; different contributing values => different ids; no contributing property => a random UUIDv4.')
    chk.trust('frozen id-contributing lists in spec/tables_v21.json', 'SHA-1 collision freedom for "different values give different ids"')
    for c in (K.choose_one_hash_contract(), K.observable_init_contract()):
        chk.prove(c); chk.canary(c)
    # functions the identifier depends on indirectly, under the contracts they have in their own properties: the text a timestamp value is written as (C15) and the
    # cleaner that decides the spelling of hash names entering the canonical JSON (C04: no state across calls, the caller's spelling per call)
    from contracts import cleaners as KCL
    for c in (KT.format_datetime_contract(True), KCL.hashes_clean_contract()):
        chk.prove(c); chk.canary(c)
    for k in ('str', 'datetime', 'stixdatetime'): chk.prove(KT.parse_contract(k))        # timestamp values among the contributing properties: one instant, one id, whatever kind of value carried it
    for ob in purity_obligations(SRC_ROOT, ['stix2/base.py::_Observable._generate_id', 'stix2/base.py::_choose_one_hash', 'stix2/base.py::_make_json_serializable',
                                            'stix2/canonicalization/Canonicalize.py::canonicalize', 'stix2/canonicalization/NumberToJson.py::convert2Es6Format'], allow=('_JSON_ESCAPE_MAP',)):
        chk.lemmas.append(ob)
        if ob.result != 'discharged': chk.violation('frame#' + ob.clause.split('::')[1].split(':')[0], 'frame obligation fails: ' + ob.clause, {}, no_input=True)
    # the canonical JSON the identifier is derived from: the contracts of the canonicalizer (shared with C16) are obligations of this property too
    from contracts import canonical as KC
    for part, fn in (('number contract', lambda: KC.run_number_contract(chk, chk.tier, SRC_ROOT)), ('per-character obligations', lambda: KC.string_obligations(chk)),
                     ('encoder call-site obligations', lambda: KC.structure_obligations(chk, SRC_ROOT))):
        try: fn()
        except Exception as ex:          # the harness of an obligation family does not fit the current source (a name it reads was removed or renamed): undecided, never a fault or a violation
            chk.undecided_notes.append(f'canonicalization {part}: not applicable to the current source ({type(ex).__name__}: {ex})')
    if str(stix2.base.SCO_DET_ID_NAMESPACE) != NAMESPACE:
        chk.violation('namespace#constant', f'SCO_DET_ID_NAMESPACE is {stix2.base.SCO_DET_ID_NAMESPACE}, the specification says {NAMESPACE}', {})
    frozen = T.frozen('2.1')
    for cname, (cat, cls) in sorted(G.classes('2.1').items()):
        if cat == 'observables':
            want = frozen.get(cname, {}).get('id_contributing')
            if list(cls._id_contributing_properties) != want:
                chk.violation(f'table#id-contributing:{cname}', f'{cname}: id-contributing properties {list(cls._id_contributing_properties)} differ from the frozen model {want}', {})
    # a registered custom observable enjoys the same guarantees
    if 'x-vf-sco' not in registry.STIX2_OBJ_MAPS['2.1']['observables']:
        @stix2.v21.CustomObservable('x-vf-sco', [('x_key', stix2.properties.StringProperty()), ('x_num', stix2.properties.IntegerProperty()), ('x_list', stix2.properties.ListProperty(stix2.properties.IntegerProperty)),
                                                 ('x_other', stix2.properties.StringProperty()), ('x_d', stix2.properties.DictionaryProperty(spec_version='2.1'))], id_contrib_props=['x_key', 'x_num', 'x_list', 'x_d'])
        class VFSco(object): pass

    def cases():
        for label, cat, cls, kw in G.variants('2.1', alts=(0, 1, 2)):
            if cat != 'observables': continue
            kw = {k: v for k, v in kw.items() if k != 'id'}        # the property is about observables created without an explicit id
            yield (label, cls, kw)
        C = registry.STIX2_OBJ_MAPS['2.1']['observables']['x-vf-sco']
        for kw in ({'x_key': 'a'}, {'x_key': 'quote " backslash \\ \n   \U0001f600'}, {'x_num': 0}, {'x_num': 10**21}, {'x_num': 2**53 + 1}, {'x_list': [0, 1, 10**22]},
                   {'x_d': {'b': 1.5, 'a': [1e21, 1e-7], 'Z': {'n': 0}}}, {'x_key': 'a', 'x_num': 0, 'x_other': 'o'}, {'x_other': 'only non-contributing'}):
            yield ('2.1:observables:x-vf-sco:' + ','.join(kw), C, kw)
        # floats of every decade class inside contributing values (dictionary values and nested extension content are the places a 2.1 SCO can hold one)
        for f in (1.5e-05, 1.5e-04, 1.25e-06, 9.999e-05, 1e-06, 1e-05, 1.5e-07, 1e-07, 123456.789, 1e20, 1.5e20, 1e21, 1.5e21, 5e-324, 1.7976931348623157e308, -1.5e-05, 0.1, 0.30000000000000004, -0.0, 100.0):
            yield (f'2.1:observables:x-vf-sco:x_d float {f!r}', C, {'x_d': {'f': f}})
        for f in (1.5e-05, 1.5e-04, 7.25, 1e21):
            yield (f'2.1:observables:file:pe section entropy {f!r}', stix2.v21.File, {'name': 'f', 'extensions': {'windows-pebinary-ext': {'pe_type': 'exe', 'sections': [{'name': 's', 'entropy': f}]}}})
        # member names that sort differently by code point and by UTF-16 code unit (astral vs U+E000..U+FFFF), inside contributing extension content
        EXTD = 'extension-definition--' + G.UUID2
        for keys in (('\U00010000', '\ue000'), ('a\U0001f600', 'a\uffff', 'a\ud7ff'), ('\uff5e', '\U00010400z', 'z')):
            yield ('2.1:observables:file:extension member names ' + '/'.join(f'U+{ord(k[-1] if len(k) > 1 and k[0] == "a" else k[0]):X}' for k in keys), stix2.v21.File,
                   {'name': 'f', 'extensions': {EXTD: dict({'extension_type': 'property-extension'}, **{k: i for i, k in enumerate(keys)})}})
        # the same contributing instant handed over as text, as a datetime and as a timestamp object taken from another object (other precision settings): one id
        import datetime as dtm2
        for text in ('2020-01-01T00:00:07Z', '2020-01-01T00:00:07.5Z', '2020-01-01T00:00:07.120Z', '2020-01-01T00:00:07.123456Z'):
            donor21 = stix2.v21.Identity(name='n', created=text, modified=text); donor20 = stix2.v20.Identity(name='n', identity_class='individual', created=text, modified=text)
            ind = stix2.v21.Indicator(pattern="[file:name = 'a']", pattern_type='stix', valid_from=text)
            base = {'protocols': ['tcp'], 'src_ref': 'ipv4-addr--' + G.UUID, 'is_active': False}
            for kind, v in (('text', text), ('datetime', stix2.utils.parse_into_datetime(text).replace()), ('timestamp object of a 2.1 created', donor21.created),
                            ('timestamp object of a 2.0 created', donor20.created), ('timestamp object of a 2.1 valid_from', ind.valid_from)):
                if kind == 'timestamp object of a 2.0 created' and text.endswith('456Z'): continue       # (2.0 created is truncated to the millisecond: another instant)
                yield (f'2.1:observables:network-traffic:start {text} as {kind}', stix2.v21.NetworkTraffic, dict(base, start=v, end=v))
        # contributing values that do not arrive as direct keyword arguments: through the custom_properties keyword, and as declared defaults / fixed values
        yield ('2.1:observables:file:name via custom_properties', stix2.v21.File, {'custom_properties': {'name': 'foo.dll'}})
        yield ('2.1:observables:domain-name:value via custom_properties', stix2.v21.DomainName, {'custom_properties': {'value': 'example.com'}})
        if 'x-vf-sco-dflt' not in registry.STIX2_OBJ_MAPS['2.1']['observables']:
            @stix2.v21.CustomObservable('x-vf-sco-dflt', [('x_kind', stix2.properties.StringProperty(default=lambda: 'k')), ('x_fixed', stix2.properties.StringProperty(fixed='f')),
                                                          ('x_v', stix2.properties.IntegerProperty())], id_contrib_props=['x_kind', 'x_fixed'])
            class VFScoD(object): pass
        CD = registry.STIX2_OBJ_MAPS['2.1']['observables']['x-vf-sco-dflt']
        yield ('2.1:observables:x-vf-sco-dflt:defaults only', CD, {'x_v': 1}); yield ('2.1:observables:x-vf-sco-dflt:nothing given', CD, {})
        yield ('2.1:observables:x-vf-sco-dflt:default overridden', CD, {'x_kind': 'other'})
        for kw in ({'number': 0}, {'number': 10**21}, {'number': 1, 'name': 'n'}):
            yield ('2.1:observables:autonomous-system:number=' + str(kw['number']), stix2.v21.AutonomousSystem, kw)
        yield ('2.1:observables:network-traffic:src_port=0', stix2.v21.NetworkTraffic, {'protocols': ['tcp'], 'src_ref': 'ipv4-addr--' + G.UUID, 'src_port': 0})
        yield ('2.1:observables:file:hashes-custom-first', stix2.v21.File, {'hashes': {'SHA-512': 'a' * 128, 'SHA-256': 'b' * 64}})
        yield ('2.1:observables:file:hashes-ssdeep-only', stix2.v21.File, {'hashes': {'SSDEEP': 'abc', 'TLSH': 'a' * 70}})
        # custom observables whose identifier-contributing list names a property the decorator supplies itself (extensions, defanged, ...)
        from stix2 import registry as _reg6
        if 'x-vf-c06-contrib' not in _reg6.STIX2_OBJ_MAPS['2.1']['observables']:
            stix2.v21.CustomObservable('x-vf-c06-contrib', [('x_a', stix2.properties.StringProperty())], id_contrib_props=['x_a', 'extensions', 'defanged'])(type('_C06X', (object,), {}))
        XC6 = _reg6.STIX2_OBJ_MAPS['2.1']['observables']['x-vf-c06-contrib']
        for kw6 in ({'x_a': 'v'}, {'extensions': {EXTD: {'extension_type': 'property-extension', 'p': 1}}}, {'extensions': {EXTD: {'extension_type': 'property-extension', 'p': 2}}},
                    {'x_a': 'v', 'extensions': {EXTD: {'extension_type': 'property-extension', 'p': 1}}}, {'x_a': 'v', 'defanged': True}, {'defanged': True}):
            yield ('2.1:observables:x-vf-c06-contrib:' + '+'.join(sorted(kw6)) + ':' + str(kw6.get('extensions', {}).get(EXTD, {}).get('p', '')), XC6, kw6)
        # hash dictionaries: the "one hash" rule applies to the object's own top-level `hashes` only -- every order of the four preferred algorithms there;
        # `hashes` dictionaries nested inside a contributing value (PE sections / optional header, NTFS streams, unregistered extension content) contribute whole
        H4 = {'MD5': 'a' * 32, 'SHA-1': 'b' * 40, 'SHA-256': 'c' * 64, 'SHA-512': 'd' * 128}
        for n in (2, 3, 4):
            for perm in itertools.permutations(H4, n):
                if n == 4 and perm[0] == 'MD5': continue
                yield (f'2.1:observables:file:top-level hashes listed as {"/".join(perm)}', stix2.v21.File, {'hashes': {k: H4[k] for k in perm}})
        yield ('2.1:observables:x509-certificate:hashes listed SHA-256 first', stix2.v21.X509Certificate, {'hashes': {'SHA-256': 'c' * 64, 'MD5': 'a' * 32}})
        for variant, low in (('x', 'c' * 64), ('y', 'e' * 64)):        # two objects that differ only in a lower-priority hash of a nested dictionary
            yield (f'2.1:observables:file:pe section with two hashes ({variant})', stix2.v21.File, {'name': 'f', 'extensions': {'windows-pebinary-ext': {'pe_type': 'exe', 'sections': [{'name': 's', 'hashes': {'MD5': 'a' * 32, 'SHA-256': low}}]}}})
            yield (f'2.1:observables:file:pe optional header with two hashes ({variant})', stix2.v21.File, {'name': 'f', 'extensions': {'windows-pebinary-ext': {'pe_type': 'exe', 'optional_header': {'hashes': {'SHA-1': 'b' * 40, 'SHA-256': low}}}}})
            yield (f'2.1:observables:file:ntfs stream with two hashes ({variant})', stix2.v21.File, {'name': 'f', 'extensions': {'ntfs-ext': {'alternate_data_streams': [{'name': 's', 'hashes': {'SHA-256': low, 'MD5': 'a' * 32}}]}}})
            yield (f'2.1:observables:file:unregistered extension holding a hashes dictionary ({variant})', stix2.v21.File, {'name': 'f', 'extensions': {EXTD: {'extension_type': 'property-extension', 'hashes': {'MD5': 'a' * 32, 'SHA-256': low}}}})

    def check(case):
        label, cls, kw = case
        try: o = cls(**(dict(kw) if ' as timestamp object' in label else copy.deepcopy(kw)))
        except Exception: return None
        d = json.loads(o.serialize(include_optional_defaults=True))          # (a defaulted contributing property is part of the object although the default serialization omits it)
        contributing = list(cls._id_contributing_properties)
        if 'x-vf-c06-contrib' in label:          # a custom type: the contributing properties are those its declaration names (in that order), whoever supplies the property itself
            declared = ['x_a', 'extensions', 'defanged']
            if contributing != declared: return ('id#custom observable: contributing properties are the declared ones', f'{label}: declared id_contrib_props {declared}, the class carries {contributing}', {})
            contributing = declared
        want = spec_id(d, contributing)
        tname = label.split(':')[2]
        if want is None:
            u = uuid.UUID(d['id'].split('--')[1])
            if u.version != 4: return (f'id#random UUIDv4 when nothing contributes:{tname}', f'{label}: no contributing property present but id {d["id"]} is not a UUIDv4', {'kwargs': repr(kw)})
            return None
        if d['id'] != want:
            present = [k for k in contributing if k in d]
            vk = 'falsy' if any(d[k] in (0, '', False) for k in present) else 'bigint' if any(isinstance(d[k], int) and abs(d[k]) > 2**53 for k in present if not isinstance(d[k], bool)) else 'value'
            return (f'id#specification-exact:{tname}:{vk}', f'{label}: id {d["id"]}, independent recomputation {want} from {({k: d[k] for k in present})!r:.160}', {'kwargs': repr(kw), 'serialized': d})
        # deterministic across argument order, serialization round trip, non-contributing changes
        o2 = cls(**dict(reversed(list(copy.deepcopy(kw).items()))))
        if o2['id'] != o['id']: return (f'determinism#argument order:{tname}', f'{label}: ids differ across argument orders', {})
        back = stix2.parse(o.serialize())
        if back['id'] != o['id']: return (f'determinism#serialization round trip:{tname}', f'{label}: re-parsed id {back["id"]} != {o["id"]}', {})
        nd = {k: v for k, v in d.items() if k != 'id'}
        re_gen = stix2.parse(json.dumps(nd))
        if re_gen['id'] != o['id']: return (f'determinism#re-parse without id:{tname}', f'{label}: parsing the same content without id gives {re_gen["id"]} != {o["id"]}', {})
        for k, prop in cls._properties.items():
            if k not in contributing and k not in kw and k not in ('type', 'spec_version', 'id', 'extensions') and isinstance(prop, stix2.properties.BooleanProperty):
                try:
                    o3 = cls(**dict(copy.deepcopy(kw), **{k: True}))
                    if o3['id'] != o['id']: return (f'independence#non-contributing property:{tname}', f'{label}: changing non-contributing {k} changes the id', {})
                except Exception: pass
                break
        return None
    cc = list(cases())
    chk.bounded('ids vs independent recomputation; determinism', cc, check, classify=lambda c: c[0],
                bound='every 2.1 SCO type x generator variants (minimal, each optional, all optional) x 3 value classes + registered custom observable + boundary values (0, 10^21, 2^53+1, escapes)')
    # different contributing values => different ids (pairwise over the corpus, per type)
    by_type = {}
    for label, cls, kw in cc:
        try: o = cls(**copy.deepcopy(kw))
        except Exception: continue
        d = json.loads(o.serialize()); contributing = list(cls._id_contributing_properties)
        key = canon({k: (d[k] if k != 'hashes' else {next((h for h in HASH_ORDER if h in d[k]), None) or next(iter(d[k])): 1} and d[k]) for k in contributing if k in d}) if any(k in d for k in contributing) else None
        if key is not None: by_type.setdefault(d['type'], {}).setdefault(d['id'], set()).add(spec_id(d, contributing))
    # the id stays the identifier of the object's own content when the caller goes on using (and changing) the nested data it handed in
    def poke(v, depth=0):
        """change every nested mutable container in place (the caller re-using its template for the next object)"""
        if isinstance(v, dict):
            for x in list(v.values()): poke(x, depth + 1)
            if depth: v['poked'] = 'p'
        elif isinstance(v, list):
            for x in v: poke(x, depth + 1)
            if depth: v.append('p' if not v or isinstance(v[0], str) else 0 if isinstance(v[0], (int, float)) else copy.deepcopy(v[0]))
    for label, cls, kw in cc:
        if 'x-vf-sco' in label or 'x-vf-c06-contrib' in label or ' as ' in label: continue          # (custom observables keep dictionary-valued custom content by reference: outside this clause, see DESIGN 9.3)
        if not any(isinstance(v, (dict, list)) for v in kw.values()): continue
        mine = copy.deepcopy(kw)
        try: o = cls(**mine)
        except Exception: continue
        before = o.serialize()
        poke(mine)
        d = json.loads(o.serialize()); want = spec_id(d, list(cls._id_contributing_properties))
        if want is not None and d['id'] != want:        # (that non-contributing dictionary values follow the caller's object is the library's long-standing behaviour, DESIGN 9.3; the id must stay that of the content)
            chk.violation(f'history#id of the object\'s own content after the caller changed its input:{label.split(":")[2]}', f'{label}: after the caller modified the nested data it had passed in, the object reads {o.serialize()[:160]} (before: {before[:160]}); id {d["id"]}, recomputation {want}', {'kwargs': repr(kw)[:300]})
            break
    # equal contributing values, whatever kind of value carried them: one id
    groups = {}
    for label, cls, kw in cc:
        if ':start ' in label and ' as ' in label:
            try: groups.setdefault(label.split(' as ')[0], []).append((label, cls(**dict(kw))['id']))        # (no deep copy here: copying a timestamp object resets its precision settings)
            except Exception as ex: chk.violation('determinism#value kinds accepted', f'{label}: {type(ex).__name__}: {ex}', {})
    for g, members in groups.items():
        if len({i for _, i in members}) > 1:
            chk.violation('determinism#same instant, other value kind', f'{g}: ids differ across value kinds: {[(l.split(" as ")[1], i[-12:]) for l, i in members]}', {'group': g})
    # ---- history: identifiers stay deterministic and the contributing lists stay what they were after versioning operations on observables
    # (new_version / revoke on a versionable SCO given as object and as dictionary -- refused or not --, deepcopy, serialization, store round trip)
    import stix2.versioning as V
    before_lists = {cname: list(cls._id_contributing_properties) for cname, (cat, cls) in G.classes('2.1').items() if cat == 'observables'}
    before_ids = {}
    for n, (label, cls, kw) in enumerate(cc):
        try: before_ids[n] = cls(**copy.deepcopy(kw))['id']
        except Exception: pass
    for cname, (cat, cls) in sorted(G.classes('2.1').items()):
        if cat != 'observables': continue
        try: o = cls(allow_custom=True, created=G.T1, modified=G.T1, revoked=False, **{k: v for k, v in G.minimal(cls, '2.1').items() if k != 'id'})
        except Exception: continue
        for op in (lambda: V.new_version(o, modified=G.T2), lambda: V.new_version(json.loads(o.serialize()), modified=G.T2), lambda: V.revoke(o), lambda: V.revoke(json.loads(o.serialize())),
                   lambda: V.new_version(o, x_new=1, allow_custom=True), lambda: copy.deepcopy(o), lambda: stix2.MemoryStore([o], allow_custom=True).get(o['id'])):
            try: op()
            except Exception: pass
    for cname, (cat, cls) in sorted(G.classes('2.1').items()):
        if cat == 'observables' and list(cls._id_contributing_properties) != before_lists[cname]:
            chk.violation(f'history#contributing list changed:{cname}', f'{cname}: after versioning operations the id-contributing list is {list(cls._id_contributing_properties)}, before {before_lists[cname]}', {})
    for n, (label, cls, kw) in enumerate(cc):
        if n not in before_ids: continue
        try: now = cls(**copy.deepcopy(kw))['id']
        except Exception: continue
        spec_has = any(k in kw for k in cls._id_contributing_properties) or any(k in before_lists.get(':'.join(label.split(':')[1:3]), []) for k in kw)
        if spec_has and now != before_ids[n]:
            chk.violation(f'history#same content, other id after versioning operations:{label.split(":")[2]}', f'{label}: id {before_ids[n]} before and {now} after new_version/revoke were used on observables of this process', {'kwargs': repr(kw)})
            break
    # same process vs fresh process
    sample = json.loads(stix2.v21.File(name='f', hashes={'MD5': 'a' * 32}).serialize())
    r = subprocess.run([sys.executable, '-c', "import stix2, json; print(stix2.v21.File(name='f', hashes={'MD5': 'a'*32})['id'])"], capture_output=True, text=True, env=dict(os.environ))
    if r.returncode == 0 and r.stdout.strip() != sample['id']:
        chk.violation('determinism#across processes', f'fresh process computed {r.stdout.strip()}, this process {sample["id"]}', {})
