"""C20 -- confidence-scale conversions are total, monotone and round-trip (proof)."""
import importlib
import z3
from vf.pyvc.lib import REG
from vf.check import native_outcome, native_check
from vf.selftest import mutation_selftest, compile_function
from contracts import scales as K

LEVEL = 'proof'


def native_domain(contract):
    if 'confidence_value' in contract.params:
        return [{'confidence_value': v} for v in range(-320, 421)] + [{'confidence_value': v} for v in (-10**9, 10**9, 2**70)]
    labels = {r[2] for sc in K.SCALES.values() for r in sc['rows']} | {l for sc in K.SCALES.values() for l in sc['no_value_labels']}
    extra = {'', ' ', 'none', 'NONE', 'Low ', ' Low', '11', '-1', '00', '1.0', 'High\n', 'Certain\x00', 'x' * 300}
    # a ring of near misses around EVERY label of every scale: one stray character before / after (newline, carriage return + newline, space, tab, NUL), case changes, a doubled inner space
    for l in sorted(labels):
        extra |= {l + '\n', l + '\r\n', l + '\n\n', '\n' + l, l + ' ', ' ' + l, l + '\t', l + '\x00', l.upper(), l.lower(), l.swapcase(), l.replace(' ', '  ', 1), l.replace(' - ', '-'), l + l, l[:-1], l[1:]}
    extra -= labels
    return [{'scale_value': s} for s in sorted(labels | extra)]


def run(chk):
    chk.registry = REG
    chk.explanation = ('Every one of the ten functions in stix2/confidence/scales.py is under a contract generated from the frozen '
                       'specification table; obligations are generated from the current source text by symbolic execution over an '
                       'unbounded mathematical integer / arbitrary string and discharged by z3 (tier P).  Totality, monotonicity and the '
                       'round trip are lemmas over the table and the two contracts.  A native enumeration of -50..150 and all labels '
                       're-checks the same contracts on the real functions (tier B, redundant cross-check of the engine).')
    chk.trust('spec/confidence.json as a faithful copy of STIX 2.1 Appendix A')
    chk.assume('the contracts quantify over Python ints (value_to_*) and strs (*_to_value); arguments of other kinds are covered by a bounded refusal check only')
    contracts = []
    for scale in K.SCALES:
        contracts += [K.to_label_contract(scale), K.to_value_contract(scale)]
    for c in contracts:
        chk.prove(c)
        chk.canary(c)
    for scale in K.SCALES:
        for name, claim in K.table_lemmas(scale):
            chk.lemma(f'{scale}: {name}', claim)
    # bounded cross-check of the same contracts on the real functions (also validates the engine against CPython)
    for c in contracts:
        def check(args, c=c):
            out = native_outcome(c, args)
            pre, bad = native_check(c, args, out)
            if bad:
                return (f'{c.name}#native', f'{c.name}({args}) -> {out[0]} {out[1]!r} violates {bad}', {'input': args, 'outcome': repr(out)})
        chk.bounded(f'native:{c.name}', native_domain(c), check, classify=lambda a: repr(a), bound='ints -50..150 plus 3 huge; every label of every scale plus 13 near-miss strings and a ring of 16 one-edit near misses around every label')
    # arguments of other kinds are refused, however they print: "unknown labels are refused" does not depend on str() of the argument (positional and keyword calls alike)
    import stix2.confidence.scales as SC
    class Prints:
        def __init__(s, t): s.t = t
        def __str__(s): return s.t
        __repr__ = __str__
    def odd_cases():
        for scale, sc in K.SCALES.items():
            fn = getattr(SC, K.to_value_contract(scale).target.split('::')[1])
            labels = [r[2] for r in sc['rows']]
            for v in [None, 0, 5, 1.0, True, False, b'Low', ['Low'], ('Low',), {'Low'}] + [Prints(l) for l in labels[:3]] + [l.encode() for l in labels[:2]]:
                yield (scale, fn, v)
    def odd_check(case):
        scale, fn, v = case
        for how, call in (('positional', lambda: fn(v)), ('keyword', lambda: fn(scale_value=v))):
            try: r = call()
            except ValueError: continue
            except Exception as ex: return (f'{scale}#non-string argument refused with ValueError', f'{fn.__name__}({v!r}) ({how}) raised {type(ex).__name__}: {ex}', {})
            return (f'{scale}#non-string argument refused with ValueError', f'{fn.__name__}({v!r}) ({how}) returned {r!r}: an argument that is not a label string was accepted', {'input': repr(v)})
    chk.bounded('label -> value: arguments that are not strings', list(odd_cases()), odd_check, classify=lambda c: (c[0], repr(c[2])), bound='5 scales x 15 non-string arguments (None, numbers, booleans, bytes, containers, objects printing like a label), positional and keyword')
    # ---- the refusals do not depend on the interpreter's optimisation level (assert statements vanish under -O / -OO; docstrings under -OO)
    import subprocess, json, sys as _sys, os as _os
    from vf.check import SRC_ROOT as _SRC
    OPT_SCRIPT = r'''
import json
import stix2.confidence.scales as SC
out = []
names = [n for n in dir(SC) if n.startswith('value_to_')]
for n in names:
    for v in (-300, -1, 101, 150, 10**30):
        try: out.append([n, repr(v), repr(getattr(SC, n)(v))])
        except ValueError: pass
        except Exception as ex: out.append([n, repr(v), 'raised ' + type(ex).__name__])
for n in [n for n in dir(SC) if n.endswith('_to_value')]:
    for v in ('', 'no such label', 'HIGH', '11', 'Low\n'):
        try: out.append([n, repr(v), repr(getattr(SC, n)(v))])
        except ValueError: pass
        except Exception as ex: out.append([n, repr(v), 'raised ' + type(ex).__name__])
print(json.dumps([names, out]))
'''
    n_opt = 0
    for flag in ('-O', '-OO'):
        env = dict(_os.environ, PYTHONPATH=_SRC if _SRC != '/repo' else _os.environ.get('PYTHONPATH', ''), PYTHONDONTWRITEBYTECODE='1'); env.pop('PYTHONOPTIMIZE', None)
        r = subprocess.run([_sys.executable, flag, '-c', OPT_SCRIPT], capture_output=True, text=True, env=env, timeout=300)
        if r.returncode != 0: chk.faults.append(f'optimised-interpreter probe ({flag}) failed: {r.stderr[-300:]}'); continue
        names, accepted = json.loads(r.stdout.strip().splitlines()[-1]); n_opt += 5 * len(names) + 25
        if len(names) < 5: chk.faults.append(f'optimised-interpreter probe ({flag}): only {names} found')
        for n, v, res in accepted:
            chk.violation(f'{n}#refusal does not depend on the interpreter optimisation level', f'under python {flag}: {n}({v}) -> {res} (refused with ValueError without the flag)', {'flag': flag, 'function': n, 'input': v}); break
    chk.bounded_runs.append({'name': 'refusals under python -O and -OO (fresh subprocess)', 'bound': '5 value->label functions x 5 out-of-range integers, 5 label->value functions x 5 unknown labels, 2 optimisation levels', 'evaluations': n_opt,
                             'distinct_classes': None, 'witnesses': 0, 'wall_s': 0, 'samples': []})

    def kw_cases():
        for scale in K.SCALES:
            fn = getattr(SC, K.to_label_contract(scale).target.split('::')[1])
            for v in (-300, -21, -11, -1, 101, 150, 400, 10**30): yield (scale, fn, v)
    def kw_check(case):
        scale, fn, v = case
        for how, call in (('positional', lambda: fn(v)), ('keyword', lambda: fn(confidence_value=v))):
            try: r = call()
            except ValueError: continue
            except Exception as ex: return (f'{scale}#out-of-range value refused with ValueError', f'{fn.__name__}({v}) ({how}) raised {type(ex).__name__}', {})
            return (f'{scale}#out-of-range value refused with ValueError', f'{fn.__name__}({v}) ({how}) returned {r!r}', {})
    chk.bounded('value -> label: out-of-range values by position and by keyword', list(kw_cases()), kw_check, classify=lambda c: (c[0], c[2]), bound='5 scales x 8 out-of-range integers x 2 call forms')
    if chk.tier == 'thorough':
        mod = importlib.import_module('stix2.confidence.scales')
        results = []
        for c in contracts:
            orig = getattr(mod, c.target.split('::')[1]); dom = native_domain(c)

            def equivalent(mutant, orig=orig, dom=dom):
                f = compile_function(mutant, vars(mod))
                def beh(g, a):
                    try: return ('r', g(**a))
                    except Exception as ex: return ('x', type(ex).__name__)
                return all(beh(f, a) == beh(orig, a) for a in dom)
            r = mutation_selftest(c, REG, '/repo', equivalent)
            results.append(r)
            chk.say(f'  [selftest] {r["function"]}: mutants={r["total"]} killed={r["killed"]} equivalent={r["equivalent"]} undecided={r["undecided"]} survivors={r["survivors"]}')
            if r['survivors']:
                chk.faults.append(f'mutation self-test: non-equivalent mutants survive for {c.name}: {r["survivors"]}')
        chk.extra['mutation_selftest'] = results
