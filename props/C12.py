"""C12 -- queries return exactly the objects satisfying every filter (proved filter core + optimiser soundness, bounded end-to-end)."""
import ast, datetime as dtm, itertools, json, os, shutil, tempfile
import z3
from vf.pyvc.lib import REG
from vf.pyvc.contract import Obligation, discharge
from vf.callsites import scan_defs
from vf.check import SRC_ROOT
from vf import objgen as G
from contracts import filters as K

LEVEL = 'other'
ID = lambda t, n: f'{t}--{n:08d}-0000-4000-8000-000000000000'


# ------------------------------------------------------------------ call-site sort obligation: apply_common_filters needs a re-iterable query
def reiterable_obligations(src_root):
    defs = scan_defs(src_root)
    obs = []; notes = []
    for name, lst in defs.items():
        for rel, qual, fn, _ in lst:
            assigns = {}
            for n in ast.walk(fn):
                if isinstance(n, ast.Assign) and len(n.targets) == 1 and isinstance(n.targets[0], ast.Name):
                    assigns.setdefault(n.targets[0].id, []).append(n.value)
            params = {a.arg for a in fn.args.args + fn.args.kwonlyargs}

            def sort_of(e, depth=0):
                if isinstance(e, (ast.List, ast.Tuple, ast.Set, ast.ListComp)): return 'reiterable'
                if isinstance(e, ast.GeneratorExp): return 'iterator'
                if isinstance(e, ast.Call):
                    f = ast.unparse(e.func)
                    if f in ('list', 'tuple', 'set', 'FilterSet', 'sorted'): return 'reiterable'
                    if f in ('itertools.chain', 'iter', 'map', 'filter', 'zip', 'reversed', 'itertools.chain.from_iterable'): return 'iterator'
                    return 'unknown'
                if isinstance(e, ast.Name) and e.id in assigns and depth < 3:
                    ss = {sort_of(v, depth + 1) for v in assigns[e.id]}
                    return ss.pop() if len(ss) == 1 else ('iterator' if 'iterator' in ss else 'unknown')
                if isinstance(e, ast.Name) and e.id in params and e.id in ('query', 'filters', 'all_filters'): return 'reiterable'     # the callee's own documented precondition
                return 'unknown'
            for call in [n for n in ast.walk(fn) if isinstance(n, ast.Call) and ast.unparse(n.func).split('.')[-1] == 'apply_common_filters']:
                actual = call.args[1] if len(call.args) > 1 else next((k.value for k in call.keywords if k.arg == 'query'), None)
                if actual is None: continue
                s = sort_of(actual)
                clause = f'{rel}:{call.lineno} {qual} -> apply_common_filters: query argument `{ast.unparse(actual)[:50]}` is re-iterable (sort: {s})'
                if s == 'unknown': notes.append(clause + ' -- not decided'); continue
                ob = Obligation('callsites', clause, 'call-requires', [], z3.BoolVal(s == 'reiterable'), True)
                discharge(ob, None, use_external=False); obs.append(ob)
    return obs, notes


# ------------------------------------------------------------------ independent reference semantics (spec function of the stand-in)
def to_instant(v):
    import stix2.utils as U
    if isinstance(v, dtm.datetime): return v if v.tzinfo else v.replace(tzinfo=dtm.timezone.utc)
    return None


def ref_check_value(op, x, fvalue):
    """documented operator semantics on one property value; timestamp strings are compared as instants"""
    import stix2.utils as U
    xi = to_instant(x)
    if xi is None and isinstance(x, str) and isinstance(fvalue, dtm.datetime):
        try: xi = U.parse_into_datetime(x)
        except ValueError: xi = None
    if xi is not None and isinstance(fvalue, str):
        try: fvalue = U.parse_into_datetime(fvalue); x = xi
        except ValueError: pass
    elif xi is not None and isinstance(fvalue, dtm.datetime): x = xi
    try:
        if op == '=': return x == fvalue
        if op == '!=': return x != fvalue
        if op == 'in': return x in fvalue
        if op == 'contains': return fvalue in (x.values() if isinstance(fvalue, dict) else x)
        if op == '>': return x > fvalue
        if op == '<': return x < fvalue
        if op == '>=': return x >= fvalue
        if op == '<=': return x <= fvalue
    except TypeError:
        return 'error'
    raise ValueError(op)


def ref_check(f, obj):
    """dotted paths into nested and list-valued properties: a list matches when any element matches"""
    def walk(o, parts):
        head = parts[0]
        if not hasattr(o, 'keys') or head not in o.keys(): return False
        v = o[head]
        if len(parts) > 1:
            if isinstance(v, list): return any(walk(e, parts[1:]) is True for e in v)
            return walk(v, parts[1:])
        if isinstance(v, list): return any(ref_check_value(f.op, e, f.value) is True for e in v)
        return ref_check_value(f.op, v, f.value)
    return walk(obj, f.property.split('.'))


def population():
    import stix2
    from stix2 import v21
    objs = []
    objs.append(v21.Identity(id=ID('identity', 1), name='alpha', identity_class='individual', created='2020-01-01T00:00:00Z', modified='2020-01-01T00:00:00Z', labels=['a', 'b']))
    objs.append(v21.Identity(id=ID('identity', 1), name='alpha2', identity_class='individual', created='2020-01-01T00:00:00Z', modified='2020-01-02T00:00:00.5Z', labels=['b']))
    objs.append(v21.Identity(id=ID('identity', 2), name='beta', created='2020-01-03T00:00:00Z', modified='2020-01-03T00:00:00Z',
                             external_references=[{'source_name': 'src', 'external_id': 'e1'}, {'source_name': 'other', 'url': 'http://x'}]))
    objs.append(v21.Tool(id=ID('tool', 3), name='gamma', created='2020-01-01T00:00:00Z', modified='2020-01-04T00:00:00Z', labels=['a'], tool_types=['exploitation'], confidence=0, revoked=False))
    objs.append(v21.Tool(id=ID('tool', 9), name='', created='2020-01-01T00:00:00Z', modified='2020-01-04T00:00:00Z', confidence=50, revoked=True, aliases=[]))
    objs.append(v21.Malware(id=ID('malware', 4), name='delta', is_family=False, created='2020-01-02T00:00:00.000001Z', modified='2020-01-02T00:00:00.000001Z'))
    # two more versions of it inside the same millisecond (distinct versions: a federating source must not merge them)
    objs.append(v21.Malware(id=ID('malware', 4), name='delta-b', is_family=False, created='2020-01-02T00:00:00.000001Z', modified='2020-01-02T00:00:00.000002Z'))
    objs.append(v21.Malware(id=ID('malware', 4), name='delta-c', is_family=True, created='2020-01-02T00:00:00.000001Z', modified='2020-01-02T00:00:00.000999Z'))
    objs.append(v21.Relationship(id=ID('relationship', 5), source_ref=ID('identity', 1), target_ref=ID('tool', 3), relationship_type='uses',
                                 created='2020-01-05T00:00:00Z', modified='2020-01-05T00:00:00Z'))
    objs.append(v21.File(id=ID('file', 6), name='f.txt', hashes={'MD5': 'a' * 32}))
    objs.append(v21.Identity(id='identity--ABCDEF07-0000-4000-8000-00000000ABCD', name='UPPER', created='2020-01-06T00:00:00Z', modified='2020-01-06T00:00:00Z'))
    # a type whose name has another stored type's name as a proper prefix (directory names, type whitelists / blacklists are compared whole)
    objs.append(v21.MalwareAnalysis(id=ID('malware-analysis', 10), product='p', result='benign', created='2020-01-08T00:00:00Z', modified='2020-01-08T00:00:00Z'))
    # a 2.0 object: its timestamps carry exact millisecond precision, filter strings do not
    objs.append(stix2.v20.Identity(id=ID('identity', 8), name='old', identity_class='individual', created='2020-01-07T00:00:00.123Z', modified='2020-01-07T00:00:00.123Z'))
    return objs


def filter_pool():
    import stix2
    F = stix2.Filter
    t = lambda s: s
    pool = [F('type', '=', 'identity'), F('type', '=', 'tool'), F('type', '!=', 'identity'), F('type', '!=', 'malware'), F('type', '=', 'malware'), F('type', '!=', 'malware-analysis'), F('type', 'in', ['malware-analysis']), F('type', '!=', 'too'), F('type', 'in', ['identity', 'tool']), F('type', 'in', ['malware']),
            F('type', 'in', 'tools'), F('type', 'in', 'identity-tool'), F('type', '=', ['identity']), F('type', '>', 'identity'), F('type', 'contains', 'oo'),
            F('id', '=', ID('identity', 1)), F('id', '!=', ID('identity', 1)), F('id', 'in', [ID('identity', 1), ID('tool', 3)]), F('id', 'in', [ID('identity', 2)]),
            F('id', 'in', [ID('malware', 4), ID('identity', 1)]), F('id', 'in', [ID('identity', 1), ID('malware', 4), ID('tool', 3)]),          # (ids of several types, several versions each)
            F('id', '=', ID('tool', 3)), F('id', 'in', ID('identity', 1) + 'x'), F('id', '=', (ID('identity', 1),)), F('id', '>', 'identity'),
            F('name', '=', 'alpha'), F('name', '!=', 'alpha'), F('name', 'in', ['alpha', 'gamma']), F('name', 'contains', 'a'), F('name', '>=', 'b'), F('name', '<', 'beta'),
            F('created', '=', '2020-01-01T00:00:00Z'), F('created', '=', '2020-01-01T00:00:00.000Z'), F('created', '>', '2020-01-01T00:00:00Z'), F('created', '<=', '2020-01-02T00:00:00.000001Z'),
            F('modified', '>=', '2020-01-02T00:00:00.5Z'), F('modified', '<', '2020-01-02T00:00:00.500001Z'), F('created', '>', dtm.datetime(2020, 1, 2, tzinfo=dtm.timezone.utc)),
            F('created', '<', '2020-01-07T00:00:00.1235Z'), F('created', '=', '2020-01-07T00:00:00.1234Z'), F('modified', '>=', '2020-01-07T00:00:00.123001Z'), F('modified', '!=', '2020-01-07T00:00:00.12309Z'),
            F('created', '=', '2020-01-07T00:00:00.123000Z'), F('modified', '<=', '2020-01-06T23:59:59.9999Z'),
            F('confidence', '=', 0), F('confidence', '>', 10), F('confidence', '<=', 0), F('confidence', 'in', [0, 50]), F('confidence', '!=', 50), F('confidence', '>=', 50.0),
            F('revoked', '=', False), F('revoked', '!=', False), F('revoked', 'in', [True]), F('name', '=', ''), F('name', '!=', ''), F('name', 'in', ''), F('aliases', '=', 'x'), F('aliases', '!=', 'x'),
            F('labels', '=', 'a'), F('labels', '=', 'b'), F('labels', 'contains', 'a'), F('labels', 'in', ['b', 'z']), F('labels', '!=', 'a'),
            F('external_references.source_name', '=', 'src'), F('external_references.external_id', '=', 'e1'), F('external_references.url', '!=', 'zzz'),
            F('hashes.MD5', '=', 'a' * 32), F('source_ref', '=', ID('identity', 1)), F('relationship_type', 'in', ['uses', 'x']), F('nonexistent', '=', 1), F('is_family', '=', False)]
    return pool


def run(chk):
    import stix2
    from stix2 import MemoryStore, MemorySource, FileSystemStore, FileSystemSource, CompositeDataSource, Filter
    from stix2.datastore.filters import FilterSet
    chk.registry = REG
    chk.explanation = ('P: Filter._check_property equals the documented semantics of all eight operators (with the timestamp-string coercion); '
                       'apply_common_filters yields an object exactly when every filter matches it (prefix invariant, break path, yield ghost); _update_allow and '
                       'AuthSet.__init__ against their set-algebra contracts; _find_search_optimizations is SOUND for an arbitrary ghost object: every object that '
                       'satisfies all filters has a type and an id the shortcut still searches (loop invariant through _update_allow, AuthSet and the final '
                       'cross-intersection, image sets for the generator expressions); call sites of apply_common_filters pass a re-iterable collection; '
                       'monotonicity and conjunction=intersection are lemmas from the contract.  B: all filter sets of size <= 2 (quick) / <= 3 (thorough) from a '
                       '43-filter pool x a population of 8 objects on memory and filesystem stores x query/get/all_versions x the three routes by which filters '
                       'reach a source (query argument as list and as a re-used FilterSet, attached, passed down by a composite), against an independent reference.')
    chk.assume('type/id filter values are strings or iterables of strings (other value types never equal a string and contribute nothing to the shortcut)',
               '_check_filter (dotted-path recursion) and _get_matching_dir_entries are covered by the bounded end-to-end check only')
    for c in (K.check_property_contract(), K.acf_contract(), K.update_allow_contract(), K.authset_contract(), K.find_opt_contract()):
        chk.prove(c); chk.canary(c)
    from contracts import stores as KS
    c = KS.filesystem_query_contract(); chk.prove(c); chk.canary(c)          # the same bookkeeping in the filesystem source: shortcuts and per-directory searches see exactly query + own + handed-down filters
    c = KS.memory_all_versions_contract(); chk.prove(c); chk.canary(c)
    c = KS.memory_get_contract(); chk.prove(c); chk.canary(c)
    c = KS.memory_query_contract(); chk.prove(c); chk.canary(c)          # a memory source answers with exactly the objects satisfying query + own + handed-down filters, and never writes to the caller's query
    for m in ('all_versions', 'query', 'get'):          # filters passed down by a composite reach every member (call-site obligations of the federation contract)
        c = KS.composite_federation_contract(m); chk.prove(c); chk.canary(c)
    for v in ('list', 'single', 'none'):          # how filters reach a source: FilterSet.add keeps everything attached before and gains exactly what is handed in
        c = K.filterset_add_contract(v); chk.prove(c); chk.canary(c)
    for name, claim in K.conjunction_lemmas(): chk.lemma(name, claim)
    obs, notes = reiterable_obligations(SRC_ROOT)
    for ob in obs:
        chk.lemmas.append(ob)
        if ob.result != 'discharged':
            chk.violation('callsite#' + ob.clause.split(' -> ')[0], 'call-site obligation fails: ' + ob.clause, {'obligation': ob.clause}, no_input=True)
    chk.say(f'  [P] apply_common_filters call sites: {len(obs)} obligations, {sum(o.result == "discharged" for o in obs)} discharged, {len(notes)} not decided')
    chk.extra['reiterable_call_site_notes'] = notes

    pop = population(); pool = filter_pool()
    tmp = tempfile.mkdtemp(prefix='vf-c12-')
    try:
        mem = MemoryStore(pop)
        fs = FileSystemStore(os.path.join(tmp, 'fs')) if os.makedirs(os.path.join(tmp, 'fs')) is None else None
        for o in pop: fs.add(o)
        key = lambda o: (o['id'], str(o.get('modified', '')))
        def expect(fset, objs=pop):
            out = []
            for o in objs:
                rs = [ref_check(f, o) for f in fset]
                if 'error' in rs: return 'error'
                if all(r is True for r in rs): out.append(key(o))
            return sorted(out)

        def got(fn):
            try: return sorted(key(o) for o in fn())
            except (TypeError, ValueError) as ex: return 'error'

        def cases():
            n = 3 if chk.tier == 'thorough' else 2
            for k in range(1, n + 1):
                combos = list(itertools.combinations(range(len(pool)), k))
                if k == 2 and chk.tier == 'quick': combos = [c for i, c in enumerate(combos) if i % 3 == chk.seed % 3 or pool[c[0]].property == pool[c[1]].property]       # pairs on one property always
                if k == 3: combos = [c for i, c in enumerate(combos) if i % 17 == chk.seed % 17]
                for c in combos: yield c

        def check(combo):
            fset = [pool[i] for i in combo]
            want = expect(fset)
            for sname, store in (('memory', mem), ('filesystem', fs)):
                r = got(lambda: store.query(list(fset)))
                if r != want and not (want == 'error' or r == 'error'):
                    return (f'query#{sname}', f'{sname}.query({fset}) returned {r}, reference {want}', {'filters': repr(fset)})
                if want == 'error' or r == 'error': continue
                # attached route: filters attached to a fresh source over the same data
                src = MemorySource(stix_data=mem._data, _store=True) if sname == 'memory' else FileSystemSource(os.path.join(tmp, 'fs'))
                src.filters.add(fset[1:])
                r2 = got(lambda: src.query([fset[0]]))
                if r2 != want: return (f'attached#{sname}', f'{sname}: filters {fset[1:]} attached + query {fset[:1]} returned {r2}, reference {want}', {'filters': repr(fset)})
                # composite route
                comp = CompositeDataSource(); comp.add_data_source(src2 := (MemorySource(stix_data=mem._data, _store=True) if sname == 'memory' else FileSystemSource(os.path.join(tmp, 'fs'))))
                comp.filters.add(fset[1:])
                r3 = got(lambda: comp.query([fset[0]]))
                if r3 != want: return (f'composite#{sname}', f'{sname}: composite-attached {fset[1:]} + query {fset[:1]} returned {r3}, reference {want}', {'filters': repr(fset)})
                # a composite inside a composite: filters attached to the outer one reach the leaves for query, all_versions and get alike
                inner = CompositeDataSource(); inner.add_data_source(MemorySource(stix_data=mem._data, _store=True) if sname == 'memory' else FileSystemSource(os.path.join(tmp, 'fs')))
                outer = CompositeDataSource(); outer.add_data_source(inner); outer.filters.add(fset[1:])
                r4 = got(lambda: outer.query([fset[0]]))
                if r4 != want: return (f'composite#{sname}:nested', f'{sname}: outer composite with {fset[1:]} attached + query {fset[:1]} through a nested composite returned {r4}, reference {want}', {'filters': repr(fset)})
                if len(fset) > 1:
                    for oid in sorted({o['id'] for o in pop})[:4]:
                        wa = expect(fset[1:], [o for o in pop if o['id'] == oid])
                        ra = got(lambda: outer.all_versions(oid))
                        if wa != 'error' and ra != 'error' and ra != wa:
                            return (f'composite#{sname}:nested all_versions', f'{sname}: outer composite with {fset[1:]} attached; all_versions({oid}) through a nested composite returned {ra}, reference {wa}', {'filters': repr(fset)})
                # FilterSet object re-used across two sources must stay what the caller built
                qs = FilterSet(list(fset[:1])); before = list(qs)
                got(lambda: src.query(qs))
                if list(qs) != before: return (f'frame#{sname}', f'{sname}.query(FilterSet) modified the caller\'s FilterSet: {list(qs)} (was {before})', {})
                # get / all_versions honour attached filters for every answer
                for oid in {o['id'] for o in pop}:
                    vers = [o for o in pop if o['id'] == oid]
                    want_all = expect(fset[1:], vers)
                    if want_all == 'error': continue
                    ra = got(lambda: src.all_versions(oid))
                    if ra != 'error' and ra != want_all:
                        return (f'all_versions#{sname}', f'{sname}: attached {fset[1:]}; all_versions({oid}) returned {ra}, reference {want_all}', {})
                    latest = max(vers, key=lambda o: (str(o.get('modified', ''))))
                    wg = expect(fset[1:], [latest])
                    rg = got(lambda: [x for x in [src.get(oid)] if x is not None])
                    matching = [o for o in vers if all(ref_check(f, o) is True for f in fset[1:])]
                    wg2 = [key(max(matching, key=lambda o: str(o.get('modified', ''))))] if matching else []
                    # permissive reading: with filters attached, get() may answer "the newest version, if it passes" (memory) or
                    # "the newest version that passes" (filesystem); the statement fixes neither
                    if rg != 'error' and wg != 'error' and rg != wg and rg != wg2:
                        return (f'get#{sname}', f'{sname}: attached {fset[1:]}; get({oid}) returned {rg}, reference {wg}', {})
            return None
        # ---- attached filter sets have a history: attach / detach / attach again, in every order -- what is in force is what a list model says
        hist_filters = [pool[0], pool[2], next(f for f in pool if f.property == 'name' and f.op == '!=')]
        def fs_hist_cases():
            for n in (1, 2, 3, 4):
                for j, seq in enumerate(itertools.product([(op, i) for op in ('add', 'remove') for i in range(len(hist_filters))], repeat=n)):
                    if n == 4 and (j + chk.seed) % 7: continue
                    yield seq
        def fs_hist_check(seq):
            for sname in ('memory', 'filesystem'):
                src = MemorySource(stix_data=mem._data, _store=True) if sname == 'memory' else FileSystemSource(os.path.join(tmp, 'fs'))
                model = []
                for op, i in seq:
                    f = hist_filters[i]
                    if op == 'add':
                        src.filters.add(f)
                        if f not in model: model.append(f)
                    else:
                        try: src.filters.remove(f)
                        except (ValueError, KeyError):
                            if f in model: return ('attached#history of the filter set', f'{sname}: {seq}: removing an attached filter failed', {})
                        if f in model: model.remove(f)
                if sorted(map(repr, src.filters)) != sorted(map(repr, model)):
                    return ('attached#history of the filter set', f'{sname}: after {[(o, repr(hist_filters[i])) for o, i in seq]} the attached filters are {list(src.filters)}, list model {model}', {})
                r = got(lambda: src.query()); want = expect(model)
                if r != want: return ('attached#history of the filter set', f'{sname}: after {[(o, hist_filters[i].property + hist_filters[i].op) for o, i in seq]} query() returned {r}, reference under {model}: {want}', {})
        chk.bounded('attached filter sets: attach / detach histories vs a list model', list(fs_hist_cases()), fs_hist_check, classify=lambda c: c,
                    bound='3 filters x {attach, detach} sequences of length <= 4 (every 7th of length 4), memory and filesystem source')
        chk.bounded('end-to-end: filter sets x stores x routes vs reference', list(cases()), check, classify=lambda c: c,
                    bound=f'{len(pool)} filters, sets of size <= {3 if chk.tier == "thorough" else 2} (size-2: every 3rd, size-3: every 17th combination by seed), 8 objects, memory + filesystem, 5 routes (query argument, attached, composite, nested composite, re-used FilterSet)')
        # ---- history: the stores keep answering from their current content (a new version of an id already held, a new id, content written by someone else)
        import stix2 as _s
        newer = _s.v21.Identity(id=ID('identity', 1), name='alpha3', identity_class='individual', created='2020-01-01T00:00:00Z', modified='2020-02-01T00:00:00Z', labels=['a'])
        fresh = _s.v21.Tool(id=ID('tool', 10), name='fresh', created='2020-01-01T00:00:00Z', modified='2020-01-01T00:00:00Z')
        foreign = {'type': 'malware', 'spec_version': '2.1', 'id': ID('malware', 11), 'created': '2020-01-08T00:00:00Z', 'modified': '2020-01-08T00:00:00Z', 'name': 'foreign', 'is_family': False}
        pop2 = list(pop)
        for step, add in (('a new version of an id already held', newer), ('a new id', fresh)):
            mem.add(add); fs.add(add); pop2.append(add)
            def hist_check(i, pop2=list(pop2), step=step):
                fset = [pool[i]]; want = expect(fset, pop2)
                for sname, store in (('memory', mem), ('filesystem', fs)):
                    r = got(lambda: store.query(list(fset)))
                    if want != 'error' and r != 'error' and r != want: return (f'history#{sname} answers from its current content', f'after adding {step}: {sname}.query({fset}) returned {r}, reference {want}', {'filters': repr(fset)})
            chk.bounded(f'history: single filters after adding {step}', list(range(len(pool))), hist_check, classify=lambda i: i, bound=f'{len(pool)} filters x memory + filesystem')
        # a file written by another producer: plain JSON without the properties the library would default, timestamps spelled without fraction
        fdir = os.path.join(tmp, 'fs', 'malware', foreign['id']); os.makedirs(fdir, exist_ok=True)
        json.dump(foreign, open(os.path.join(fdir, '20200108000000000000.json'), 'w'))
        fobj = _s.parse(foreign); pop3 = pop2 + [fobj]
        def foreign_check(i):
            fset = [pool[i]]; want = expect(fset, pop3)
            r = got(lambda: fs.query(list(fset)))
            if want != 'error' and r != 'error' and r != want: return ('history#filesystem content written by another producer', f'filesystem.query({fset}) returned {r}, reference {want}', {'filters': repr(fset)})
        extra = [_s.Filter('revoked', '=', False), _s.Filter('created', '=', '2020-01-08T00:00:00.000Z'), _s.Filter('modified', '>=', '2020-01-08T00:00:00.000000Z'), _s.Filter('name', '=', 'foreign')]
        pool.extend(extra)
        chk.bounded('history: a file written by another producer (no defaulted properties, other timestamp spelling)', list(range(len(pool))), foreign_check, classify=lambda i: i, bound=f'{len(pool)} filters on the filesystem store')
    finally:
        shutil.rmtree(tmp, ignore_errors=True)
    # known finding (same root cause as in C11): custom content of an unregistered type is kept as a dictionary whose timestamps are text, and filters compare the text
    ms = stix2.MemoryStore(allow_custom=True)
    u = {'type': 'x-vf-unreg3', 'spec_version': '2.1', 'id': 'x-vf-unreg3--' + ID('x', 9).split('--')[1], 'created': '2020-01-01T00:00:00Z', 'modified': '2020-01-01T00:00:00Z'}
    ms.add(u)
    if not ms.query([stix2.Filter('modified', '=', '2020-01-01T00:00:00.000Z')]) or ms.query([stix2.Filter('modified', '<', '2020-01-01T00:00:00.000Z')]):
        chk.violation('custom-dict#timestamps of dictionary-kept custom objects are compared as text',
                      "a stored dictionary of an unregistered type with modified '2020-01-01T00:00:00Z' is not matched by Filter('modified', '=', '2020-01-01T00:00:00.000Z') (the same instant)", {'input': u})
