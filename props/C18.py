"""C18 -- federated sources and relationship navigation equal a scan of the data."""
import itertools, json
import os as _os
import z3
from vf.pyvc.lib import REG
from contracts import stores as K, filters as KF
from props import _stores as D

LEVEL = 'other'


def run(chk):
    import stix2
    from stix2 import MemorySource, MemoryStore, CompositeDataSource, Filter, Environment
    chk.registry = REG
    chk.explanation = ('P: the selection loop of CompositeDataSource.get returns an answer with the greatest modified time and None iff there are no answers '
                       '(prefix invariant); max is symmetric/associative, so the result does not depend on member order; utils.deduplicate keeps exactly one '
                       'entry per distinct (id, modified-or-created) (loop invariant over a key set); apply_common_filters (C12) carries the filter '
                       'hand-down.  B: partitions of a 6-version population (overlapping copies, different versions) over 1-3 members (MemorySources; every third case the first member is a FileSystemSource) in every '
                       'attachment order; get / all_versions / query with composite-attached filters; attached filters of composite and members unchanged by '
                       'answering, union restored after detaching; relationship graphs of 4 nodes with all '
                       'navigation options (type filter, source-only, target-only, extra filters) through a source, a store, a composite and an '
                       'Environment, against a scan of the stored objects; creator_of.')
    for c in (K.composite_get_contract(), K.deduplicate_contract(), KF.acf_contract()):
        chk.prove(c); chk.canary(c)
    for m in ('all_versions', 'query', 'get'):          # federation: every member is asked, with the composite's filters and those handed down; the answer is the union
        c = K.composite_federation_contract(m); chk.prove(c); chk.canary(c)
    for v in ('object', 'id'):          # navigation on top of query: relationships() == the scan, given the contract of query()
        c = K.relationships_contract(v); chk.prove(c); chk.canary(c)
    for v in ('object', 'id'):          # related_to() on top of relationships() and query(), both under contract (two loops over sets: invariants with an index-free exit form)
        chk.prove(K.related_to_contract(v))       # (no canary: the reachability query carries the enumeration axioms and times out; non-vacuity is shown by the mutants of DESIGN 18.7, which turn the ensures undecided)
    for v in ('list', 'single', 'none'):          # filters attached to a composite are handed to every member through FilterSet.add
        c = KF.filterset_add_contract(v); chk.prove(c); chk.canary(c)
    for name, claim in K.order_independence_lemma(): chk.lemma(name, claim)

    pool = [d for l, d in D.pool() if l in ('id1.v1', 'id1.v2', 'id1.v3', 'id2.v1', 'id2.v2', 'file (unversioned SCO)', 'UUIDv1 id (only object of its type)')]
    objs = [stix2.parse(d, allow_custom=True) for d in pool]
    key = D.version_key

    late_obj = stix2.v21.Identity(id='identity--' + D.U(77), name='late', created='2020-03-01T00:00:00.000Z', modified='2020-03-01T00:00:00.000Z')

    def partitions():
        n = len(objs)
        for k in (1, 2, 3):
            # each object goes to a non-empty subset of the k members (overlapping copies allowed): sample the assignment space
            subsets = [s for r in range(1, k + 1) for s in itertools.combinations(range(k), r)]
            count = 400 if chk.tier == 'thorough' else 60
            total = len(subsets) ** n
            picks = range(total) if total <= count else sorted({chk.rng.randrange(total) for _ in range(count)})
            for pick in picks:
                a = [(pick // len(subsets) ** i) % len(subsets) for i in range(n)]
                members = [[objs[i] for i in range(n) if m in subsets[a[i]]] for m in range(k)]
                for order in itertools.permutations(range(k)):
                    yield tuple(tuple(key(o) for o in members[m]) for m in order), [members[m] for m in order]

    import tempfile, shutil
    fs_root = tempfile.mkdtemp(prefix='vf-c18-'); n_case = [0]

    def check_fed(case):
        sig, members = case
        comp = CompositeDataSource(); n_case[0] += 1
        for mi, m in enumerate(members):
            if mi == 0 and n_case[0] % 3 == 0 and m:
                # every third partition: the first member is a filesystem source holding the same objects
                root = tempfile.mkdtemp(dir=fs_root); sink = stix2.FileSystemSink(root, allow_custom=True)
                for o in m: sink.add(o)
                comp.add_data_source(stix2.FileSystemSource(root, allow_custom=True))
            elif n_case[0] % 3 == 1 and len(m) >= 2:
                # every third partition: a memory member that gets its content in two deliveries -- objects first, then a bundle file holding the rest (possibly other versions of ids it holds)
                h = len(m) // 2; ms = MemorySource(stix_data=list(m[h:]))
                path = _os.path.join(fs_root, f'delivery{n_case[0]}_{mi}.json')
                with open(path, 'w') as fh: fh.write(stix2.v21.Bundle(list(m[:h]), allow_custom=True).serialize())
                ms.load_from_file(path); comp.add_data_source(ms)
            else: comp.add_data_source(MemorySource(stix_data=list(m)))
        union = {key(o): o for m in members for o in m}
        for oid in {k[0] for k in union}:
            want_all = sorted((k for k in union if k[0] == oid), key=repr)
            got_all = sorted((key(o) for o in comp.all_versions(oid)), key=repr)
            if got_all != want_all:
                return ('composite#all_versions gives each distinct (id, version) once', f'members {sig}: all_versions({oid}) = {got_all}, scan {want_all}', {})
            newest = max(want_all, key=lambda k: (k[1] is not None, k[1] or 0))
            g = comp.get(oid)
            if g is None or key(g) != newest:
                return ('composite#get gives the newest version held by any member', f'members {sig}: get({oid}) = {g and key(g)}, newest {newest}', {})
        got_q = sorted((key(o) for o in comp.query([Filter('type', '=', 'identity')])), key=repr)
        want_q = sorted((k for k in union if k[0].startswith('identity--')), key=repr)
        if got_q != want_q: return ('composite#query gives each distinct (id, version) once', f'members {sig}: query = {got_q}, scan {want_q}', {})
        # a timestamp filter spelled differently from the stored text denotes the same instants for every kind of member
        for tsf in (Filter('created', '=', '2020-01-01T00:00:00Z'), Filter('created', '=', '2020-01-01T00:00:00.000000Z'), Filter('modified', '>=', '2020-01-01T00:00:00.5Z')):
            from props._stores import version_key as _vk
            def inst(v):
                import stix2.utils as _U
                return _U.parse_into_datetime(v) if isinstance(v, str) else v
            want_t = sorted((k for k, o in union.items() if tsf.property in o and ((inst(o[tsf.property]) == inst(tsf.value)) if tsf.op == '=' else (inst(o[tsf.property]) >= inst(tsf.value)))), key=repr)
            got_t = sorted((key(o) for o in comp.query([tsf])), key=repr)
            if got_t != want_t: return ('composite#a timestamp filter means the instant, for every member', f'members {sig}: query({tsf}) = {got_t}, scan {want_t}', {})
        # an Environment built over this composite answers as the composite does: with its filters, and with members attached later
        env0 = Environment(source=comp)
        late = MemorySource(stix_data=[late_obj]); comp.add_data_source(late)
        for what, a, b in (('get of an object held by a member attached later', lambda: env0.get(late_obj['id']), lambda: comp.get(late_obj['id'])),
                           ('query', lambda: sorted((key(o) for o in env0.query([Filter('type', '=', 'identity')])), key=repr), lambda: sorted((key(o) for o in comp.query([Filter('type', '=', 'identity')])), key=repr))):
            ra, rb = a(), b()
            if (key(ra) if hasattr(ra, 'get') and not isinstance(ra, list) and ra is not None else ra) != (key(rb) if hasattr(rb, 'get') and not isinstance(rb, list) and rb is not None else rb):
                return ('environment#answers as the composite it was built over', f'members {sig}: {what}: environment {ra if isinstance(ra, list) else ra and key(ra)}, composite {rb if isinstance(rb, list) else rb and key(rb)}', {})
        comp.remove_data_source(late.id)
        comp.filters.add(Filter('name', '!=', 'a2'))
        envf = sorted((key(o) for o in env0.query([Filter('type', '=', 'identity')])), key=repr)
        want_f = sorted((k for k, o in union.items() if k[0].startswith('identity--') and o['name'] != 'a2'), key=repr)
        if envf != want_f: return ('environment#answers as the composite it was built over', f'members {sig}: a filter attached to the composite: environment query = {envf}, scan {want_f}', {})
        got_f = sorted((key(o) for o in comp.query([Filter('type', '=', 'identity')])), key=repr)
        if got_f != want_f: return ('composite#attached filters apply to every member', f'members {sig}: filtered query = {got_f}, scan {want_f}', {})
        ga = sorted((key(o) for o in comp.all_versions('identity--' + D.U(1))), key=repr)
        wa = sorted((k for k, o in union.items() if k[0] == 'identity--' + D.U(1) and o['name'] != 'a2'), key=repr)
        if ga != wa: return ('composite#attached filters apply to every member', f'members {sig}: filtered all_versions = {ga}, scan {wa}', {})
        # frame: answering never changes the filters attached to the composite or to a member (own member filters, query with and without an explicit
        # query, then the composite's filter detached again: the composite is the plain union under the members' own filters once more)
        comp2 = CompositeDataSource(); srcs = [MemorySource(stix_data=list(m)) for m in members]
        for sc in srcs: comp2.add_data_source(sc)
        own = Filter('type', '!=', 'no-such-type'); srcs[0].filters.add(own)          # matches everything
        cf = Filter('name', '!=', 'a2'); comp2.filters.add(cf)
        before = [list(sc.filters) for sc in srcs]
        for q in (None, [Filter('type', '=', 'identity')]):
            comp2.query(q) if q is not None else comp2.query()
            comp2.all_versions('identity--' + D.U(1)); comp2.get('identity--' + D.U(1)); comp2.relationships('identity--' + D.U(1))
            if [list(sc.filters) for sc in srcs] != before or list(comp2.filters) != [cf]:
                return ('frame#answering leaves attached filters alone', f'members {sig}: after composite queries the members hold filters {[list(sc.filters) for sc in srcs]} (before: {before}), composite {list(comp2.filters)}', {})
        comp2.filters.remove(cf)
        got_u = sorted((key(o) for o in comp2.query()), key=repr); want_u = sorted(union, key=repr)
        if got_u != want_u: return ('composite#union again after its filter is detached', f'members {sig}: query() after detaching the composite filter = {got_u}, scan {want_u}', {})
        for sc, m in zip(srcs, members):
            if sorted((key(o) for o in sc.query()), key=repr) != sorted({key(o) for o in m}, key=repr):
                return ('frame#member answers alone as before', f'members {sig}: a member queried on its own after composite use no longer returns its content', {})
    try: chk.bounded('federation: partitions x attachment orders', list(partitions()), check_fed, classify=lambda c: c[0],
                bound='6 versions over 1-3 members, overlapping copies, every attachment order; assignment space sampled (' + ('400' if chk.tier == 'thorough' else '60') + ' per member count)')
    finally: shutil.rmtree(fs_root, ignore_errors=True)

    # ---- history on a long-lived filesystem member: a type directory that exists in the flat legacy layout (or empty) is read, then objects of that type are written, then read again
    hroot = tempfile.mkdtemp(prefix='vf-c18h-')
    try:
        import os
        legacy = stix2.v21.Identity(id='identity--' + D.U(40), name='legacy', created='2020-01-01T00:00:00Z', modified='2020-01-01T00:00:00Z')
        os.makedirs(os.path.join(hroot, 'identity')); os.makedirs(os.path.join(hroot, 'tool'))
        open(os.path.join(hroot, 'identity', legacy.id + '.json'), 'w').write(legacy.serialize())
        store = stix2.FileSystemStore(hroot); comp = CompositeDataSource(); comp.add_data_source(store.source); comp.add_data_source(MemorySource(stix_data=[legacy]))
        env = Environment(store=store)
        for src in (store, comp, env):           # first reads
            src.get(legacy.id); src.query([Filter('type', '=', 'identity')]); src.query([Filter('type', '=', 'tool')]); src.all_versions(legacy.id)
        newer = legacy.new_version(name='legacy2', modified='2020-02-01T00:00:00Z'); fresh = stix2.v21.Identity(id='identity--' + D.U(41), name='fresh', created='2020-01-01T00:00:00Z', modified='2020-01-01T00:00:00Z')
        tool = stix2.v21.Tool(id='tool--' + D.U(42), name='t', created='2020-01-01T00:00:00Z', modified='2020-01-01T00:00:00Z', created_by_ref=fresh.id)
        rel = stix2.v21.Relationship(fresh.id, 'uses', tool.id, id='relationship--' + D.U(43), created='2020-01-01T00:00:00Z', modified='2020-01-01T00:00:00Z')
        for o in (newer, fresh, tool, rel): store.add(o)
        for sname, src in (('store', store), ('composite', comp), ('environment', env)):
            g = src.get(legacy.id)
            if g is None or g['name'] != 'legacy2': chk.violation(f'history#{sname} sees what was written after its first read', f'{sname}.get after a read-write-read sequence on a flat legacy type directory returns {g and g["name"]!r}, newest is legacy2', {})
            if src.get(fresh.id) is None or src.get(tool.id) is None: chk.violation(f'history#{sname} sees what was written after its first read', f'{sname}.get misses an object written after its first read', {})
            got = sorted(o['id'] for o in src.related_to(fresh)); want = [tool.id]
            if got != want: chk.violation(f'history#{sname} sees what was written after its first read', f'{sname}.related_to after a read-write-read sequence = {got}, scan {want}', {})
            c = src.creator_of(tool)
            if c is None or c['id'] != fresh.id: chk.violation(f'history#{sname} sees what was written after its first read', f'{sname}.creator_of after a read-write-read sequence = {c and c["id"]}', {})
        chk.bounded_runs.append({'name': 'history: read, write, read on a filesystem member with flat legacy / empty type directories', 'bound': 'one scenario x store / composite / Environment x get, related_to, creator_of', 'evaluations': 12, 'distinct_classes': 12, 'witnesses': 0, 'wall_s': 0, 'samples': []})
    finally: shutil.rmtree(hroot, ignore_errors=True)

    # ---- relationship navigation
    ids = ['identity--' + D.U(10 + i) for i in range(4)]
    nodes = [stix2.v21.Identity(id=i, name=f'n{n}', created='2020-01-01T00:00:00Z', modified='2020-01-01T00:00:00Z', created_by_ref=ids[0] if n else None) for n, i in enumerate(ids[:3])]
    ids[3] = 'tool--' + D.U(13)
    nodes.append(stix2.v21.Tool(id=ids[3], name='n3', created='2020-01-01T00:00:00Z', modified='2020-01-01T00:00:00Z', created_by_ref=ids[0]))

    def graphs():
        edges_all = [(a, b, t) for a in range(4) for b in range(4) if a != b for t in ('uses', 'targets')]
        combos = list(itertools.combinations(range(len(edges_all)), 3))
        step = max(1, len(combos) // (150 if chk.tier == 'thorough' else 30))
        for c in combos[chk.seed % step::step]:
            yield tuple(edges_all[i] for i in c)

    def check_graph(edges):
        rels = [stix2.v21.Relationship(ids[a], t, ids[b], id='relationship--' + D.U(100 + n), created='2020-01-01T00:00:00Z', modified='2020-01-01T00:00:00Z') for n, (a, b, t) in enumerate(edges)]
        # the first relationship exists in two more versions (a stored relationship object is one (id, version); navigation reports each stored version once)
        rels += [rels[0].new_version(description='second version', modified='2020-01-02T00:00:00Z'), rels[0].new_version(description='third version', modified='2020-01-02T00:00:00.000001Z')]
        data = nodes + rels
        store = MemoryStore(data)
        comp = CompositeDataSource(); comp.add_data_source(MemorySource(stix_data=nodes + rels[:1])); comp.add_data_source(MemorySource(stix_data=rels[1:] + rels[:1]))
        env = Environment(store=MemoryStore(data))
        # front ends with a filter of their own: it applies to every answer, navigation included -- whatever the number of members
        att = Filter('id', '!=', ids[1])
        one = CompositeDataSource(); one.add_data_source(MemorySource(stix_data=data)); one.filters.add(att)
        two = CompositeDataSource(); two.add_data_sources([MemorySource(stix_data=nodes + rels[:2]), MemorySource(stix_data=rels[1:])]); two.filters.add(att)
        inner = CompositeDataSource(); inner.add_data_source(MemorySource(stix_data=data))
        parent = CompositeDataSource(); parent.add_data_source(inner); parent.filters.add(att)
        env_f = Environment(store=MemoryStore(data)); env_f.add_filter(att)
        fstore = MemoryStore(data); fstore.source.filters.add(att)
        key2 = lambda r: (r['id'], str(r['modified']))
        for sname, src, attached in (('store', store, None), ('source', store.source, None), ('composite', comp, None), ('environment', env, None),
                                     ('composite of one member with an attached filter', one, att), ('composite of two members with an attached filter', two, att),
                                     ('filtered composite over a single child composite', parent, att), ('environment with an attached filter', env_f, att), ('store whose source has a filter', fstore, att)):
            passes = (lambda o: True) if attached is None else (lambda o: attached._check_property(o[attached.property]))
            for n, oid in enumerate(ids):
                for rtype in (None, 'uses'):
                    for so, to in ((False, False), (True, False), (False, True)):
                        wrels = [r for r in rels if (rtype is None or r['relationship_type'] == rtype) and passes(r) and
                                 ((not to and r['source_ref'] == oid) or (not so and r['target_ref'] == oid))]
                        want = sorted(key2(r) for r in wrels)
                        raw = list(src.relationships(oid, relationship_type=rtype, source_only=so, target_only=to))
                        got = sorted({key2(r) for r in raw})
                        if got != want:
                            return (f'relationships#{sname}', f'edges {edges}: {sname}.relationships({oid}, {rtype}, source_only={so}, target_only={to}) = {got}, scan {want}', {})
                        byid_all = {o['id']: o for o in nodes}
                        wrel = sorted(i for i in ({(r['target_ref'] if r['source_ref'] == oid else r['source_ref']) for r in wrels} - {oid}) if passes(byid_all[i]))
                        grel = sorted({o['id'] for o in src.related_to(nodes[n], relationship_type=rtype, source_only=so, target_only=to)})
                        if grel != wrel:
                            return (f'related_to#{sname}', f'edges {edges}: {sname}.related_to({oid}, {rtype}, source_only={so}, target_only={to}) = {grel}, scan {wrel}', {})
                        if rtype is None and not so and not to:
                            byid = {o['id']: o for o in nodes}
                            for xf in (Filter('name', '=', 'n1'), Filter('type', '!=', 'tool'), Filter('type', '!=', 'identity'), Filter('type', '=', 'tool'), Filter('type', 'in', ['identity', 'x']),
                                       Filter('type', '>', 'j'), Filter('type', 'contains', 'oo'), Filter('id', '!=', ids[1]),
                                       Filter('id', '=', ids[0]), Filter('id', '=', ids[1]), Filter('id', '=', ids[2]), Filter('id', '=', ids[3]), Filter('id', 'in', [ids[1], ids[3]])):
                                gx = sorted({o['id'] for o in src.related_to(nodes[n], filters=[xf])})
                                wx = sorted(i for i in wrel if xf._check_property(byid[i][xf.property]))
                                if gx != wx: return (f'related_to#{sname}:extra filters', f'edges {edges}: {sname}.related_to({oid}, filters=[{xf}]) = {gx}, scan {wx}', {})
                c = src.creator_of(nodes[n])
                wc = ids[0] if n else None
                if (c and c['id']) != wc: return (f'creator_of#{sname}', f'{sname}.creator_of(node {n}) = {c and c["id"]}, expected {wc}', {})
            try:
                src.relationships(ids[0], source_only=True, target_only=True)
                return (f'relationships#{sname}:both flags', f'{sname}.relationships(source_only=True, target_only=True) did not refuse', {})
            except ValueError: pass
    chk.bounded('navigation: relationship graphs x options x 4 access paths', list(graphs()), check_graph, classify=lambda e: e,
                bound='4 nodes, 3 of 24 possible typed edges, the first relationship in three versions (sampled ' + ('150' if chk.tier == 'thorough' else '30') + ' graphs), type filter x source/target-only x extra filter, via store / source / composite / Environment and five front ends with a filter of their own (composites of one and two members, nested, environment, store)')
