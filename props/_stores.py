"""Shared domain for the store properties (C11, C18): object pool, input forms, list model."""
import copy, datetime as dtm, json
from vf import objgen as G

U = lambda n: f'{n:08d}-0000-4000-8000-000000000000'


def text_instant(ts):
    import stix2.utils as SU
    if isinstance(ts, str): ts = SU.parse_into_datetime(ts)
    if ts.tzinfo is None: ts = ts.replace(tzinfo=dtm.timezone.utc)
    d = ts - dtm.datetime(1, 1, 1, tzinfo=dtm.timezone.utc)
    return (d.days * 86400 + d.seconds) * 10**6 + d.microseconds


def pool():
    """(label, JSON dict) -- several versions per id, equal instants spelled differently, unversioned, custom, both spec versions"""
    p = []
    def ident(n, mod, name, ver='2.1', **kw):
        d = {'type': 'identity', 'id': 'identity--' + U(n), 'created': '2020-01-01T00:00:00.000Z', 'modified': mod, 'name': name, 'identity_class': 'individual'}
        if ver == '2.1': d['spec_version'] = '2.1'
        d.update(kw); return d
    p.append(('id1.v1', ident(1, '2020-01-01T00:00:00.000Z', 'a1')))
    p.append(('id1.v2', ident(1, '2020-01-01T00:00:00.500Z', 'a2')))
    p.append(('id1.v2-respelled', ident(1, '2020-01-01T00:00:00.5Z', 'a2')))
    p.append(('id1.v3', ident(1, '2020-01-01T00:00:00.500001Z', 'a3')))
    p.append(('id1.v3b', ident(1, '2020-01-01T00:00:00.500002Z', 'a3b')))           # several versions inside one millisecond
    p.append(('id1.v3c', ident(1, '2020-01-01T00:00:00.500999Z', 'a3c')))
    p.append(('id1.v4', ident(1, '2020-01-01T00:00:01Z', 'a4')))
    p.append(('id2.v1', ident(2, '2020-02-01T00:00:00.100Z', 'b1')))
    p.append(('id2.v2', ident(2, '2020-02-01T00:00:00.1001Z', 'b2')))
    p.append(('id3(2.0).v1', ident(3, '2020-03-01T00:00:00.000Z', 'c1', ver='2.0')))
    p.append(('id3(2.0).v2', ident(3, '2020-03-01T00:00:00.001Z', 'c2', ver='2.0')))
    p.append(('UPPER-id.v1', dict(ident(4, '2020-04-01T00:00:00.000Z', 'u1'), id='identity--ABCDEF04-0000-4000-8000-00000000ABCD')))
    p.append(('file (unversioned SCO)', {'type': 'file', 'spec_version': '2.1', 'id': 'file--' + U(5), 'name': 'f'}))
    p.append(('marking (unversioned)', {'type': 'marking-definition', 'spec_version': '2.1', 'id': 'marking-definition--' + U(6), 'created': '2020-01-01T00:00:00.000Z',
                                        'definition_type': 'statement', 'definition': {'statement': 's'}}))
    p.append(('registered custom.v1', {'type': 'x-vf-registered', 'spec_version': '2.1', 'id': 'x-vf-registered--' + U(7), 'created': '2020-01-01T00:00:00.000Z',
                                       'modified': '2020-01-01T00:00:00.000Z', 'x_val': 1}))
    p.append(('registered custom.v2', {'type': 'x-vf-registered', 'spec_version': '2.1', 'id': 'x-vf-registered--' + U(7), 'created': '2020-01-01T00:00:00.000Z',
                                       'modified': '2020-01-02T00:00:00.000Z', 'x_val': 2}))
    p.append(('unregistered custom (kept as dict).v1', {'type': 'x-vf-unreg', 'spec_version': '2.1', 'id': 'x-vf-unreg--' + U(8), 'created': '2020-01-01T00:00:00.000Z',
                                                        'modified': '2020-01-01T00:00:00.000Z', 'foo': 1}))
    p.append(('unregistered custom (kept as dict).v2', {'type': 'x-vf-unreg', 'spec_version': '2.1', 'id': 'x-vf-unreg--' + U(8), 'created': '2020-01-01T00:00:00.000Z',
                                                        'modified': '2020-01-02T00:00:00.000Z', 'foo': 2}))
    # identifiers whose UUID is not version 4 (2.1 asks for the RFC 4122 variant only; deterministic SCO ids are version 5)
    p.append(('UUIDv5 id.v1', dict(ident(1, '2020-05-01T00:00:00.000Z', 'v5a'), id='identity--0000000a-0000-5000-8000-00000000000a')))
    p.append(('UUIDv5 id.v2', dict(ident(1, '2020-05-02T00:00:00.000Z', 'v5b'), id='identity--0000000a-0000-5000-8000-00000000000a')))
    p.append(('UUIDv1 id (only object of its type)', {'type': 'campaign', 'spec_version': '2.1', 'id': 'campaign--0000000b-0000-1000-8000-00000000000b', 'created': '2020-01-01T00:00:00.000Z',
                                                      'modified': '2020-01-01T00:00:00.000Z', 'name': 'c'}))
    p.append(('unregistered custom without modified (stored as a plain file next to versioned ones)', {'type': 'x-vf-unreg', 'spec_version': '2.1', 'id': 'x-vf-unreg--' + U(9),
                                                                                                      'created': '2020-01-01T00:00:00.000Z', 'foo': 3}))
    # type names of which another stored type's name is a proper prefix (directory names on disk, whitelists / blacklists of the search shortcuts)
    p.append(('malware (prefix of malware-analysis)', {'type': 'malware', 'spec_version': '2.1', 'id': 'malware--' + U(10), 'created': '2020-01-01T00:00:00.000Z', 'modified': '2020-01-01T00:00:00.000Z',
                                                       'name': 'm', 'is_family': False}))
    p.append(('malware-analysis', {'type': 'malware-analysis', 'spec_version': '2.1', 'id': 'malware-analysis--' + U(11), 'created': '2020-01-01T00:00:00.000Z', 'modified': '2020-01-01T00:00:00.000Z',
                                   'product': 'p', 'result': 'benign'}))
    return p


def ensure_custom_registered():
    import stix2
    from stix2 import registry
    if 'x-vf-registered' not in registry.STIX2_OBJ_MAPS['2.1']['objects']:
        @stix2.v21.CustomObject('x-vf-registered', [('x_val', stix2.properties.IntegerProperty())])
        class VFRegistered(object):
            pass


FORMS = ['object', 'dict', 'list-of-dicts', 'bundle-dict', 'bundle-object', 'json-text']


def in_form(d, form, for_fs):
    """the documented input forms of add()"""
    import stix2
    d = copy.deepcopy(d)
    ver = '2.1' if d.get('spec_version') == '2.1' or d['type'] in ('file',) else '2.0'
    if form == 'object': return stix2.parse(d, allow_custom=True)
    if form == 'dict': return d
    if form == 'list-of-dicts': return [d]
    if form == 'bundle-dict':
        b = {'type': 'bundle', 'id': 'bundle--' + U(99), 'objects': [d]}
        if ver == '2.0': b['spec_version'] = '2.0'
        return b
    if form == 'bundle-object':
        cls = stix2.v21.Bundle if ver == '2.1' else stix2.v20.Bundle
        return cls(objects=[d], allow_custom=True)
    if form == 'json-text': return json.dumps(d) if for_fs else d          # only the filesystem sink documents JSON text
    raise ValueError(form)


def version_key(o):
    """(id, instant of modified or None)"""
    m = o.get('modified') if hasattr(o, 'get') else None
    return (o['id'], text_instant(m) if m is not None else None)


class ListModel:
    def __init__(self): self.items = {}       # version_key -> JSON dict (first one added wins for equal keys: a re-add is not a different version)

    def add(self, d):
        self.items.setdefault(version_key(d), d)

    def get(self, oid):
        vs = [(k, d) for k, d in self.items.items() if k[0] == oid]
        if not vs: return None
        return max(vs, key=lambda kv: (kv[0][1] is not None, kv[0][1] or 0))[0]

    def all_versions(self, oid): return sorted((k for k in self.items if k[0] == oid), key=repr)
    def keys(self): return sorted(self.items, key=repr)
