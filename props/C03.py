"""C03 -- every specification-valid object is accepted and its content preserved."""
import copy, json, os
import z3
from vf.pyvc.lib import REG
from vf.pyvc import timelib  # noqa
from vf import tables as T, objgen as G
from contracts import cleaners as K, lexical as KL, parsing as KP, markings as KM
from props import _objects as O
from props.C02 import lexical_part
from props.C15 import text_to_us

LEVEL = 'other'
ACCEPTED = os.path.join(os.path.dirname(os.path.dirname(os.path.abspath(__file__))), 'spec', 'accepted_variants.json')


def same_value(a, b):
    """input value vs re-serialized value: timestamps as the same instant, everything else equal"""
    if isinstance(a, str) and isinstance(b, str) and T.TS_RE.match(a) and T.TS_RE.match(b): return text_to_us(a) == text_to_us(b)
    if isinstance(a, dict) and isinstance(b, dict): return all(k in b and same_value(v, b[k]) for k, v in a.items())
    if isinstance(a, list) and isinstance(b, list): return len(a) == len(b) and all(same_value(x, y) for x, y in zip(a, b))
    if isinstance(a, float) or isinstance(b, float):
        try: return float(a) == float(b)
        except (TypeError, ValueError): return False
    return a == b


def selectors_of(d, prefix=''):
    """every path of the object as a granular-marking selector (independent path enumerator)"""
    for k, v in d.items():
        if k in ('granular_markings',): continue
        p = f'{prefix}{k}'
        yield p, v
        if isinstance(v, dict): yield from selectors_of(v, p + '.')
        elif isinstance(v, list):
            for i, e in enumerate(v):
                yield f'{p}.[{i}]', e
                if isinstance(e, dict): yield from selectors_of(e, f'{p}.[{i}].')


def run(chk):
    import stix2
    chk.registry = REG
    chk.explanation = ('P (acceptance halves of the iff contracts): every string of each specification grammar is accepted by the corresponding regex; '
                       '_validate_type and IntegerProperty.clean accept every specification-valid value unchanged (boundaries included); the co-constraint overrides '
                       'raise ValueError only when the constraint is violated; dict_to_stix2 dispatches to the registered class.  B: table-driven generator of '
                       'valid objects (every type, minimal / each optional property / all optional, 3 value classes incl. falsy values, boundary numbers, sub-second '
                       'timestamps, every vocabulary entry, every legal reference target type), checked by the independent validator, delivered bare, inside a '
                       'bundle and as an observed-data member: strict parse succeeds and re-serialization reproduces every input property (timestamps as instants); '
                       'granular markings addressing every path of the object; frozen list of accepted variants as a regression oracle.')
    chk.trust('the generator is only as complete as spec/tables_* and the seeds in vf/objgen.py', 'spec/accepted_variants.json (frozen list of generator variants the library accepted when the model was frozen)')
    lexical_part(chk, 'C03')
    from props.C02 import table_invariant
    table_invariant(chk)          # what is accepted is decided by the class tables: vocabularies, reference target types, required flags == the frozen specification model (exhaustive)
    cs = [K.validate_type_contract(), K.integer_clean_contract(), K.integer_clean_contract('bool'), KP.dict_to_stix2_contract()] + [K.order_contract(*row) for row in K.ORDER_TABLE]
    cs += [K.hashes_clean_contract(), K.list_clean_contract(), K.reference_clean_contract(), K.enum_clean_contract(), K.hex_clean_contract(), K.dictionary_clean_contract(), K.float_clean_contract(),
           K.observable_clean_contract(), K.extensions_clean_contract()]        # acceptance of valid values rests on every cleaner
    cs += [KP.init_prefix_contract(), KM.validate_contract(), KM.validate_selector_contract(), KM.evaluate_expression_contract()]        # granular markings on every existing path are accepted
    for c in cs:
        chk.prove(c); chk.canary(c)
    alts = (0, 1, 2)

    # ---- frozen acceptance list: a variant accepted when the model was frozen must still be accepted
    frozen_ok = set(json.load(open(ACCEPTED))) if os.path.exists(ACCEPTED) else None
    now_ok = set()
    for ver in ('2.0', '2.1'):
        for label, cat, cls, kw in G.variants(ver, alts=alts):
            try: G.build(label, cat, cls, kw, ver); now_ok.add(label)
            except Exception: pass
    if os.environ.get('VERIF_FREEZE') == '1': json.dump(sorted(now_ok), open(ACCEPTED, 'w'), indent=0)
    elif frozen_ok is not None:
        lost = sorted(frozen_ok - now_ok)
        for l in lost[:20]:
            chk.violation(f'accept#{l.rsplit("#", 1)[0]}', f'generator variant {l} was accepted when the model was frozen and is rejected now', {'variant': l})
        chk.bounded_runs.append({'name': 'frozen acceptance list', 'bound': 'every generator variant of both versions', 'evaluations': len(frozen_ok), 'distinct_classes': len(frozen_ok),
                                 'witnesses': len(lost), 'wall_s': 0, 'samples': sorted(frozen_ok)[:2]})
        chk.say(f'  [B] frozen acceptance list: {len(frozen_ok)} variants, {len(lost)} no longer accepted')

    def cases():
        for ver in ('2.0', '2.1'):
            for label, cat, cls, kw, o, d in O.corpus(ver, alts=alts if chk.tier == 'thorough' else (0, 1)):
                # the input is the generator's own value for every property it chose (not the library's rendering of it): what the library does to a value on the way in must show
                d = dict(d)
                for k, v in kw.items():
                    if k.startswith('_'): continue
                    if ver == '2.0' and isinstance(v, str) and T.TS_RE.match(v) and k in ('created', 'modified'): continue      # (2.0 created/modified are millisecond-exact: the generator's finer values are not valid input there)
                    try: d[k] = json.loads(json.dumps(v))
                    except (TypeError, ValueError): pass
                if T.validate(d, ver, cat): continue        # only inputs the independent validator calls valid
                # uncertain reading, taken permissively: an EMPTY pattern_version on a 2.1 stix-pattern indicator is read by the library as "not given" and
                # replaced by the default of the spec version (the specification defines that default for an absent value and does not say what an empty one means)
                if d.get('type') == 'indicator' and d.get('pattern_version') == '': continue
                yield (ver, label, cat, d)

    def check(case):
        ver, label, cat, d = case
        forms = [('bare', d)]
        if cat == 'objects' and d['type'] != 'bundle':
            b = {'type': 'bundle', 'id': 'bundle--' + G.UUID, 'objects': [d]}
            if ver == '2.0': b['spec_version'] = '2.0'
            forms.append(('in a bundle', b))
        if cat == 'observables' and ver == '2.0' and not any(k.endswith('_ref') or k.endswith('_refs') for k in d):
            forms.append(('observed-data member', {'type': 'observed-data', 'id': 'observed-data--' + G.UUID, 'created': G.T1, 'modified': G.T1, 'first_observed': G.T1,
                                                    'last_observed': G.T1, 'number_observed': 1, 'objects': {'0': d}}))
        for fname, inp in forms:
            try:
                o = stix2.parse(copy.deepcopy(inp), allow_custom=False) if not (fname == 'bare' and cat == 'observables' and ver == '2.0') else O.strict_parse(inp, cat, ver)
            except Exception as ex:
                return (f'reject#{label.split(":")[2]}:{fname}', f'{label} ({fname}): valid input rejected: {type(ex).__name__}: {str(ex)[:160]}', {'input': inp})
            out = json.loads(o.serialize(include_optional_defaults=True))
            if not same_value(inp, out):
                diff = [k for k in inp if k not in out or not same_value(inp[k], out[k])]
                return (f'preserve#{label.split(":")[2]}:{fname}', f'{label} ({fname}): re-serialization does not reproduce input properties {diff}', {'input': inp, 'output': out})
        return None
    cc = list(cases())
    chk.bounded('valid objects: accepted in strict mode and preserved (bare / bundle / observed-data member)', cc, check, classify=lambda c: c[1],
                bound='every class variant x ' + ('3' if chk.tier == 'thorough' else '2') + ' value classes x up to 3 delivery forms')

    # ---- every vocabulary entry, every legal reference target
    def vocab_cases():
        import stix2.properties as P
        for ver in ('2.0', '2.1'):
            for cname, (cat, cls) in sorted(G.classes(ver).items()):
                if cat not in ('objects', 'observables'): continue
                base = G.minimal(cls, ver)
                for pn, prop in cls._properties.items():
                    p = prop.contained if isinstance(prop, P.ListProperty) and isinstance(prop.contained, P.Property) else prop
                    wrap = (lambda v: [v]) if isinstance(prop, P.ListProperty) else (lambda v: v)
                    if isinstance(p, P.EnumProperty) and not hasattr(p, '_fixed_value'):
                        for v in p.allowed: yield (ver, cname, cat, cls, G.fixup(cls, ver, dict(base, **{pn: wrap(v)}), pn), f'{pn}={v}')
                    elif isinstance(p, P.ReferenceProperty):
                        for t in G.all_ref_targets(p, ver): yield (ver, cname, cat, cls, G.fixup(cls, ver, dict(base, **{pn: wrap(t + '--' + G.UUID2)}), pn), f'{pn}->{t}')

    def check_vocab(case):
        ver, cname, cat, cls, kw, what = case
        try: o = G.build(cname, cat, cls, kw, ver)
        except Exception as ex:
            return (f'reject#{cname}:{what.split("=")[0].split("->")[0]}', f'{ver} {cname} with {what}: legal value rejected: {type(ex).__name__}: {str(ex)[:140]}', {'kwargs': repr(kw)})
    chk.bounded('every vocabulary entry and every legal reference target type', list(vocab_cases()), check_vocab, classify=lambda c: (c[0], c[1], c[5]), bound='every enum value and every allowed target type of every reference property')

    # ---- granular markings addressing any property (incl. falsy values, list elements, embedded objects)
    def marking_cases():
        for ver, label, cat, d in cc:
            if cat != 'objects' or d['type'] in ('bundle', 'marking-definition', 'language-content') or not label.endswith((':all-optional', ':minimal')): continue
            for sel, v in selectors_of(d):
                yield (ver, label, d, sel, v)

    def check_marking(case):
        ver, label, d, sel, v = case
        inp = dict(d, granular_markings=[{'marking_ref': 'marking-definition--613f2e26-407d-48c7-9eca-b8e91df99dc9', 'selectors': [sel]}])
        try: stix2.parse(copy.deepcopy(inp), allow_custom=False)
        except Exception as ex:
            return (f'selector#{type(v).__name__}:{"falsy" if not v and v is not None else "truthy"}', f'{label}: granular marking on existing path {sel!r} (value {v!r}) rejected: {type(ex).__name__}: {str(ex)[:100]}', {'input': inp})
    mc = list(marking_cases())
    if chk.tier == 'quick' and len(mc) > 6000: chk.rng.shuffle(mc); mc = mc[:6000]
    chk.bounded('granular markings addressing every path of valid objects', mc, check_marking, classify=lambda c: (c[1].split(':')[2], c[3]), bound='every path (property, list index, nested key, embedded-object property) of the minimal and all-optional form of every SDO/SRO')

    # ---- observed-data containers whose members reference each other (forward and backward, as in the specification's own examples)
    def container_cases():
        members = {
            'email forward': {'0': {'type': 'email-message', 'is_multipart': False, 'from_ref': '1', 'to_refs': ['2', '1'], 'subject': 's'},
                              '1': {'type': 'email-addr', 'value': 'a@example.com'}, '2': {'type': 'email-addr', 'value': 'b@example.com', 'belongs_to_ref': '3'},
                              '3': {'type': 'user-account', 'user_id': 'u'}},
            'email backward': {'0': {'type': 'email-addr', 'value': 'a@example.com'}, '1': {'type': 'email-message', 'is_multipart': False, 'from_ref': '0'}},
            'network traffic forward': {'0': {'type': 'network-traffic', 'src_ref': '1', 'dst_ref': '2', 'protocols': ['tcp']}, '1': {'type': 'ipv4-addr', 'value': '1.2.3.4'},
                                        '2': {'type': 'ipv4-addr', 'value': '5.6.7.8', 'resolves_to_refs': ['3']}, '3': {'type': 'mac-addr', 'value': '00:00:00:00:00:01'}},
            'file in directory (forward)': {'0': {'type': 'file', 'name': 'f', 'parent_directory_ref': '1'}, '1': {'type': 'directory', 'path': '/tmp', 'contains_refs': ['0']}},
            'process tree': {'5': {'type': 'process', 'pid': 1, 'child_refs': ['7'], 'binary_ref': '9'}, '7': {'type': 'process', 'pid': 2, 'parent_ref': '5'}, '9': {'type': 'file', 'name': 'b'}},
            # property names and value freedoms taken from the specification text, not from the library's tables
            'file times in any order': {'0': {'type': 'file', 'name': 'f', 'created': '2020-01-02T00:00:00Z', 'modified': '2020-01-01T00:00:00Z', 'accessed': '2019-01-01T00:00:00Z'}},
            'encapsulated network traffic': {'0': {'type': 'ipv4-addr', 'value': '1.2.3.4'}, '1': {'type': 'network-traffic', 'src_ref': '0', 'protocols': ['ipv4', 'gre'], 'encapsulated_by_ref': '2'},
                                             '2': {'type': 'network-traffic', 'src_ref': '0', 'protocols': ['ipv4'], 'encapsulates_refs': ['1']}},
            'process times and file times': {'0': {'type': 'process', 'pid': 3, 'created': '2020-01-02T00:00:00Z'}, '1': {'type': 'directory', 'path': '/x', 'created': '2020-01-02T00:00:00Z', 'modified': '2020-01-01T00:00:00Z'}},
        }
        for name, objs in members.items():
            yield (name, {'type': 'observed-data', 'id': 'observed-data--' + G.UUID, 'created': G.T1, 'modified': G.T1, 'first_observed': G.T1, 'last_observed': G.T1,
                          'number_observed': 1, 'objects': objs})

    def check_container(case):
        name, inp = case
        for fname, x in (('bare', inp), ('in a bundle', {'type': 'bundle', 'id': 'bundle--' + G.UUID, 'spec_version': '2.0', 'objects': [inp]})):
            try: o = stix2.parse(copy.deepcopy(x), allow_custom=False)
            except Exception as ex:
                return (f'reject#observed-data container:{name}', f'observed-data container "{name}" ({fname}): valid input rejected: {type(ex).__name__}: {str(ex)[:160]}', {'input': x})
            out = json.loads(o.serialize(include_optional_defaults=True))
            if not same_value(x, out): return (f'preserve#observed-data container:{name}', f'observed-data container "{name}" ({fname}) not preserved', {'input': x, 'output': out})
    chk.bounded('STIX 2.0 observed-data containers with forward and backward member references', list(container_cases()), check_container, classify=lambda c: c[0],
                bound='8 containers after the specification text (e-mail, network traffic incl. encapsulation, directory, process tree, file / directory / process times in any order), bare and in a bundle')

    # ---- identifiers and references spelled with upper-case hexadecimal digits (RFC 4122 reads them case-insensitively; the library keeps them as given)
    UP = 'ABCDEF12-3456-4ABC-8DEF-ABCDEF123456'
    def upper_cases():
        for ver in ('2.0', '2.1'):
            sv = {'spec_version': '2.1'} if ver == '2.1' else {}
            ident = dict({'type': 'identity', 'id': 'identity--' + UP, 'created': G.T1, 'modified': G.T1, 'name': 'n', 'identity_class': 'individual', 'created_by_ref': 'identity--' + UP.replace('A', 'a', 1)}, **sv)
            yield (ver, 'object id and reference', ident)
            yield (ver, 'relationship references', dict({'type': 'relationship', 'id': 'relationship--' + UP, 'created': G.T1, 'modified': G.T1, 'relationship_type': 'uses', 'source_ref': 'identity--' + UP, 'target_ref': 'identity--' + G.UUID,
                                                          'object_marking_refs': ['marking-definition--' + UP]}, **sv))
            yield (ver, 'bundle id and member', dict({'type': 'bundle', 'id': 'bundle--' + UP, 'objects': [ident]}, **({'spec_version': '2.0'} if ver == '2.0' else {})))
        yield ('2.1', 'observable id', {'type': 'file', 'spec_version': '2.1', 'id': 'file--' + UP, 'name': 'f', 'parent_directory_ref': 'directory--' + UP})

    def check_upper(case):
        ver, name, d = case
        try: o = stix2.parse(copy.deepcopy(d), allow_custom=False)
        except Exception as ex: return (f'reject#upper-case identifier:{name}', f'{ver} {name}: identifier with upper-case hexadecimal digits refused: {type(ex).__name__}: {str(ex)[:140]}', {'input': d})
        out = json.loads(o.serialize())
        if not same_value(d, out): return (f'preserve#upper-case identifier:{name}', f'{ver} {name}: not preserved: {out}', {'input': d})
    chk.bounded('identifiers with upper-case hexadecimal digits', list(upper_cases()), check_upper, classify=lambda c: c[:2], bound='own id, references, reference lists, bundle id, observable id; both versions')

    # ---- boundary of the order rules: equal instants (same and different spelling) are legal wherever the specification says "later than or equal to"
    def equal_cases():
        same = ('2020-01-01T00:00:00.25Z', '2020-01-01T00:00:00.250Z')
        for ver in ('2.0', '2.1'):
            for label, cat, cls, kw in G.variants(ver, alts=(0,), with_all=False):
                if not label.endswith(':minimal') or cat not in ('objects', 'observables'): continue
                for early, late in (('first_seen', 'last_seen'), ('first_observed', 'last_observed'), ('start', 'end'), ('created', 'modified')):
                    if early in cls._properties and late in cls._properties:
                        for a, b in ((same[0], same[0]), (same[0], same[1]), (same[1], same[0])): yield (ver, label, cat, cls, kw, early, late, a, b)

    def check_equal(case):
        ver, label, cat, cls, kw, early, late, a, b = case
        kw = dict(kw, **{early: a, late: b})
        if late == 'end': kw['is_active'] = False
        if (early, late) == ('created', 'modified') and cat == 'observables': return None
        try: o = G.build(label, cat, cls, kw, ver)
        except Exception as ex:
            if 'must' in str(ex) and (late in str(ex) or early in str(ex)): return (f'reject#equal instants:{label.split(":")[2]}:{late}', f'{label}: {late} == {early} ({a} / {b}) is legal but was refused: {type(ex).__name__}: {str(ex)[:120]}', {'kwargs': repr(kw)})
            return None
    chk.bounded('order rules: equal instants are accepted where the specification allows them', list(equal_cases()), check_equal, classify=lambda c: (c[1], c[5], c[7], c[8]),
                bound='every type with first_seen/last_seen, first_observed/last_observed, start/end or created/modified x 3 spellings of the same instant')

    # ---- falsy values and the known finding
    for d, what in ((dict(type='malware', spec_version='2.1', id='malware--' + G.UUID, created=G.T1, modified=G.T1, is_family=False, name=''), 'false / empty-string values'),
                    (dict(type='location', spec_version='2.1', id='location--' + G.UUID, created=G.T1, modified=G.T1, latitude=0, longitude=0.0), 'zero coordinates'),
                    (dict(type='autonomous-system', spec_version='2.1', id='autonomous-system--' + G.UUID, number=0), 'integer zero')):
        try:
            out = json.loads(stix2.parse(copy.deepcopy(d)).serialize())
            if not same_value(d, out): chk.violation('preserve#falsy', f'{what}: {d} re-serialized as {out}', {'input': d})
        except Exception as ex:
            chk.violation('reject#falsy', f'{what}: {d} rejected: {ex}', {'input': d})
    try:
        stix2.parse(dict(type='identity', spec_version='2.1', id='identity--' + G.UUID, created='2020-01-01T00:00:00.1234567Z', modified='2020-01-01T00:00:00.1234567Z', name='n'))
    except Exception as ex:
        chk.violation('timestamp#seven or more fraction digits rejected', f'timestamp with 7 fraction digits rejected: {ex}', {})
