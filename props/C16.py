"""C16 -- canonical JSON output conforms to RFC 8785 (bounded stand-in against an independent spec function)."""
import itertools, json, math, struct
from spec.rfc8785 import canon, enc_number
from contracts import canonical as KC
from vf.check import SRC_ROOT

LEVEL = 'other'
RFC_SAMPLES = {0x0000000000000000: '0', 0x8000000000000000: '0', 0x0000000000000001: '5e-324', 0x8000000000000001: '-5e-324', 0x7fefffffffffffff: '1.7976931348623157e+308',
               0xffefffffffffffff: '-1.7976931348623157e+308', 0x4340000000000000: '9007199254740992', 0xc340000000000000: '-9007199254740992', 0x4430000000000000: '295147905179352830000',
               0x44b52d02c7e14af5: '9.999999999999997e+22', 0x44b52d02c7e14af6: '1e+23', 0x44b52d02c7e14af7: '1.0000000000000001e+23', 0x444b1ae4d6e2ef4e: '999999999999999700000',
               0x444b1ae4d6e2ef4f: '999999999999999900000', 0x444b1ae4d6e2ef50: '1e+21', 0x3eb0c6f7a0b5ed8c: '9.999999999999997e-7', 0x3eb0c6f7a0b5ed8d: '0.000001',
               0x41b3de4355555553: '333333333.3333332', 0x41b3de4355555554: '333333333.33333325', 0x41b3de4355555555: '333333333.3333333', 0x41b3de4355555556: '333333333.3333334',
               0x41b3de4355555557: '333333333.33333343', 0xbecbf647612f3696: '-0.0000033333333333333333', 0x43143ff3c1cb0959: '1424953923781206.2'}
A = ['\x00', '\x1f', ' ', '"', '\\', '/', '\x7f', 'é', '퟿', '', '￿', 'דּ', '\U00010000', '\U0001f600', '\U0010ffff', 'a', '\x08', '\n']


def numbers(tier):
    step = 7 if tier == 'quick' else 1
    for d in list(range(1, 20 if tier == 'quick' else 1000)) + [123456789012345, 1234567890123456, 12345678901234567, 9007199254740993, 2**53 - 1, 2**53 + 2]:
        for e in range(-330, 311, step if d < 20 else 13):
            try: x = float(f'{d}e{e}')
            except OverflowError: continue
            if math.isinf(x) or x == 0: continue
            yield x; yield -x
    # every decimal exponent around the notation boundaries (1e-7 .. 1e21), mantissas of 1 to 17 digits: the band where padding and notation decisions are made
    for d in (1, 9, 15, 25, 99, 101, 125, 999, 1001, 99999, 123456, 1234567890123456, 12345678901234567, 99999999999999999):
        for e in range(-28, 26):
            x = float(f'{d}e{e}')
            yield x; yield -x
    for k in range(-1074, 1024):
        x = 2.0 ** k
        for y in (x, math.nextafter(x, 0), math.nextafter(x, math.inf)):
            if y != 0 and not math.isinf(y): yield y
    for x in (1e21, 1e-6, 1e-7, 1e16, 1e15, 123456789012345680.0, 0.1, 0.3, 1 / 3, 5e-324, 1.7976931348623157e308, -0.0, 0.0, 1.5, 1e20, 1e22, 1e-5):
        for y in (x, math.nextafter(x, 0), math.nextafter(x, math.inf)):
            if not math.isinf(y): yield y
    for i in (0, 1, -1, 100, -100, 10**15, 2**53, 2**53 + 1, -(2**53) - 1, 10**21, 10**21 + 1, 10**20, 10**22, 2**64, 123456789012345678901234567890, 10**30):
        yield i


def norm(v):
    """JSON numbers are IEEE doubles: compare numerically"""
    if isinstance(v, bool) or v is None or isinstance(v, str): return v
    if isinstance(v, (int, float)): return float(v)
    if isinstance(v, list): return [norm(x) for x in v]
    return {k: norm(x) for k, x in v.items()}


def run(chk):
    from stix2.canonicalization.Canonicalize import canonicalize
    chk.explanation = ('Proved: convert2Es6Format (the real text, executed symbolically once per shape = sign x number of significant digits x decimal exponent, every digit symbolic) returns '
                       'ECMAScript Number::toString of the double, for every shape of the tier (thorough: all 17 x 633 x 2 shapes of finite doubles), and refuses NaN / infinities / integers '
                       'beyond the double range, under the assumed layout of float.__repr__ (probed each run).  Exhaustive over all code points: the string encoder bound at import and the pure-Python '
                       'fallback write every single character as RFC 8785 3.2.2.2 says.  Call-site obligations tie these to every place where the encoder closures write a number or a '
                       'string and to the member sort (key = UTF-16 big-endian bytes; three z3 lemmas: byte order of that encoding is code-unit order).  NOT proved: the recursive encoder closures '
                       '(generators over nested mutable data, outside the modelled subset) -- nesting, separators, circular-reference bookkeeping, insertion-order independence, parse-back and '
                       'the fixed point are carried by the bounded stand-in: canonicalize(v, utf8=False) against an independent RFC 8785 spec function on a value grid.  '
                       'The spec function itself is checked against the 24 number samples of RFC 8785 Appendix B on every run.')
    for part, fn in (('number contract', lambda: KC.run_number_contract(chk, chk.tier, SRC_ROOT)), ('per-character obligations', lambda: KC.string_obligations(chk)),
                     ('encoder call-site obligations', lambda: KC.structure_obligations(chk, SRC_ROOT))):
        try: fn()
        except Exception as ex:          # the harness of an obligation family does not fit the current source (a name it reads was removed or renamed): undecided, never a fault or a violation
            chk.undecided_notes.append(f'canonicalization {part}: not applicable to the current source ({type(ex).__name__}: {ex})')
    KC.probe_repr_layout(chk, numbers(chk.tier))
    chk.trust('spec/rfc8785.py as a reading of RFC 8785 / ECMA-262 Number::toString (validated against the RFC\'s Appendix B samples each run)')
    bad = [(hex(b), enc_number(struct.unpack('>d', struct.pack('>Q', b))[0]), w) for b, w in RFC_SAMPLES.items() if enc_number(struct.unpack('>d', struct.pack('>Q', b))[0]) != w]
    chk.extra['oracle_selftest'] = {'rfc8785_appendix_b_samples': len(RFC_SAMPLES), 'mismatches': bad}
    if bad: chk.faults.append(f'the RFC 8785 spec function disagrees with the RFC\'s own samples: {bad[:3]}')

    def values():
        for x in numbers(chk.tier): yield x
        for k in range(0, 3):
            for tup in itertools.product(A if k < 2 or chk.tier == 'thorough' else A[::2], repeat=k): yield ''.join(tup)
        for a, b in itertools.permutations(A, 2):
            yield {a: 1, b: 2}
            yield {a + b: [1, {b + a: None}], b: True, a: {'k' + b: 1.5, 'k' + a: -0.0}}
        yield {'a': [1, 2.5, 'x', None, True, False, {}, []], 'Z': {'b': {}, 'a': []}, '': 0, '€': 'euro', '\r': 'cr', '1': 1, '10': 10, '2': 2}
        yield [[[[]]], {'x': {'y': {'z': [1e21, 1e-7, 10**21, 2**53 + 1]}}}]
        # every JSON kind as the WHOLE document (bare scalars and empty containers), and the same kinds one level down
        for v in (True, False, None, 0, 1, -1, 1.0, 0.0, -0.0, 1.5, '', 'true', '1', [], {}, [True], [False], [None], {'a': True}, {'a': False}, [1, True, 1.0], [0, False, 0.0, -0.0]): yield v
        # one container OBJECT occurring several times in a document (aliasing is not a cycle): lists of strings, of numbers, mixed, empty; dictionaries
        for shared in (['tcp', 'http'], ['a'], [1, 2], [1, 'a', None], [], {'k': 'v'}, {}, [['x']], [{'k': ['y']}]):
            yield {'a': shared, 'b': shared}; yield [shared, shared, shared]; yield {'a': shared, 'b': {'c': shared, 'd': [shared]}}
        for bad_ in (float('nan'), float('inf'), -float('inf')):
            yield bad_; yield [bad_]; yield {'a': bad_}; yield {'a': [1, {'b': bad_}]}

    def out(fn, v):
        try: return fn(v)
        except (ValueError, OverflowError) as ex: return 'REFUSED'
        except Exception as ex: return 'EXC ' + type(ex).__name__

    def check(v):
        a = out(lambda x: canonicalize(x, utf8=False), v); b = out(canon, v)
        kind = type(v).__name__
        if a != b:
            cls = 'number' if isinstance(v, (int, float)) else 'string' if isinstance(v, str) else 'structure'
            sub = ''
            if cls == 'number' and isinstance(a, str) and isinstance(b, str): sub = ':exponent form' if ('e' in a or 'e' in b) else ':plain form'
            if cls == 'structure': sub = ':member order' if isinstance(a, str) and isinstance(b, str) and sorted(a) == sorted(b) else ''
            return (f'rfc8785#{cls}{sub}', f'canonicalize({v!r:.80}) = {a!r:.90}, RFC 8785 spec function {b!r:.90}', {'value': repr(v)})
        if a in ('REFUSED',) or a.startswith('EXC'): return None
        back = json.loads(a)
        if isinstance(v, (int, float)) and not isinstance(v, bool):
            if float(back) != float(v): return ('parse-back#number', f'{v!r} canonicalizes to {a} which parses back to {back!r}', {})
        elif not isinstance(v, (int, float)) and norm(back) != norm(json.loads(json.dumps(v))):
            return ('parse-back#value', f'{v!r:.80} -> {a:.80} parses back differently', {})
        if canonicalize(back, utf8=False) != a: return ('idempotent#canonicalizing the parsed output is a fixed point', f'{v!r:.80}', {})
        if isinstance(v, dict) and len(v) > 1:
            rev = dict(reversed(list(v.items())))
            if canonicalize(rev, utf8=False) != a: return ('order#independent of member insertion order', f'{v!r:.80}', {})
        if isinstance(a, str) and (' ' in a.replace('" "', '').replace(' ', '', 0) and False): return None
        return None
    vals = list(values())
    chk.bounded('canonicalize vs independent RFC 8785 spec function', vals, check, classify=lambda v: repr(v)[:60],
                bound='numbers: d*10^e for d in 1..' + ('19' if chk.tier == 'quick' else '999') + ' and 15-17 digit mantissas, e in -330..310; 2^k and its neighbours for k in -1074..1023; '
                      'neighbours of 1e21 / 1e-6 / 1e-7 / 2^53; integers to 10^30; strings of length <= 2 over 18 boundary characters (controls, quote, backslash, U+D7FF/E000/FB33/FFFF, astral); '
                      'key orders over all ordered pairs of those characters; nesting to depth 4; NaN/infinities at every depth')
    # canonical output carries no insignificant whitespace and utf8=True is the UTF-8 encoding of the same text
    for v in ({'a': [1, 2], 'b': {'c': 'x y'}}, [1, {'k': [True, None]}], {'\U0001f600': 1, 'דּ': 2}):
        t = canonicalize(v, utf8=False)
        if any(ch in t.replace('x y', '') for ch in ' \n\t'): chk.violation('whitespace#no insignificant whitespace', f'{t!r}', {})
        if canonicalize(v) != t.encode('utf-8'): chk.violation('utf8#bytes are the UTF-8 encoding of the canonical text', f'{v!r}', {})

    # ---- history: a refused value leaves nothing behind -- the same container objects canonicalize normally once the offending leaf is replaced, whatever was refused before
    def hist_cases():
        for bad_ in (float('nan'), float('inf'), -float('inf'), 10**400):
            for shape in ('list', 'dict', 'nested', 'shared'):
                yield (repr(bad_)[:8], shape, bad_)

    def hist_check(case):
        name, shape, bad_ = case
        inner = {'k': [1, bad_]}; outer = [inner, {'z': inner['k']}]
        v = {'list': inner['k'], 'dict': inner, 'nested': outer, 'shared': {'a': inner, 'b': inner['k']}}[shape]
        if out(lambda x: canonicalize(x, utf8=False), v) != 'REFUSED': return ('rfc8785#number:non-finite refused', f'{shape} holding {name} was not refused', {})
        inner['k'][1] = 2            # the caller repairs its document in place and tries again
        a = out(lambda x: canonicalize(x, utf8=False), v); b = out(canon, v)
        if a != b: return ('history#refusal leaves no trace', f'after a refused attempt ({name} inside a {shape}) the repaired value canonicalizes to {a!r:.80}, specification {b!r:.80}', {})
        for w in (v, [v, v], {'again': v}):
            a = out(lambda x: canonicalize(x, utf8=False), w); b = out(canon, w)
            if a != b: return ('history#refusal leaves no trace', f'after a refused attempt a value containing the same container objects canonicalizes to {a!r:.80}, specification {b!r:.80}', {})
    chk.bounded('history: canonicalization after refused attempts on the same container objects', list(hist_cases()), hist_check, classify=lambda c: c[:2], bound='4 refused leaf values x 4 container shapes (incl. containers shared between members), repaired in place and retried')
