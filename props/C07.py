"""C07 -- data-marking operations form a consistent algebra over (selector, marking) pairs."""
import itertools, json
import z3
from vf.pyvc.lib import REG
from vf.pyvc import timelib  # noqa: F401
from contracts import markings as K

LEVEL = 'exploration'
M1 = 'marking-definition--613f2e26-407d-48c7-9eca-b8e91df99dc9'; M2 = 'marking-definition--34098FCE-860F-48AE-8E50-EBD3CC5E41DA'; LANG = 'en'          # (M2 is spelled with upper-case hexadecimal digits: a valid identifier, kept and compared as given)
MARKS = [M1, M2, LANG]
SELS = ['name', 'description', 'labels', 'labels.[0]', 'labels.[1]', 'created', 'created_by_ref', 'external_references', 'external_references.[0]', 'external_references.[0].source_name',
        'revoked']          # description is "" and revoked is False: selectors address properties, whatever (falsy) value they hold


def bases():
    import stix2
    kw = dict(name='nm', description='', revoked=False, labels=['a', 'b'], created_by_ref='identity--311b2d2d-f010-4473-83ec-1edf84858f4c', created='2017-01-01T00:00:00.000Z',
              modified='2017-01-01T00:00:00.000Z', external_references=[{'source_name': 's', 'url': 'u'}])
    m21 = stix2.v21.Malware(id='malware--311b2d2d-f010-4473-83ec-1edf84858f4c', is_family=True, **kw)
    m20 = stix2.v20.Malware(id='malware--311b2d2d-f010-4473-83ec-1edf84858f4c', **kw)
    # a relationship object carrying the same property names (name as custom content), so that every selector of the family addresses something on it
    r21 = stix2.v21.Relationship('identity--311b2d2d-f010-4473-83ec-1edf84858f4c', 'uses', 'identity--c78cb6e5-0c4b-4611-8297-d1b8b55e40b5',
                                 id='relationship--311b2d2d-f010-4473-83ec-1edf84858f4c', allow_custom=True, **kw)
    out = {'v21 SDO': m21, 'v20 SDO': m20, 'v21 SRO': r21, 'dict': dict(json.loads(m21.serialize()), revoked=False)}      # (a defaulted false is not serialized; the dictionary states it)
    return out


def view(o):
    v = set()
    for gm in o.get('granular_markings', []) or []:
        m = gm.get('marking_ref') or gm.get('lang')
        for s in gm['selectors']: v.add((s, m))
    return frozenset(v)


def objview(o): return frozenset(o.get('object_marking_refs', []) or [])
def is_anc(a, b): return b.startswith(a + '.')          # a is a proper ancestor path of b in the property-path tree


def expected_get(o, sel, inherited, descendants):
    out = set()
    for (s, m) in view(o):
        if s == sel or (inherited and is_anc(s, sel)) or (descendants and is_anc(sel, s)): out.add(m)
    if inherited: out |= set(objview(o))
    return out


def strip(o):
    import stix2.serialization as SS
    d = json.loads(o.serialize()) if hasattr(o, 'serialize') else json.loads(SS.serialize(o))
    for k in ('granular_markings', 'object_marking_refs', 'modified'): d.pop(k, None)
    return d


def mod_of(o):
    from props.C15 import text_to_us
    d = json.loads(o.serialize()) if hasattr(o, 'serialize') else o
    import stix2.utils as SU
    m = d['modified']
    return text_to_us(m if isinstance(m, str) else SU.format_datetime(m))


def run(chk):
    import stix2
    from stix2 import markings
    from stix2.exceptions import MarkingNotFoundError, InvalidSelectorError
    chk.registry = REG
    chk.explanation = ('P (granular, section 18.9 of DESIGN): expand_markings and compress_markings keep exactly the (kind, marking, selector) triples of their input; granular add_markings returns a new version whose '
                       'triples are those of the object united with the added pairs (modular: against the contracts of expand / compress / validate / new_version; utils.validate is called on every returning path); '
                       'idempotence, order-independence and "reported after adding" are lemmas over that contract.  The contracts of new_version / _fudge_modified (C05) are obligations here too.  '
                       'P (object level, set algebra): add_markings hands new_version the set old | added (hence idempotent and order-independent), remove_markings old - removed '
                       'and raises MarkingNotFoundError exactly when something to remove is absent, clear removes everything, is_marked(M) <=> M among the object markings; '
                       'selector validity contracts are shared with C08.  B (granular functions: nested loops over nested data, outside PyVC): from 3 base objects (2.0 SDO, '
                       '2.1 SDO, plain dictionary) all states reachable by <= 2 adds x 11 selectors (incl. string-prefix siblings created / created_by_ref, list indices, properties holding "" and false, '
                       'embedded-object properties) x 3 markings (2 marking refs + 1 language) x inherited/descendants flags: the laws of the statement against a set model; '
                       'multi-selector adds with partial overlap; commutativity; results are new versions with non-marking content unchanged.')
    c = K.granular_set_contract(); chk.prove(c); chk.canary(c)          # "setting equals clearing then adding": the two calls, their arguments and their order (clear_markings itself is not under contract)
    c = K.granular_remove_contract(); chk.prove(c); chk.canary(c)          # granular remove: exactly the named pairs go; MarkingNotFoundError iff none of them is there
    c = K.granular_add_contract(); chk.prove(c); chk.canary(c)          # granular add: view(result) == view(object) | {(kind(m), m, s)}, against the contracts of its callees
    for name, claim in K.add_law_lemmas(): chk.lemma(name, claim)      # idempotent, order-independent, reported after adding: from that contract alone
    c = K.compress_markings_contract(); chk.prove(c); chk.canary(c)          # ... and back: one entry per marking, the same triples (kinds told apart by utils.is_marking)
    c = K.expand_markings_contract(); chk.prove(c); chk.canary(c)          # the normal form every granular operation works on: exactly the (kind, marking, selector) triples of the input
    # every marking result is produced by new_version: its contract (C05) is an obligation of this property too ("every result is a valid new version")
    from contracts import versioning as KV
    for c in (KV.fudge_contract(), KV.new_version_contract()):
        chk.prove(c); chk.canary(c)
    for c in (K.object_add_contract(), K.object_remove_contract(), K.object_is_marked_contract(), K.object_clear_contract(), K.validate_contract(), K.validate_selector_contract(), K.evaluate_expression_contract()):
        chk.prove(c); chk.canary(c)

    bs = bases()
    states = {}

    def add(o, m, s):
        """state construction: every selector used here addresses a property of the base objects, so a refusal is itself a violation"""
        try: return markings.add_markings(o, m, s)
        except Exception as ex:      # noqa
            chk.violation(f'selector#valid selector rejected:{type(ex).__name__}', f'add_markings({m}, {s!r}) on an object holding that property raised {type(ex).__name__}: {str(ex)[:120]}', {'selector': s, 'marking': m})
            return None
    for kind, o0 in bs.items():
        sts = [o0]
        marks = [M1, M2] if kind == 'v20 SDO' else MARKS          # STIX 2.0 has no language markings
        for (s, m) in itertools.product(SELS[:8], marks): sts.append(add(o0, m, s))
        more = []
        for st in sts[1:10]:
            if st is None: continue
            for (s, m) in itertools.product(['name', 'labels', 'created_by_ref', 'created'], marks[::2]): more.append(add(st, m, s))
        sts += more
        st1 = add(o0, M1, None)
        if st1 is not None: sts.append(add(st1, M2, 'labels'))       # object-level + granular
        sts = [x for x in sts if x is not None]
        # markings as they may arrive from elsewhere: the same (selector, marking) pair spelled more than once (repeated selector, overlapping entries)
        red = [{'marking_ref': M1, 'selectors': ['name', 'name', 'labels']}, {'marking_ref': M1, 'selectors': ['name', 'description']}, {'marking_ref': M2, 'selectors': ['labels.[0]']},
               {'marking_ref': M2, 'selectors': ['labels.[0]', 'created']}]
        if chk.tier == 'quick': sts = sts[::3]
        try:
            if isinstance(o0, dict): sts.insert(1, dict(o0, granular_markings=red))
            else: sts.insert(1, type(o0)(allow_custom=True, **dict({k: v for k, v in o0.items() if k != 'type'}, granular_markings=red)))
        except Exception as ex:      # noqa
            chk.violation('input#redundantly spelled markings accepted', f'{kind}: granular_markings spelling a pair twice refused: {type(ex).__name__}: {ex}', {})
        states[kind] = sts

    def cases():
        for kind, sts in states.items():
            for i, st in enumerate(sts):
                for s in SELS: yield (kind, i, s)

    def check(case):
        kind, i, s = case
        st = states[kind][i]; v0 = view(st)
        ctx = f'{kind}, state {sorted(v0)[:4]}'
        MARKS_K = [M1, M2] if kind == 'v20 SDO' else MARKS
        for m in MARKS_K:
            try:
                a1 = markings.add_markings(st, m, s)
            except InvalidSelectorError: return ('selector#valid selector rejected', f'{ctx}: add_markings({m}, {s!r}) rejected a valid selector', {})
            if view(a1) != v0 | {(s, m)}: return ('add#view == old | {(s, m)}', f'{ctx}: after add({m[-4:]}, {s}) the view differs by {sorted(view(a1) ^ (v0 | {(s, m)}))[:3]}', {})
            if view(markings.add_markings(a1, m, s)) != view(a1): return ('add#idempotent', f'{ctx}: adding ({s}, {m[-4:]}) twice changes the set', {})
            if strip(a1) != strip(st): return ('add#non-marking content unchanged', f'{ctx}: add changed non-marking content', {})
            if (s, m) not in v0 and not mod_of(a1) > mod_of(st): return ('add#result is a new version', f'{ctx}: modified did not advance', {})
            if m not in markings.get_markings(a1, s): return ('add#then reported by get_markings', f'{ctx}: ({s}, {m[-4:]}) not reported after add', {})
            if not markings.is_marked(a1, m, s): return ('add#then reported by is_marked', f'{ctx}: ({s}, {m[-4:]}) not is_marked after add', {})
            if (s, m) not in v0:
                r = markings.remove_markings(a1, m, s)
                if view(r) != v0: return ('remove#after fresh add restores', f'{ctx}: add then remove ({s}, {m[-4:]}) leaves {sorted(view(r) ^ v0)[:3]}', {})
            # multi-selector add with partial overlap, and commutativity
            for s2 in ('description', 'labels.[1]'):
                if s2 == s: continue
                a12 = markings.add_markings(a1, m, [s, s2])
                if view(a12) != v0 | {(s, m), (s2, m)}: return ('add#multi-selector add with partial overlap', f'{ctx}: add({m[-4:]}, {s}) then add({m[-4:]}, [{s}, {s2}]) gives {sorted(view(a12) ^ (v0 | {(s, m), (s2, m)}))[:3]}', {})
                b = markings.add_markings(markings.add_markings(st, M2, s2), m, s); c = markings.add_markings(markings.add_markings(st, m, s), M2, s2)
                if view(b) != view(c): return ('add#order-independent', f'{ctx}: adds commute? {sorted(view(b) ^ view(c))[:3]}', {})
        # removing a pair that is present (however often it is spelled) leaves exactly the other pairs
        for m in MARKS_K:
            if (s, m) in v0:
                try: r0 = markings.remove_markings(st, m, s)
                except MarkingNotFoundError: return ('remove#present pair refused', f'{ctx}: remove({m[-4:]}, {s}) refused although the pair is present', {})
                if view(r0) != v0 - {(s, m)}: return ('remove#view == old - {(s, m)}', f'{ctx}: after remove({m[-4:]}, {s}) the view differs from old - pair by {sorted(view(r0) ^ (v0 - {(s, m)}))[:3]}', {})
                if markings.is_marked(r0, m, s): return ('remove#then no longer reported', f'{ctx}: ({s}, {m[-4:]}) still is_marked after remove', {})
        # lists of markings and lists of selectors in one call: the same set operations, pairwise
        s2 = 'labels.[1]' if s != 'labels.[1]' else 'description'
        ms2 = [M1, M2]; pairs = {(x, m) for x in (s, s2) for m in ms2}
        try:
            am = markings.add_markings(st, ms2, [s, s2])
            if view(am) != v0 | pairs: return ('add#lists of markings and selectors', f'{ctx}: add({[m[-4:] for m in ms2]}, [{s}, {s2}]) differs from the union by {sorted(view(am) ^ (v0 | pairs))[:3]}', {})
            if not (pairs & v0):
                rm = markings.remove_markings(am, ms2, [s, s2])
                if view(rm) != v0: return ('remove#lists of markings and selectors restore', f'{ctx}: removing the pairs just added leaves {sorted(view(rm) ^ v0)[:3]}', {})
            cm = markings.clear_markings(am, [s, s2]); exp_c = frozenset((x, m) for (x, m) in view(am) if x not in (s, s2))
            if view(cm) != exp_c: return ('clear#list of selectors', f'{ctx}: clear([{s}, {s2}]) leaves {sorted(view(cm) ^ exp_c)[:3]}', {})
            sm = markings.set_markings(am, [M2], [s, s2]); exp_s = exp_c | {(s, M2), (s2, M2)}
            if view(sm) != exp_s: return ('set#list of selectors', f'{ctx}: set([M2], [{s}, {s2}]) differs by {sorted(view(sm) ^ exp_s)[:3]}', {})
        except (InvalidSelectorError, MarkingNotFoundError) as ex:
            return ('add#lists of markings and selectors', f'{ctx}: list-valued call on ({s}, {s2}) raised {type(ex).__name__}', {})
        for inh, desc in itertools.product([False, True], repeat=2):
            got = set(markings.get_markings(st, s, inherited=inh, descendants=desc)); exp = expected_get(st, s, inh, desc)
            if got != exp: return (f'query#get_markings follows the path tree (inherited={inh}, descendants={desc})', f'{ctx}: get_markings({s}, inherited={inh}, descendants={desc}) = {sorted(x[-6:] for x in got)}, path-tree model {sorted(x[-6:] for x in exp)}', {})
            for m in MARKS_K:
                im = markings.is_marked(st, m, s, inherited=inh, descendants=desc)
                if im != (m in got): return ('query#is_marked(M) <=> M in get_markings', f'{ctx}: is_marked({m[-4:]}, {s}, inherited={inh}, descendants={desc}) = {im} but get_markings gives {sorted(x[-6:] for x in got)}', {})
            if markings.is_marked(st, None, s, inherited=inh, descendants=desc) != bool(got): return ('query#is_marked() <=> get_markings non-empty', f'{ctx}: {s} inherited={inh} descendants={desc}', {})
            if hasattr(st, 'get_markings') and set(st.get_markings(s, inherited=inh, descendants=desc)) != got: return ('query#method agrees with function', f'{ctx}: {s}', {})
        try:
            c = markings.clear_markings(st, s); exp = frozenset((s2, m2) for (s2, m2) in v0 if s2 != s)
            if view(c) != exp: return ('clear#nothing on s, everything elsewhere', f'{ctx}: clear({s}) leaves {sorted(view(c) ^ exp)[:3]}', {})
            cleared_ok = True
        except MarkingNotFoundError:
            cleared_ok = False
            if any(s2 == s for (s2, _) in v0): return ('clear#raises although marked', f'{ctx}: clear({s})', {})
        # the kind flags: clear / set restricted to marking-ref markings or to language markings touch only that kind on s
        isref = lambda m_: m_.startswith('marking-definition--')
        for mr, lg in ((True, False), (False, True)):
            try:
                cf = view(markings.clear_markings(st, s, marking_ref=mr, lang=lg)); cfe = None
                expf = frozenset((s2, m2) for (s2, m2) in v0 if not (s2 == s and ((mr and isref(m2)) or (lg and not isref(m2)))))
                if cf != expf: return (f'clear#kind flags (marking_ref={mr}, lang={lg})', f'{ctx}: clear({s}, marking_ref={mr}, lang={lg}) gives {sorted(cf ^ expf)[:3]} wrong', {})
            except MarkingNotFoundError: cf = None; cfe = 'MarkingNotFoundError'
            for m in [x_ for x_ in (M1, LANG) if x_ in MARKS_K]:
                try: sf = view(markings.set_markings(st, m, s, marking_ref=mr, lang=lg)); sfe = None
                except MarkingNotFoundError: sf = None; sfe = 'MarkingNotFoundError'
                try: caf = view(markings.add_markings(markings.clear_markings(st, s, marking_ref=mr, lang=lg), m, s)); cafe = None
                except MarkingNotFoundError: caf = None; cafe = 'MarkingNotFoundError'
                if (sf, sfe) != (caf, cafe): return (f'set#equals clear then add (marking_ref={mr}, lang={lg})', f'{ctx}: set({m[-4:]}, {s}, marking_ref={mr}, lang={lg}) = {sf and sorted(sf)[:3]}/{sfe}; clear;add = {caf and sorted(caf)[:3]}/{cafe}', {})
        for m in MARKS_K[::2]:
            # setting equals clearing then adding -- as program equivalence, including the exceptional outcome
            try: sset = view(markings.set_markings(st, m, s)); sexc = None
            except MarkingNotFoundError: sset = None; sexc = 'MarkingNotFoundError'
            try: ca = view(markings.add_markings(markings.clear_markings(st, s), m, s)); cexc = None
            except MarkingNotFoundError: ca = None; cexc = 'MarkingNotFoundError'
            if (sset, sexc) != (ca, cexc): return ('set#equals clear then add', f'{ctx}: set({m[-4:]}, {s}) = {sset and sorted(sset)[:3]}/{sexc}; clear;add = {ca and sorted(ca)[:3]}/{cexc}', {})
        return None
    chk.bounded('marking laws against the set model', list(cases()), check, classify=lambda c: c,
                bound='4 base objects (2.0 SDO, 2.1 SDO, 2.1 SRO, dictionary) x states reachable by <= 2 adds (' + ('every 3rd state' if chk.tier == 'quick' else 'all') + ') x 11 selectors x 3 markings x 4 flag combinations')

    # object-level laws natively (the proved contracts, on the real functions)
    def ocases():
        for kind, o0 in bs.items():
            for pre in ([], [M1], [M1, M2]):
                for m in ([M1], [M2], [M1, M2]): yield (kind, tuple(pre), tuple(m))

    def ocheck(case):
        kind, pre, m = case
        o = bs[kind]
        if pre: o = markings.add_markings(o, list(pre), None)
        a = markings.add_markings(o, list(m), None)
        if objview(a) != objview(o) | set(m): return ('object#add == union', f'{kind}: {pre} + {m} -> {sorted(objview(a))}', {})
        if objview(markings.add_markings(a, list(m), None)) != objview(a): return ('object#add idempotent', f'{kind}', {})
        if set(m) <= set(pre):
            r = markings.remove_markings(o, list(m), None)
            if objview(r) != objview(o) - set(m): return ('object#remove == difference', f'{kind}: {pre} - {m} -> {sorted(objview(r))}', {})
        elif pre:
            try:
                markings.remove_markings(o, list(m), None); return ('object#remove of an absent marking refused', f'{kind}: {pre} - {m} accepted', {})
            except MarkingNotFoundError: pass
        for x in (M1, M2):
            if markings.is_marked(a, x) != (x in objview(a)): return ('object#is_marked(M) <=> M in get_markings', f'{kind}', {})
        if set(markings.get_markings(a)) != objview(a): return ('object#get_markings', f'{kind}', {})
        if objview(markings.clear_markings(a)): return ('object#clear', f'{kind}', {})
        if objview(markings.set_markings(a, list(m))) != set(m): return ('object#set == clear then add', f'{kind}', {})
        if strip(a) != strip(o): return ('object#non-marking content unchanged', f'{kind}', {})
    chk.bounded('object-level laws', list(ocases()), ocheck, classify=lambda c: c, bound='4 objects x 3 prior marking sets x 3 marking arguments')

    # marking definitions are markable but not versionable: the queries follow the same path-tree model on them (object and dictionary form), mutation is refused
    md = stix2.v21.MarkingDefinition(definition_type='statement', definition=stix2.v21.StatementMarking('s'), name='n', created_by_ref='identity--311b2d2d-f010-4473-83ec-1edf84858f4c',
                                     granular_markings=[{'marking_ref': M1, 'selectors': ['name', 'definition.statement']}, {'lang': LANG, 'selectors': ['definition']},
                                                        {'marking_ref': M2, 'selectors': ['created', 'created_by_ref']}], object_marking_refs=[M2])
    mds = {'marking-definition object': md, 'marking-definition dictionary': json.loads(md.serialize())}

    def md_cases():
        for k in mds:
            for sel in ('name', 'definition', 'definition.statement', 'created', 'created_by_ref', 'definition_type'):
                for inh, desc in itertools.product([False, True], repeat=2): yield (k, sel, inh, desc)

    def md_check(case):
        k, sel, inh, desc = case; o = mds[k]
        got = set(markings.get_markings(o, sel, inherited=inh, descendants=desc)); exp = expected_get(o, sel, inh, desc)
        if got != exp: return (f'query#get_markings follows the path tree (inherited={inh}, descendants={desc})', f'{k}: get_markings({sel}, inherited={inh}, descendants={desc}) = {sorted(x[-6:] for x in got)}, path-tree model {sorted(x[-6:] for x in exp)}', {})
        for m in MARKS:
            if markings.is_marked(o, m, sel, inherited=inh, descendants=desc) != (m in got): return ('query#is_marked(M) <=> M in get_markings', f'{k}: {sel} {m[-4:]} inherited={inh} descendants={desc}', {})
        if k.endswith('object'):
            for fn in (lambda: markings.add_markings(o, M1, sel), lambda: markings.clear_markings(o, sel), lambda: markings.add_markings(o, M1, None)):
                try: r = fn()
                except (stix2.exceptions.STIXError, ValueError): continue
                if view(o) != view(md) or objview(o) != objview(md): return ('frame#marking definition unchanged', f'{k}: a refused or accepted marking operation changed the marking definition', {})
    chk.bounded('marking definitions: queries against the path-tree model', list(md_cases()), md_check, classify=lambda c: c, bound='marking definition as object and dictionary x 6 selectors x 4 flag combinations x 3 markings')

    # selectors whose nested steps are one or two characters long (dictionary keys: language codes, observed-data member keys): the same laws
    from props.C08 import shapes as sel_shapes
    short = {'language-content21': ['contents.de', 'contents.de.name', 'contents.fr.name', 'contents', 'contents.en.name', 'contents.en-us', 'contents.en-us.description'],
             'observed-data20': ['objects.0', 'objects.0.name', 'objects.a1.value', 'objects'],
             'report21 (long lists)': ['labels.[2]', 'labels.[9]', 'labels.[10]', 'labels.[11]', 'object_refs.[10]', 'labels']}

    def short_cases():
        for name, sels in short.items():
            for form in ('object', 'dictionary'):
                for sel in sels:
                    for m in (M1, LANG) if '21' in name else (M1,): yield (name, form, sel, m)

    def short_check(case):
        name, form, sel, m = case
        d = sel_shapes()[name]; o = stix2.parse(dict(d)) if form == 'object' else dict(d)
        ctx = f'{name} ({form})'
        try:
            a = markings.add_markings(o, m, sel)
            if view(a) != {(sel, m)}: return ('add#view == old | {(s, m)}', f'{ctx}: add({m[-4:]}, {sel}) gives {sorted(view(a))}', {})
            if m not in markings.get_markings(a, sel) or not markings.is_marked(a, m, sel): return ('add#then reported by get_markings', f'{ctx}: ({sel}, {m[-4:]}) not reported after add', {})
            par = sel.rsplit('.', 1)[0]
            if par != sel and m not in markings.get_markings(a, par, descendants=True): return ('query#get_markings follows the path tree (inherited=False, descendants=True)', f'{ctx}: {sel} not found below {par}', {})
            if view(markings.remove_markings(a, m, sel)): return ('remove#after fresh add restores', f'{ctx}: remove after add leaves {sorted(view(markings.remove_markings(a, m, sel)))}', {})
            if view(markings.clear_markings(a, sel)): return ('clear#nothing on s, everything elsewhere', f'{ctx}: clear({sel}) leaves something', {})
            if view(markings.set_markings(a, M2, sel)) != {(sel, M2)}: return ('set#equals clear then add', f'{ctx}: set(M2, {sel})', {})
            if form == 'object' and stix2.parse(a.serialize()) != a: return ('add#result is a valid object', f'{ctx}: the marked object does not survive serialize/parse', {})
        except (stix2.exceptions.STIXError, ValueError) as ex:
            return ('selector#valid selector rejected:' + type(ex).__name__, f'{ctx}: marking operations on the existing path {sel!r} raised {type(ex).__name__}: {str(ex)[:100]}', {})
    chk.bounded('selectors with one- and two-character nested steps', list(short_cases()), short_check, classify=lambda c: c, bound='language-content (2.1; sibling keys en / en-us), observed-data (2.0), a report with lists of 11 and 12 elements; object and dictionary form, 4-7 selectors each, marking-ref and language markings')
    marking_forms_family(chk)


def marking_forms_family(chk):
    """every way a marking can be named in a call -- its id, the MarkingDefinition object, a list of one, a list mixing both -- gives the same result as the id; queries
    with any form agree with get_markings; object-level and granular; objects of both versions and dictionaries"""
    import stix2
    from stix2 import markings, v20, v21
    t = '2020-01-02T03:04:05.000Z'

    def objs():
        yield 'v21 object', v21.Malware(name='m', is_family=False, description='d', created=t, modified=t), (v21.TLP_AMBER, v21.TLP_GREEN)
        yield 'v20 object', v20.Malware(name='m', labels=['x'], description='d', created=t, modified=t), (v20.TLP_AMBER, v20.TLP_GREEN)
        yield 'v21 dictionary', json.loads(v21.Malware(name='m', is_family=False, description='d', created=t, modified=t).serialize()), (v21.TLP_AMBER, v21.TLP_GREEN)
        yield 'v21 relationship', v21.Relationship('identity--311b2d2d-f010-4473-83ec-1edf84858f4c', 'related-to', 'identity--c78cb6e5-0c4b-4611-8297-d1b8b55e40b5', description='d', created=t, modified=t), (v21.TLP_AMBER, v21.TLP_GREEN)

    def strip(o):
        d = json.loads(o.serialize()) if hasattr(o, 'serialize') else json.loads(json.dumps(o, default=str))
        d.pop('modified', None)
        if 'granular_markings' in d: d['granular_markings'] = sorted(d['granular_markings'], key=lambda g: json.dumps(g, sort_keys=True))
        if 'object_marking_refs' in d: d['object_marking_refs'] = sorted(d['object_marking_refs'])
        return d

    def cases():
        for kind, o, (A, G) in objs():
            first = 'relationship_type' if 'relationship' in kind else 'name'
            for sel in (None, [first], [first, 'description']):
                for fname, form, ids in (('object', A, [A.id]), ('list of one object', [A], [A.id]), ('list of one id', [A.id], [A.id]), ('object + id', [A, G.id], [A.id, G.id]), ('id + object', [A.id, G], [A.id, G.id])):
                    yield (kind, o, sel, fname, form, ids)

    def check(case):
        kind, o, sel, fname, form, ids = case
        ctx = f'{kind}, selectors {sel}, marking given as {fname}'
        try:
            want = markings.add_markings(o, ids, sel); got = markings.add_markings(o, form, sel)
            if strip(got) != strip(want): return ('forms#add: every way of naming a marking gives the same result', f'{ctx}: {strip(got)} vs {strip(want)}', {})
            for inh, desc in itertools.product((False, True), repeat=2):
                if sel is None and (inh or desc): continue
                reported = markings.get_markings(want, sel, inherited=inh, descendants=desc) if sel is not None else markings.get_markings(want)
                for one_id, one_form in zip(ids, form if isinstance(form, list) else [form]):
                    kw = dict(inherited=inh, descendants=desc) if sel is not None else {}
                    r = markings.is_marked(want, one_form, sel, **kw)
                    if r != (one_id in reported): return ('query#is_marked(M) <=> M in get_markings', f'{ctx}: is_marked({type(one_form).__name__}, inherited={inh}, descendants={desc}) = {r}, get_markings reports {sorted(x[-6:] for x in reported)}', {})
                    if hasattr(want, 'is_marked') and want.is_marked(one_form, sel, **kw) != r: return ('query#method and function agree', f'{ctx}', {})
                r = markings.is_marked(want, form, sel, **(dict(inherited=inh, descendants=desc) if sel is not None else {}))
                if r is not True: return ('add#then reported by is_marked', f'{ctx}: is_marked(<the same argument>, inherited={inh}, descendants={desc}) = {r} right after add', {})
            if strip(markings.remove_markings(want, form, sel)) != strip(markings.remove_markings(want, ids, sel)): return ('forms#remove: every way of naming a marking gives the same result', ctx, {})
            if strip(markings.set_markings(o, form, sel)) != strip(markings.set_markings(o, ids, sel)): return ('forms#set: every way of naming a marking gives the same result', ctx, {})
        except (stix2.exceptions.STIXError, ValueError, TypeError) as ex:
            return ('forms#accepted:' + type(ex).__name__, f'{ctx}: {type(ex).__name__}: {str(ex)[:120]}', {})
    chk.bounded('marking argument forms (id, object, lists of either)', list(cases()), check, classify=lambda c: (c[0], repr(c[2]), c[3]),
                bound='4 subjects x 3 selector sets (object-level, one, two) x 5 forms x inherited/descendants flags; add / is_marked / remove / set, function and method')
