"""C05 -- new versions are strictly newer, identity-preserving and exact (proof of the ordering core + bounded composition)."""
import copy, datetime as dtm, itertools, json
import z3
from vf.pyvc.lib import REG
from vf.pyvc import timelib  # noqa: F401
from vf.selftest import mutation_selftest
from contracts import versioning as K, timefmt as KT
from props.C15 import text_to_us

LEVEL = 'other'
UTC = dtm.timezone.utc


def base_objects():
    import stix2
    from stix2 import v20, v21
    ident21 = 'identity--311b2d2d-f010-4473-83ec-1edf84858f4c'
    out = []
    # types made by the CustomObject decorators version like the built-in ones
    from stix2 import registry
    if 'x-vf-c05' not in registry.STIX2_OBJ_MAPS['2.1']['objects']:
        @v21.CustomObject('x-vf-c05', [('name', stix2.properties.StringProperty())])
        class Custom21(object): pass
    if 'x-vf-c05' not in registry.STIX2_OBJ_MAPS['2.0']['objects']:
        @v20.CustomObject('x-vf-c05', [('name', stix2.properties.StringProperty())])
        class Custom20(object): pass
    C21, C20 = registry.STIX2_OBJ_MAPS['2.1']['objects']['x-vf-c05'], registry.STIX2_OBJ_MAPS['2.0']['objects']['x-vf-c05']
    for us in (0, 999, 123456, 999999):
        t = dtm.datetime(2020, 1, 2, 3, 4, 5, us, tzinfo=UTC)
        ts = stix2.utils.format_datetime(stix2.utils.STIXdatetime(t))
        out.append(('v21.Identity', v21.Identity(name='a', identity_class='individual', created=t, modified=t)))
        out.append(('v21.Indicator', v21.Indicator(pattern="[file:name = 'x']", pattern_type='stix', valid_from=t, created=t, modified=t, created_by_ref=ident21)))
        out.append(('v21.Relationship', v21.Relationship(ident21, 'related-to', 'identity--c78cb6e5-0c4b-4611-8297-d1b8b55e40b5', created=t, modified=t)))
        out.append(('v20.Identity', v20.Identity(name='a', identity_class='individual', created=t, modified=t)))
        out.append(('v20.Malware', v20.Malware(name='m', labels=['trojan'], created=t, modified=t)))
        out.append(('v21.CustomObject', C21(name='a', created=t, modified=t)))
        out.append(('v20.CustomObject', C20(name='a', created=t, modified=t)))
        out.append(('dict21', {'type': 'identity', 'spec_version': '2.1', 'id': ident21, 'created': ts, 'modified': ts, 'name': 'a', 'identity_class': 'individual'}))
        out.append(('dict20', {'type': 'identity', 'id': ident21, 'created': ts[:23] + 'Z' if '.' in ts else ts, 'modified': ts, 'name': 'a', 'identity_class': 'individual'}))
        out.append(('dict-unregistered', {'type': 'x-unreg', 'spec_version': '2.1', 'id': 'x-unreg--311b2d2d-f010-4473-83ec-1edf84858f4c', 'created': ts, 'modified': ts, 'foo': 1}))
    return out


CLOCK_DELTAS = [-10**6, -1, 0, 1, 999, 1000, 1001, 10**6]      # microseconds relative to the old modified time
CHANGES = [{}, {'name': 'b'}, {'labels': ['x']}, {'name': None}, {'x_custom': 1}]


def modified_us(o):
    m = o['modified'] if not isinstance(o, dict) or 'modified' in o else o.get('created')
    if isinstance(m, str): return text_to_us(m)
    import stix2.utils as U
    return text_to_us(U.format_datetime(m))


def ser_modified_us(o):
    """the modified instant as it appears after serialization at the object's own precision"""
    if isinstance(o, dict):
        return text_to_us(o['modified']) if isinstance(o['modified'], str) else modified_us(o)
    return text_to_us(json.loads(o.serialize())['modified'])


def as_json(o):
    if isinstance(o, dict):
        import stix2.serialization as S
        return json.loads(S.serialize(o))
    return json.loads(o.serialize())


def check_step(case):
    import stix2, stix2.versioning as V, stix2.utils as U
    kind, obj, delta, changes = case
    before = copy.deepcopy(obj) if isinstance(obj, dict) else obj.serialize()
    old_us = ser_modified_us(obj)
    real_clock = V.get_timestamp
    if isinstance(obj, dict): old_dt = U.parse_into_datetime(obj['modified'])
    else: old_dt = obj['modified']
    V.get_timestamp = lambda: U.STIXdatetime(old_dt + dtm.timedelta(microseconds=delta))
    try:
        try:
            new = V.new_version(obj, allow_custom=True if 'x_custom' in changes else None, **changes)
        except stix2.exceptions.STIXError as ex:
            if 'x_custom' in changes or changes.get('name', 1) is None: return None      # removing a required property / custom: refusal is legitimate
            return ('step#legal change set accepted', f'{kind}: new_version({changes}) refused: {type(ex).__name__}: {ex}', {})
    finally:
        V.get_timestamp = real_clock
    after = copy.deepcopy(obj) if isinstance(obj, dict) else obj.serialize()
    if before != after: return ('step#original untouched', f'{kind}: original changed by new_version({changes})', {})
    new_us = ser_modified_us(new)
    if not new_us > old_us:
        return ('step#serialized modified strictly later', f'{kind} clock=old{delta:+d}us: serialized modified {new_us} is not later than {old_us}', {'delta': delta})
    jo, jn = as_json(obj), as_json(new)
    for k in ('type', 'id', 'created', 'created_by_ref'):
        if jo.get(k) != jn.get(k): return ('step#identity preserved', f'{kind}: {k} changed from {jo.get(k)!r} to {jn.get(k)!r}', {})
    for k in set(jo) | set(jn):
        if k in ('modified',): continue
        want = changes[k] if k in changes else jo.get(k)
        if k in changes and changes[k] is None: want = None
        if jn.get(k) != want: return ('step#exactly the requested changes', f'{kind}: property {k}: expected {want!r}, new version has {jn.get(k)!r} after changes {changes}', {})
    return None


def check_refusals(case):
    import stix2, stix2.versioning as V
    kind, obj = case
    E = stix2.exceptions
    for prop, val in (('id', 'identity--00000000-0000-4000-8000-000000000000'), ('type', 'identity'), ('created', '2021-01-01T00:00:00Z'), ('created_by_ref', 'identity--00000000-0000-4000-8000-000000000000')):
        try:
            V.new_version(obj, **{prop: val})
            return ('refusal#unmodifiable property refused', f'{kind}: changing {prop} was accepted', {})
        except E.UnmodifiablePropertyError: pass
        # the same name handed over through the documented custom_properties keyword: refused, or at least without effect on the new version
        if not isinstance(obj, dict):
            try:
                nv = V.new_version(obj, custom_properties={prop: val})
                if nv.get(prop) != obj.get(prop):
                    return ('refusal#unmodifiable property through custom_properties', f'{kind}: new_version(custom_properties={{{prop!r}: ...}}) gave the new version {prop}={nv.get(prop)!r} (original: {obj.get(prop)!r})', {})
            except E.STIXError: pass
            except (ValueError, TypeError): pass
    # a removal request (None) for a locked property is a change of that property: refused, or at least without effect
    locked = ['id', 'type', 'created', 'created_by_ref']
    if not isinstance(obj, dict) and hasattr(type(obj), '_id_contributing_properties') and str(obj.get('id', ''))[-36:][14] == '5': locked += [p for p in type(obj)._id_contributing_properties if p in obj]
    for prop in locked:
        for how in ('keyword', 'custom_properties'):
            if how == 'custom_properties' and isinstance(obj, dict): continue
            try: nv = V.new_version(obj, **({prop: None} if how == 'keyword' else {'custom_properties': {prop: None}}))
            except (E.STIXError, ValueError, TypeError): continue
            if nv.get(prop) != obj.get(prop):
                return ('refusal#removal of an unmodifiable property', f'{kind}: new_version({prop}=None) [{how}] gave the new version {prop}={nv.get(prop)!r} (original: {obj.get(prop)!r})', {})
    old = obj['modified']
    for supplied in (old, (old if isinstance(old, str) else None)):
        if supplied is None: continue
        try:
            V.new_version(obj, modified=supplied)
            return ('refusal#supplied modified must be strictly later', f'{kind}: modified={supplied!r} (equal to the current one) accepted', {})
        except E.InvalidValueError: pass
    # a caller-supplied modified given as a datetime in another zone is judged (and applied) as the instant it denotes
    import stix2.utils as SU
    old_us = modified_us(obj)
    for off_h in (-5, 5, 14):
        tz = dtm.timezone(dtm.timedelta(hours=off_h))
        later = (dtm.datetime(1, 1, 1, tzinfo=UTC) + dtm.timedelta(microseconds=old_us + 60 * 10**6)).astimezone(tz)          # one minute later, local wall clock hours away
        earlier = (dtm.datetime(1, 1, 1, tzinfo=UTC) + dtm.timedelta(microseconds=old_us - 60 * 10**6)).astimezone(tz)
        try:
            nv = V.new_version(obj, modified=later)
            if modified_us(nv) // 1000 != (old_us + 60 * 10**6) // 1000:
                return ('exact#supplied modified applied as the instant it denotes', f'{kind}: modified={later.isoformat()} was applied as {nv["modified"]}', {})
        except E.InvalidValueError:
            return ('refusal#later supplied modified accepted', f'{kind}: modified={later.isoformat()} (one minute later than the current one) was refused', {})
        try:
            V.new_version(obj, modified=earlier)
            return ('refusal#supplied modified must be strictly later', f'{kind}: modified={earlier.isoformat()} (one minute EARLIER than the current one, in UTC{off_h:+d}) accepted', {})
        except E.InvalidValueError: pass
    try:
        r = V.revoke(obj)
    except E.STIXError as ex:
        return ('refusal#revoke works once', f'{kind}: first revoke refused: {ex}', {})
    import stix2.markings as MKS
    rd = json.loads(r.serialize()) if hasattr(r, 'serialize') else dict(r)        # the revoked version as a plain dictionary too
    for target in (r, rd):
        for op in (lambda: V.revoke(target), lambda: V.new_version(target, name='z'), lambda: V.new_version(target, revoked=False),
                   lambda: MKS.add_markings(target, 'marking-definition--613f2e26-407d-48c7-9eca-b8e91df99dc9', None)):
            try:
                op(); return ('refusal#revoked objects are frozen', f'{kind}: operation on a revoked {"dictionary" if target is rd else "object"} accepted', {})
            except E.RevokeError: pass
    return None


def check_chain(case):
    """chains of <= 4 operations with the clock frozen *before* the first modified time: serialized times must still strictly increase"""
    import stix2.versioning as V, stix2.utils as U, stix2.markings as MK
    kind, obj, ops = case
    real_clock = V.get_timestamp
    frozen = U.STIXdatetime(dtm.datetime(2019, 1, 1, tzinfo=UTC))
    V.get_timestamp = lambda: frozen
    try:
        cur = obj; times = [ser_modified_us(cur)]
        for op in ops:
            prev, prev_snapshot = cur, (copy.deepcopy(cur) if isinstance(cur, dict) else cur.serialize())
            if op == 'nv': cur = V.new_version(cur, name='n%d' % len(times))
            elif op == 'mark': cur = MK.add_markings(cur, 'marking-definition--613f2e26-407d-48c7-9eca-b8e91df99dc9', None)
            elif op == 'unmark': cur = MK.clear_markings(cur, None) if as_json(cur).get('object_marking_refs') else V.new_version(cur, name='u')
            elif op == 'revoke': cur = V.revoke(cur)
            times.append(ser_modified_us(cur))
            if (copy.deepcopy(prev) if isinstance(prev, dict) else prev.serialize()) != prev_snapshot:
                return ('chain#every operation leaves the object it was applied to untouched', f'{kind} ops={ops}: operation {op} changed its input object', {})
    finally:
        V.get_timestamp = real_clock
    if any(b <= a for a, b in zip(times, times[1:])):
        return ('chain#serialized modified times strictly increase', f'{kind} ops={ops}: times {times}', {})
    return None


def run(chk):
    chk.registry = REG
    chk.explanation = ('P: _fudge_modified is proved for every pair of instants (the clock reading is an unconstrained integer) and both precision rules; '
                       'new_version is verified against a slice contract with callee contracts for _check_versionable_object, parse_into_datetime (C15), '
                       '_fudge_modified and the class constructor: the precondition of _fudge_modified follows from the precision constraint computed on the '
                       'path, the time handed to the constructor is strictly later at serialization precision whatever the clock reads, revoked objects raise '
                       'RevokeError, a change set naming type/id/created/created_by_ref or an identifier-contributing property raises '
                       'UnmodifiablePropertyError (loop invariant over the chained list), the constructor receives the original content overridden by the '
                       'change set minus None values; revoke forwards exactly revoked=True.  Chain monotonicity is a transitivity lemma.  '
                       'B: real objects and dictionaries of both versions with the clock substituted at old + {-1s..+1s}, change sets, refusals, chains of 4 '
                       'operations with a frozen clock.')
    chk.trust('contracts/versioning.py spec clauses as a reading of the property statement')
    chk.assume('datetime arithmetic does not overflow (year 9999 boundary excluded)',
               'new_version: `data` carries type and id and holds no None values; composition with the real constructor is bounded (B), not proved')
    for c in (K.fudge_contract(), K.revoke_contract(), K.get_stix_version_contract(), K.new_version_contract()):
        chk.prove(c)
        if c.ensures: chk.canary(c)
    for k in ('str', 'datetime', 'stixdatetime'): chk.prove(KT.parse_contract(k))        # new_version normalises the current and the supplied `modified` with it
    for name, claim in K.chain_lemmas(): chk.lemma(name, claim)
    # class-table invariant the version contracts rest on (exhaustive): every registered class derives from the base class of its own spec version, and every type with
    # created/modified/revoked is versionable -- so _get_stix_version never answers None (or the other version) for a library object
    import stix2
    from vf import objgen as G
    import stix2.versioning as SV
    n_cls = 0
    for ver, base in (('2.0', stix2.v20._STIXBase20), ('2.1', stix2.v21._STIXBase21)):
        for cname, (cat, cls) in sorted(G.classes(ver).items()):
            n_cls += 1
            if not issubclass(cls, base): chk.violation(f'class-table#derives from the base of its version:{ver}:{cname}', f'{ver} {cname}: {cls.__module__}.{cls.__name__} does not derive from {base.__name__}', {})
            try:
                o = G.build(f'{ver}:{cname}:minimal', cat, cls, G.minimal(cls, ver), ver)
                if SV._get_stix_version(o) != ver: chk.violation(f'class-table#version of an instance:{ver}:{cname}', f'{ver} {cname}: _get_stix_version(instance) = {SV._get_stix_version(o)!r}', {})
            except Exception: pass
    chk.bounded_runs.append({'name': 'class-table invariant: every registered class derives from the base class of its version', 'bound': 'exhaustive over the registry of both versions', 'evaluations': n_cls,
                             'distinct_classes': n_cls, 'witnesses': 0, 'wall_s': 0, 'samples': []})
    objs = base_objects()
    steps = [(k, o, d, ch) for (k, o), d, ch in itertools.product(objs, CLOCK_DELTAS, CHANGES)
             if not (isinstance(o, dict) and ('labels' in ch)) and not (k.startswith('v2') and 'Relationship' in k and 'name' in ch) and not (k == 'dict-unregistered' and ch.get('name', 1) is None)]
    steps = [s for s in steps if not ('labels' in s[3] and 'Identity' not in s[0] and 'Malware' not in s[0] and 'Indicator' not in s[0])]
    chk.bounded('native step: clock substituted around the old modified time', steps, check_step, classify=lambda c: (c[0], c[2], tuple(sorted(c[3]))),
                bound='10 object kinds x 4 microsecond patterns x 8 clock offsets (-1s..+1s) x 5 change sets')
    chk.bounded('native refusals: unmodifiable properties, non-later modified, revoked', [(k, o) for k, o in objs if k != 'dict-unregistered' and 'Relationship' not in k], check_refusals,
                classify=lambda c: c[0], bound='each base object')
    # ---- change sets handed over through the documented `custom_properties` keyword (objects only: for a dictionary the word is just a key): a custom property the
    # original already carries is changed / removed like any other requested change; the keyword and custom_properties channels may be combined
    import stix2, stix2.versioning as V

    def cp_cases():
        from stix2 import v20, v21
        t = dtm.datetime(2020, 1, 2, 3, 4, 5, 123000, tzinfo=UTC)
        for kind, mk in (('v21.Identity', lambda **kw: v21.Identity(name='a', identity_class='individual', created=t, modified=t, **kw)),
                         ('v20.Identity', lambda **kw: v20.Identity(name='a', identity_class='individual', created=t, modified=t, **kw)),
                         ('v21.Relationship', lambda **kw: v21.Relationship('identity--311b2d2d-f010-4473-83ec-1edf84858f4c', 'related-to', 'identity--c78cb6e5-0c4b-4611-8297-d1b8b55e40b5', created=t, modified=t, **kw)),
                         ('v20.Malware', lambda **kw: v20.Malware(name='m', labels=['trojan'], created=t, modified=t, **kw))):
            for start in ({}, {'x_custom': 'old'}, {'x_custom': 'old', 'x_other': 7}):
                for via_kw in (False, True):
                    obj = mk(allow_custom=True, **start) if via_kw or not start else mk(custom_properties=dict(start))
                    for new in ('new', 'old', 0, False, '', [1, 2], {'k': 'v'}, None):
                        for extra in ({}, {'name': 'b'}):
                            if 'Relationship' in kind and extra: continue
                            yield (kind, obj, start, new, extra)

    def cp_check(case):
        kind, obj, start, new, extra = case
        before = obj.serialize()
        try: nv = V.new_version(obj, custom_properties={'x_custom': new}, **extra)
        except stix2.exceptions.STIXError as ex:
            return ('step#legal change set accepted', f'{kind} carrying {start}: new_version(custom_properties={{"x_custom": {new!r}}}, **{extra}) refused: {type(ex).__name__}: {ex}', {})
        if obj.serialize() != before: return ('step#original untouched', f'{kind}: original changed by new_version(custom_properties=...)', {})
        jo, jn = as_json(obj), as_json(nv)
        want = dict(jo); want.update(extra)
        if new is None: want.pop('x_custom', None)
        else: want['x_custom'] = new
        for k in set(want) | set(jn):
            if k == 'modified': continue
            if jn.get(k) != want.get(k):
                return ('step#exactly the requested changes (custom_properties)', f'{kind} carrying {start}: after new_version(custom_properties={{"x_custom": {new!r}}}, **{extra}) property {k} is {jn.get(k)!r}, requested {want.get(k)!r}', {})
    chk.bounded('native step: change sets handed over through custom_properties', list(cp_cases()), cp_check, classify=lambda c: (c[0], repr(c[2]), repr(c[3]), repr(c[4])),
                bound='4 object kinds x 3 starting sets of custom properties (given as keywords / as custom_properties) x 8 new values (incl. falsy, containers, None = removal) x with / without a keyword change')
    # ---- history: what may be changed does not depend on what was versioned before (lists of locked names are per call, never accumulated)
    import stix2, stix2.versioning as V
    from vf import objgen as G
    unmod_before = list(V.STIX_UNMOD_PROPERTIES)
    def legal_changes(stage):
        for k, o in objs:
            if k == 'dict-unregistered' or 'Relationship' in k: continue
            declared = set(o) if isinstance(o, dict) else set(getattr(type(o), '_properties', {}))
            for ch in ({'name': 'renamed'}, {'description': 'd2'}, {'labels': ['l2']}, {'value': 'v2'}, {'size': 7}):
                if not set(ch) <= declared: continue
                try: nv = V.new_version(o, **ch)
                except Exception as ex:
                    chk.violation('history#a legal change is accepted whatever was versioned before', f'{stage}: new_version({k}, **{ch}) refused: {type(ex).__name__}: {str(ex)[:140]}', {'stage': stage}); return False
                if any(nv.get(a) != b for a, b in ch.items()):
                    chk.violation('history#a legal change is applied', f'{stage}: new_version({k}, **{ch}) -> {[(a, nv.get(a)) for a in ch]}', {'stage': stage}); return False
        return True
    n_hist = 0
    if legal_changes('fresh process'):
        for cname, (cat, cls) in sorted(G.classes('2.1').items()):
            if cat != 'observables': continue
            try: o = cls(allow_custom=True, created=G.T1, modified=G.T1, revoked=False, **{k: v for k, v in G.minimal(cls, '2.1').items() if k != 'id'})
            except Exception: continue
            for op in (lambda: V.new_version(o, modified=G.T2), lambda: V.new_version(json.loads(o.serialize()), modified=G.T2), lambda: V.new_version(o, x_new=1, allow_custom=True), lambda: V.revoke(o)):
                n_hist += 1
                try: op()
                except Exception: pass
        legal_changes('after versioning operations on observables of every 2.1 type')
        if list(V.STIX_UNMOD_PROPERTIES) != unmod_before:
            chk.violation('history#the list of unmodifiable properties is a constant', f'STIX_UNMOD_PROPERTIES is {list(V.STIX_UNMOD_PROPERTIES)} after versioning operations, {unmod_before} before', {})
    chk.bounded_runs.append({'name': 'history: legal changes before and after versioning operations on observables', 'bound': 'every 2.1 observable type x 4 operations, then 3 change sets on every base object', 'evaluations': n_hist,
                             'distinct_classes': None, 'witnesses': 0, 'wall_s': 0, 'samples': []})
    ops = ['nv', 'mark', 'unmark', 'revoke']
    import stix2.markings as MK
    TLP = 'marking-definition--f88d31f6-486f-44da-b317-01333bde0b82'
    marked = [(k + '+marked', MK.add_markings(o, TLP, None)) for k, o in objs[:8] if 'Relationship' not in k and k != 'dict-unregistered']
    chains = [(k, o, seq) for (k, o) in objs[:8] + marked if k not in ('dict-unregistered',) and 'Relationship' not in k
              for n in range(1, 5 if chk.tier == 'thorough' else 4) for seq in itertools.product(ops, repeat=n) if 'revoke' not in seq[:-1]]
    chk.bounded('native chains: frozen clock', chains, check_chain, classify=lambda c: (c[0], c[2]), bound='operation sequences of length <= ' + ('4' if chk.tier == 'thorough' else '3') + ' over {new_version, add marking, clear marking, revoke}')
    if chk.tier == 'thorough':
        r = mutation_selftest(K.fudge_contract(), REG, '/repo', None)
        chk.say(f'  [selftest] {r}')
        chk.extra['mutation_selftest'] = [r]
