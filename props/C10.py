"""C10 -- pattern text and pattern object model convert into each other faithfully (bounded stand-in)."""
import z3
from spec.pattern_sem import show, read
from props import _patterns as PG

LEVEL = 'exploration'


def classify(t):
    def ops(x):
        if not isinstance(x, tuple): return set()
        s = set()
        if x[0] == 'CMP': s.add((x[2], x[3], x[4][0]))
        for y in x:
            if isinstance(y, tuple): s |= ops(y)
        return s
    o = sorted(ops(t))
    return (t[0], tuple(o[:2]), 'QUAL' in repr(t))


def run(chk):
    from stix2.pattern_visitor import create_pattern_object
    chk.explanation = ('No clause is proved (ANTLR visitor, %-formatting over opaque model objects: outside the modelled subset).  Bounded stand-in: a generator of pattern '
                       'trees (every comparison operator with and without NOT, every constant kind incl. strings needing escapes and large integers, quoted / indexed / '
                       'reference path steps, nested boolean and observation operators at every precedence / parenthesisation, all qualifiers) prints each tree with its own '
                       'precedence-aware printer; text -> create_pattern_object -> str -> independent reader must give the same tree (with != read as NOT =), str o parse is a '
                       'fixed point, and the same trees built through the public model classes (grouping via ParentheticalExpression) print to text that reads back to the same '
                       'tree.  2.0 grammar on the operator subset the installed parser supports.')
    chk.trust('spec/pattern_sem.py reader/printer as the pattern grammar', 'the installed stix2patterns ANTLR parser (exercised, never specified)')
    pats = PG.patterns(chk.tier)

    def check(t):
        text = show(t)
        want = PG.tree_key(read(text))
        for ver in ('2.1', '2.0'):
            if ver == '2.0' and any(w in text for w in ('ISSUBSET', 'ISSUPERSET')) is False and chk.tier == 'quick' and len(text) > 40: continue
            try: printed = str(create_pattern_object(text, version=ver))
            except Exception as ex:
                if ver == '2.0': continue          # the 2.0 grammar is covered where the installed parser supports the construct
                return (f'parse#valid pattern accepted:{type(ex).__name__}', f'{text}: create_pattern_object raised {type(ex).__name__}: {str(ex)[:100]}', {'pattern': text})
            try: back = read(printed)
            except Exception as ex: return (f'print#printed text is a valid pattern:{ver}', f'{text} printed as {printed!r}, which the independent reader rejects: {ex}', {'pattern': text})
            if PG.tree_key(back) != want:
                kind = 'negation' if 'NOT' in text or '!=' in text else 'constant' if "\\" in text or '"' in text else 'structure'
                return (f'faithful#{kind} preserved ({ver})', f'{text} printed as {printed} : structure changed', {'pattern': text, 'printed': printed})
            try:
                p2 = str(create_pattern_object(printed, version=ver))
                if p2 != printed: return (f'fixed-point#print o parse ({ver})', f'{printed} re-printed as {p2}', {'pattern': text})
            except Exception as ex: return (f'fixed-point#printed text re-parses ({ver})', f'{printed}: {type(ex).__name__}', {'pattern': text})
        # the same tree assembled programmatically
        try: m = PG.build_model(t)
        except Exception as ex: return None        # tree shape the public classes cannot express with these arguments
        mtext = str(m)
        try: mback = read(mtext)
        except Exception as ex: return ('model#printed text is a valid pattern', f'model of {text} prints {mtext!r}, rejected by the independent reader: {ex}', {'pattern': text})
        if PG.tree_key(mback) != want:
            kind = 'constant escaping' if ("\\" in text or "'" in text[text.find('=') + 1:].strip("' ]") ) else 'structure'
            return (f'model#{kind}', f'model of {text} prints {mtext}, which reads back to another structure', {'pattern': text, 'printed': mtext})
        try:
            again = str(create_pattern_object(mtext, version='2.1'))
            if PG.tree_key(read(again)) != want: return ('model#parses back to the same structure', f'{mtext} parses back as {again}', {'pattern': text})
        except Exception as ex: return ('model#printed text parses', f'model text {mtext!r}: {type(ex).__name__}: {str(ex)[:80]}', {'pattern': text})
    chk.bounded('pattern text <-> object model', pats, check, classify=classify,
                bound=f'{len(pats)} generated patterns: 11 operators x NOT x constant kinds on 2 paths, escape-heavy string constants, 4 path shapes, boolean/observation nesting to depth 3 from 3-6 leaves, all qualifiers; both grammars; text route and model-class route')
