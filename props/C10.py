"""C10 -- pattern text and pattern object model convert into each other faithfully (bounded stand-in)."""
import z3
from spec.pattern_sem import show, read
from props import _patterns as PG

LEVEL = 'exploration'


def classify(t):
    def ops(x):
        if not isinstance(x, tuple): return set()
        s = set()
        if x[0] == 'CMP': s.add((x[2], x[3], x[4][0]))
        for y in x:
            if isinstance(y, tuple): s |= ops(y)
        return s
    o = sorted(ops(t))
    return (t[0], tuple(o[:2]), 'QUAL' in repr(t))


def run(chk):
    from stix2.pattern_visitor import create_pattern_object
    chk.explanation = ('Proved: escape_quotes_and_backslashes writes every character as the string-literal grammar requires (exhaustive over all Unicode scalar values; lifted to strings because the function is a chain of one-character str.replace calls, a homomorphism). '
                       'Nothing else is proved (ANTLR visitor, %-formatting over opaque model objects: outside the modelled subset).  Bounded stand-in: a generator of pattern '
                       'trees (every comparison operator with and without NOT, every constant kind incl. strings needing escapes and large integers, quoted / indexed / '
                       'reference path steps, nested boolean and observation operators at every precedence / parenthesisation, all qualifiers) prints each tree with its own '
                       'precedence-aware printer; text -> create_pattern_object -> str -> independent reader must give the same tree (with != read as NOT =), str o parse is a '
                       'fixed point, and the same trees built through the public model classes (grouping via ParentheticalExpression) print to text that reads back to the same '
                       'tree.  2.0 grammar on the operator subset the installed parser supports.')
    chk.trust('spec/pattern_sem.py reader/printer as the pattern grammar', 'the installed stix2patterns ANTLR parser (exercised, never specified)')
    pats = PG.patterns(chk.tier)
    # constants whose payload begins with the letter of their own (or another) literal prefix: b'b...', h'ab..', 'b', 't', strings holding a quote after such a letter
    PA = PG.PA
    for lit in [('bin', 'bWFsd2FyZQ=='), ('bin', 'bbbbQUJD'), ('bin', 'Yg=='), ('bin', 'bmI='), ('bin', 'aGVsbG8='), ('hex', 'abba'), ('hex', 'bb'), ('hex', '00ff'), ('str', 'b'), ('str', 'h'), ('str', 't'),
                ('str', "b'x"), ('str', "b'"), ('str', "h'ab'"), ('str', 'bb'), ('ts', '2020-01-01T00:00:00.5Z')]:
        pats.append(('OBS', ('CMP', PA, '=', False, lit))); pats.append(('OBS', ('CMP', PA, '!=', False, lit)))
        if lit[0] in ('bin', 'hex', 'str'): pats.append(('OBS', ('CMP', PA, 'IN', False, ('set', (lit, (lit[0], {'bin': 'YWJj', 'hex': 'ab', 'str': 'x'}[lit[0]]))))))
    # START / STOP intervals of every width, written with and without fraction digits (an interval may be shorter than a second; '.' sorts before 'Z' as text; canonical spellings only: the printer drops trailing zero digits, which keeps the instant)
    a0 = ('OBS', ('CMP', PA, '=', False, ('num', 1)))
    for st, sp in (('2016-06-01T00:00:00Z', '2016-06-01T00:00:00.5Z'), ('2016-06-01T00:00:00Z', '2016-06-01T00:00:00.001Z'), ('2016-06-01T00:00:00Z', '2016-06-01T00:00:00.000001Z'),
                   ('2016-06-01T00:00:00.5Z', '2016-06-01T00:00:00.50001Z'), ('2016-06-01T00:00:00.9Z', '2016-06-01T00:00:01Z'), ('2016-06-01T23:59:59.999Z', '2016-06-02T00:00:00Z'),
                   ('2016-06-01T00:00:00Z', '2016-06-01T00:00:01Z'), ('2015-12-31T23:59:59.5Z', '2016-01-01T00:00:00Z'), ('0999-01-01T00:00:00Z', '9999-12-31T23:59:59.999999Z')):
        q = ('STARTSTOP', f"t'{st}'", f"t'{sp}'")
        pats.append(('QUAL', a0, q)); pats.append(('QUAL', ('PAREN', ('OAND', (a0, ('OBS', ('CMP', PA, '=', False, ('num', 2)))))), q))
    from stix2patterns.validator import run_validator as _validate
    def grammar_accepts(text, ver):
        try: return not _validate(text, stix_version=ver)
        except Exception: return False
    # frame: parsing depends on the text and its options only (a memoised parse would hand out one mutable model to every caller)
    from vf.callsites import purity_obligations
    from vf.check import SRC_ROOT
    for ob in purity_obligations(SRC_ROOT, ['stix2/pattern_visitor.py::create_pattern_object'], allow=()):
        chk.lemmas.append(ob)
        if ob.result != 'discharged': chk.violation('frame#create_pattern_object', 'frame obligation fails: ' + ob.clause, {'obligation': ob.clause}, no_input=True)
    # "string constants escaped correctly": the escaping function under its per-character contract (complete over all code points), lifted to strings by the homomorphism argument
    from contracts import patterns as KPAT
    KPAT.string_escape_obligations(chk, SRC_ROOT)

    def check(t):
        text = show(t)
        want = PG.tree_key(read(text))
        for ver in ('2.1', '2.0'):
            if ver == '2.0' and any(w in text for w in ('ISSUBSET', 'ISSUPERSET')) is False and chk.tier == 'quick' and len(text) > 40 and '[' not in text[1:-1]: continue
            try: printed = str(create_pattern_object(text, version=ver))
            except Exception as ex:
                if ver == '2.0' and not grammar_accepts(text, '2.0'): continue          # the 2.0 grammar is covered where the installed 2.0 parser accepts the text
                return (f'parse#valid pattern accepted:{type(ex).__name__}', f'{text}: create_pattern_object raised {type(ex).__name__}: {str(ex)[:100]}', {'pattern': text})
            try: back = read(printed)
            except Exception as ex: return (f'print#printed text is a valid pattern:{ver}', f'{text} printed as {printed!r}, which the independent reader rejects: {ex}', {'pattern': text})
            if PG.tree_key(back) != want:
                kind = 'negation' if 'NOT' in text or '!=' in text else 'constant' if "\\" in text or '"' in text else 'structure'
                return (f'faithful#{kind} preserved ({ver})', f'{text} printed as {printed} : structure changed', {'pattern': text, 'printed': printed})
            try:
                p2 = str(create_pattern_object(printed, version=ver))
                if p2 != printed: return (f'fixed-point#print o parse ({ver})', f'{printed} re-printed as {p2}', {'pattern': text})
            except Exception as ex: return (f'fixed-point#printed text re-parses ({ver})', f'{printed}: {type(ex).__name__}', {'pattern': text})
        # the same tree assembled programmatically
        try: m = PG.build_model(t)
        except Exception as ex: return None        # tree shape the public classes cannot express with these arguments
        mtext = str(m)
        try: mback = read(mtext)
        except Exception as ex: return ('model#printed text is a valid pattern', f'model of {text} prints {mtext!r}, rejected by the independent reader: {ex}', {'pattern': text})
        if PG.tree_key(mback) != want:
            kind = 'constant escaping' if ("\\" in text or "'" in text[text.find('=') + 1:].strip("' ]") ) else 'structure'
            return (f'model#{kind}', f'model of {text} prints {mtext}, which reads back to another structure', {'pattern': text, 'printed': mtext})
        try:
            again = str(create_pattern_object(mtext, version='2.1'))
            if PG.tree_key(read(again)) != want: return ('model#parses back to the same structure', f'{mtext} parses back as {again}', {'pattern': text})
        except Exception as ex: return ('model#printed text parses', f'model text {mtext!r}: {type(ex).__name__}: {str(ex)[:80]}', {'pattern': text})
    # known finding: a comparison AND whose operands share no object type is valid text that the object model refuses
    for ver in ('2.1', '2.0'):
        try: create_pattern_object("[a:x = 1 AND b:x = 1]", version=ver)
        except ValueError as ex:
            if 'same object type' in str(ex): chk.violation('parse#valid pattern refused by the object model:comparison AND whose operands share no object type', f'create_pattern_object("[a:x = 1 AND b:x = 1]", version={ver!r}) raised ValueError: {ex}', {})
            else: chk.violation('parse#valid pattern accepted:ValueError', f'[a:x = 1 AND b:x = 1] ({ver}): ValueError: {ex}', {})
        except Exception as ex: chk.violation(f'parse#valid pattern accepted:{type(ex).__name__}', f'[a:x = 1 AND b:x = 1] ({ver}): {type(ex).__name__}: {ex}', {})
    chk.bounded('pattern text <-> object model', pats, check, classify=classify,
                bound=f'{len(pats)} generated patterns: 11 operators x NOT x constant kinds on 2 paths, escape-heavy string constants, 4 path shapes, boolean/observation nesting to depth 3 from 3-6 leaves, all qualifiers; both grammars; text route and model-class route')

    # ---- history: parse o print of a text is the same before and after the library (the equivalence normaliser rewrites models in place) or a caller has worked with models of that text
    from stix2.equivalence.pattern import equivalent_patterns
    texts = [show(t) for t in pats]
    first = {}
    for x in texts:
        try: first[x] = str(create_pattern_object(x, version='2.1'))
        except Exception: pass
    local = {}
    for x in list(first)[::3]:
        try:
            equivalent_patterns(x, x); equivalent_patterns(x, texts[0])
            m = create_pattern_object(x, version='2.1')
            if hasattr(m, 'operands') and isinstance(m.operands, list): m.operands.append(m.operands[0])          # a caller extending its own model
            # ... and read again at once (a bounded memo of recent parses would still hold this text now, whatever its size and whatever is parsed later)
            local[x] = str(create_pattern_object(x, version='2.1'))
        except Exception: pass

    def hist_check(x):
        try: again = str(create_pattern_object(x, version='2.1'))
        except Exception as ex: return ('history#parse still accepts the text', f'{x}: {type(ex).__name__} after equivalence checks on the same text', {'pattern': x})
        if x in local and local[x] != first[x]: again = local[x]
        if again != first[x]: return ('history#parse o print unchanged by earlier work on the same text', f'{x} printed as {first[x]} at first and as {again} after equivalence checks / model edits on the same text', {'pattern': x})
    chk.bounded('history: parse o print before and after equivalence checks and model edits on the same text', list(first), hist_check, classify=lambda x: x,
                bound='every generated pattern; every third one was normalised by equivalent_patterns and had its parsed model extended in between')
