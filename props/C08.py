"""C08 -- a granular-marking selector is valid exactly when it addresses something."""
import ast, copy, json, os
import z3
from vf.pyvc.lib import REG
from vf.pyvc.contract import Obligation, discharge
from vf.check import SRC_ROOT
from vf import objgen as G
from contracts import markings as K
from props.C02 import lexical_part
from props.C03 import selectors_of

LEVEL = 'other'
TLP = 'marking-definition--613f2e26-407d-48c7-9eca-b8e91df99dc9'
import re
SPEC_SELECTOR = re.compile(r'^([a-z0-9_-]{3,250}(\.(\[[0-9]+\]|[a-z0-9_-]{1,250}))*|id)\Z', re.A)     # spec/lexical.py SELECTOR, natively


def super_call_obligations(src_root):
    """construction-time validation reaches every type: every override of _check_object_constraints calls the base implementation"""
    obs = []
    for dp, dn, fn in os.walk(os.path.join(src_root, 'stix2')):
        dn[:] = [d for d in dn if d not in ('test', '__pycache__')]
        for f in fn:
            if not f.endswith('.py'): continue
            rel = os.path.relpath(os.path.join(dp, f), src_root)
            try: tree = ast.parse(open(os.path.join(dp, f)).read())
            except SyntaxError: continue
            for c in ast.walk(tree):
                if not isinstance(c, ast.ClassDef) or c.name == '_STIXBase': continue
                for m in c.body:
                    if isinstance(m, ast.FunctionDef) and m.name == '_check_object_constraints':
                        first_calls = [n for n in ast.walk(m) if isinstance(n, ast.Call) and isinstance(n.func, ast.Attribute) and n.func.attr == '_check_object_constraints'
                                       and isinstance(n.func.value, ast.Call) and ast.unparse(n.func.value.func) == 'super']
                        cond = any(isinstance(p, (ast.If, ast.Try, ast.For, ast.While)) for call in first_calls for p in ast.walk(m) if call in ast.walk(p) and p is not m) if first_calls else False
                        ob = Obligation('callsites', f'{rel} {c.name}._check_object_constraints calls super()._check_object_constraints() unconditionally', 'call-requires', [],
                                        z3.BoolVal(bool(first_calls) and not cond), True)
                        discharge(ob, None, use_external=False); obs.append(ob)
    return obs


def shapes():
    """small shape family: every JSON kind at leaves incl. falsy values, repeated list elements, nested dict, embedded object, extension"""
    base21 = {'type': 'malware', 'spec_version': '2.1', 'id': 'malware--' + G.UUID, 'created': G.T1, 'modified': G.T2, 'is_family': False, 'name': '', 'description': 'd',
              'labels': ['a', 'a', 'b'], 'revoked': False, 'confidence': 0, 'aliases': ['x'], 'kill_chain_phases': [{'kill_chain_name': 'k', 'phase_name': 'p'}, {'kill_chain_name': 'k', 'phase_name': 'p'}],
              'external_references': [{'source_name': 's', 'external_id': 'e', 'hashes': {'MD5': 'a' * 32}}], 'created_by_ref': 'identity--' + G.UUID2}
    loc = {'type': 'location', 'spec_version': '2.1', 'id': 'location--' + G.UUID, 'created': G.T1, 'modified': G.T1, 'latitude': 0.0, 'longitude': 0, 'region': 'x'}
    ind = {'type': 'indicator', 'spec_version': '2.1', 'id': 'indicator--' + G.UUID, 'created': G.T1, 'modified': G.T1, 'pattern': "[file:name = 'a']", 'pattern_type': 'stix',
           'pattern_version': '2.1', 'valid_from': G.T1}
    base20 = {'type': 'tool', 'id': 'tool--' + G.UUID, 'created': G.T1, 'modified': G.T1, 'name': 't', 'labels': ['x', 'x'], 'tool_version': '', 'revoked': False,
              'external_references': [{'source_name': 's', 'url': 'http://x'}]}
    ind20 = {'type': 'indicator', 'id': 'indicator--' + G.UUID, 'created': G.T1, 'modified': G.T1, 'pattern': "[file:name = 'a']", 'valid_from': G.T1, 'labels': ['l']}
    rel = {'type': 'relationship', 'spec_version': '2.1', 'id': 'relationship--' + G.UUID, 'created': G.T1, 'modified': G.T1, 'relationship_type': 'uses',
           'source_ref': 'identity--' + G.UUID, 'target_ref': 'identity--' + G.UUID2}
    fil = {'type': 'file', 'spec_version': '2.1', 'id': 'file--' + G.UUID, 'name': 'f', 'size': 0, 'hashes': {'MD5': 'b' * 32},
           'extensions': {'ntfs-ext': {'sid': 's', 'alternate_data_streams': [{'name': 'n', 'size': 0}]}}}
    # nested path steps of one and two characters (dictionary keys): language codes, observed-data member keys
    # sibling names where one extends the other with a hyphen ('en' has children, 'en-us' follows it only in dictionary order, not in the order of dotted paths)
    lang = {'type': 'language-content', 'spec_version': '2.1', 'id': 'language-content--' + G.UUID, 'created': G.T1, 'modified': G.T1, 'object_ref': 'identity--' + G.UUID2,
            'object_modified': G.T1, 'contents': {'de': {'name': 'n', 'description': ''}, 'fr': {'name': 'm'}, 'en': {'name': 'e'}, 'en-us': {'name': 'u', 'description': 'd'}}}
    # a list with more than ten elements: '[10]' sorts before '[2]' as text
    many = {'type': 'report', 'spec_version': '2.1', 'id': 'report--' + G.UUID, 'created': G.T1, 'modified': G.T1, 'name': 'r', 'published': G.T1,
            'labels': [f'l{i}' for i in range(12)], 'object_refs': ['identity--' + G.UUID2[:-2] + f'{i:02d}' for i in range(11)]}
    od20 = {'type': 'observed-data', 'id': 'observed-data--' + G.UUID, 'created': G.T1, 'modified': G.T1, 'first_observed': G.T1, 'last_observed': G.T1, 'number_observed': 1,
            'objects': {'0': {'type': 'file', 'name': 'f', 'size': 0}, 'a1': {'type': 'domain-name', 'value': 'x.y'}}}
    return {'malware21': base21, 'location21': loc, 'indicator21': ind, 'tool20': base20, 'indicator20': ind20, 'relationship21': rel, 'file21': fil, 'language-content21': lang, 'observed-data20': od20, 'report21 (long lists)': many}


def near_misses(d):
    import stix2
    paths = [p for p, _ in selectors_of(d)]
    yield 'nonexistent'
    yield 'labels.[99]'
    # properties the type declares but this object does not carry: they address nothing
    try:
        o = stix2.parse(copy.deepcopy(d))
        for name in type(o)._properties:
            if name not in d and name not in o and name != 'granular_markings': yield name        # (defaulted properties are carried by the object)
    except Exception: pass
    # wrong nesting, one step too deep: an index step on a scalar or a dictionary, a key step on a scalar or a list
    for p, v in selectors_of(d):
        if isinstance(v, str) or not isinstance(v, (list, dict)):
            yield p + '.[0]'; yield p + '.key'
            if isinstance(v, str) and len(v) > 1: yield p + f'.[{len(v) - 1}]'
        elif isinstance(v, dict): yield p + '.[0]'
        elif isinstance(v, list): yield p + '.length'; yield p + '.0'
    for p in paths:
        if p.endswith(']'): yield p[:p.rindex('[')] + f'[{int(p[p.rindex("[") + 1:-1]) + 50}]'
        yield p + '.absent_key'
        if '.' in p: yield p.replace('.', '.x_', 1)
        yield p + '_ext'           # a name extending an existing one (string-prefix sibling)
        if len(p) > 4: yield p[:-1]  # a strict prefix of an existing name


def run(chk):
    import stix2
    from stix2 import markings as MK
    from stix2.exceptions import InvalidSelectorError
    chk.registry = REG
    chk.explanation = ('P: SELECTOR_REGEX == the selector grammar; _evaluate_expression returns a non-empty list exactly when some path of the object equals the selector, '
                       'whatever value is stored there (loop with early return, prefix invariant); _validate_selector truthy <=> a match; validate raises iff the list is '
                       'empty or some selector addresses nothing; every override of _check_object_constraints calls the base implementation unconditionally (so validation '
                       'runs on every construction).  B: iterpath against an independent path enumerator on a shape family (every JSON kind at leaves incl. false / 0 / 0.0 / "", '
                       'repeated list elements, nested dictionaries, embedded objects, extensions): every path accepted, every near miss (absent key, declared but absent property, index past the end, wrong '
                       'nesting incl. an index step on a string / number / dictionary and a key step on a scalar / list, name extending or truncating an existing one) rejected -- at construction, at parse time, by add/get/is_marked/remove/clear/set_markings, '
                       'also on objects without any granular marking.')
    lexical_part(chk, 'C08')
    for c in (K.evaluate_expression_contract(), K.validate_selector_contract(), K.validate_contract()):
        chk.prove(c); chk.canary(c)
    for ob in super_call_obligations(SRC_ROOT):
        chk.lemmas.append(ob)
        if ob.result != 'discharged': chk.violation('callsite#' + ob.clause.split(' calls')[0], 'obligation fails: ' + ob.clause, {'obligation': ob.clause}, no_input=True)
    sh = shapes()
    # a custom type declared together with an extension-definition id: the library adds the `extensions` entry itself, AFTER the base constructor has run
    from stix2 import registry as _reg
    EXTN = 'extension-definition--7c2e4a9b-1d3f-4b5a-8c6d-9e0f1a2b3c4d'
    if 'x-vf-c08-ext' not in _reg.STIX2_OBJ_MAPS['2.1']['objects']:
        stix2.v21.CustomObject('x-vf-c08-ext', [('x_p', stix2.properties.StringProperty()), ('name', stix2.properties.StringProperty())], extension_name=EXTN)(type('_C08X', (object,), {}))
    XC = _reg.STIX2_OBJ_MAPS['2.1']['objects']['x-vf-c08-ext']
    full = json.loads(XC(id='x-vf-c08-ext--' + G.UUID, created=G.T1, modified=G.T1, x_p='v', name='').serialize())
    sh['custom21 (declared with extension_name)'] = full
    BUILD = {'custom21 (declared with extension_name)': {k: v for k, v in full.items() if k != 'extensions'}}          # what a caller hands over: without the entry the library adds

    # properties the library fills in itself (defaults; the pattern language version of a 2.1 indicator) belong to the object like any other: valid selectors from construction on
    sh['indicator21 (pattern_version left to the library)'] = {k: v for k, v in sh['indicator21'].items() if k != 'pattern_version'}
    def defaulted(name, d):
        if name in BUILD: return []
        try: o = stix2.parse(copy.deepcopy(d))
        except Exception: return []
        return [(k, o[k]) for k in o if k not in d and not isinstance(o[k], (list, dict)) and SPEC_SELECTOR.match(k)]

    def cases():
        for name, d in sh.items():
            for k, v in defaulted(name, d): yield (name, k, True, v)
        for name, d in sh.items():
            valid = {p for p, _ in selectors_of(d)}
            for p, v in selectors_of(d):
                if SPEC_SELECTOR.match(p): yield (name, p, True, v)       # paths through upper-case dictionary keys (hash names) are outside the selector syntax
            for p in sorted(set(near_misses(d)) - valid): yield (name, p, False, None)

    def accepted(fn):
        try: fn(); return True
        except InvalidSelectorError: return False
        except (stix2.exceptions.STIXError, ValueError) as ex:
            return 'other:' + type(ex).__name__
        except Exception as ex:      # noqa
            return 'escape:' + type(ex).__name__

    def check(case):
        name, sel, want, v = case
        d = sh[name]; db = BUILD.get(name, d)          # db: what a caller hands to the constructor (without entries the library adds itself)
        gm = [{'marking_ref': TLP, 'selectors': [sel]}]
        premarked = lambda: stix2.parse(dict(copy.deepcopy(db), granular_markings=[{'marking_ref': TLP, 'selectors': ['type']}]))       # selectors were validated once already, at construction
        syntactically_ok = bool(stix2.properties.SELECTOR_REGEX.match(sel))
        routes = {
            'parse': lambda: stix2.parse(dict(copy.deepcopy(d), granular_markings=gm)),          # (the marked content as a whole: with the entry the library would add)
            'add_markings(object)': lambda: MK.add_markings(stix2.parse(copy.deepcopy(db)), TLP, [sel]),
            'add_markings(dict)': lambda: MK.add_markings(copy.deepcopy(d), TLP, [sel]),
            'get_markings(unmarked object)': lambda: MK.get_markings(stix2.parse(copy.deepcopy(db)), [sel]),
            'is_marked(unmarked object)': lambda: MK.is_marked(stix2.parse(copy.deepcopy(db)), TLP, [sel]),
            'is_marked(unmarked dict)': lambda: MK.is_marked(copy.deepcopy(d), TLP, [sel]),
            'get_markings(marked object)': lambda: MK.get_markings(MK.add_markings(stix2.parse(copy.deepcopy(db)), TLP, ['type']), [sel]),
        }
        routes['get_markings(object built with a marking)'] = lambda: MK.get_markings(premarked(), [sel])
        routes['is_marked(object built with a marking)'] = lambda: MK.is_marked(premarked(), TLP, [sel])
        if d['type'] != 'file': routes['add_markings(object built with a marking)'] = lambda: MK.add_markings(premarked(), TLP, [sel])
        if hasattr(stix2.parse(copy.deepcopy(db)), 'get_markings'): routes['method get_markings'] = lambda: stix2.parse(copy.deepcopy(db)).get_markings([sel])
        if not want:
            # a selector addressing nothing stays invalid wherever it stands in a list of selectors
            good = 'type'
            routes['parse, after a valid selector'] = lambda: stix2.parse(dict(copy.deepcopy(d), granular_markings=[{'marking_ref': TLP, 'selectors': [good, sel]}]))
            routes['parse, before a valid selector'] = lambda: stix2.parse(dict(copy.deepcopy(d), granular_markings=[{'marking_ref': TLP, 'selectors': [sel, good]}]))
            routes['add_markings(dict), after a valid selector'] = lambda: MK.add_markings(copy.deepcopy(d), TLP, [good, sel])
            routes['is_marked(unmarked dict), after a valid selector'] = lambda: MK.is_marked(copy.deepcopy(d), TLP, [good, sel])
            routes['get_markings(unmarked object), last of three'] = lambda: MK.get_markings(stix2.parse(copy.deepcopy(db)), [good, 'id', sel])
        if want:
            routes['remove after add'] = lambda: MK.remove_markings(MK.add_markings(stix2.parse(copy.deepcopy(db)), TLP, [sel]), TLP, [sel])
            routes['set_markings'] = lambda: MK.set_markings(MK.add_markings(stix2.parse(copy.deepcopy(db)), TLP, [sel]), 'marking-definition--34098fce-860f-48ae-8e50-ebd3cc5e41da', [sel])
        filled_in = want and '.' not in sel and sel not in d          # a property the library fills in: it exists in the constructed object, not in a plain dictionary
        for rname, fn in routes.items():
            if filled_in and 'dict' in rname: continue
            if rname.startswith('parse') and not syntactically_ok: continue          # syntactically illegal selectors are refused by the property cleaner with another error
            if d['type'] == 'file' and rname not in ('parse', 'get_markings(unmarked object)', 'get_markings(object built with a marking)', 'is_marked(object built with a marking)', 'is_marked(unmarked object)', 'is_marked(unmarked dict)', 'parse, after a valid selector', 'parse, before a valid selector',
                                                     'is_marked(unmarked dict), after a valid selector', 'get_markings(unmarked object), last of three'): continue   # SCOs are not versionable
            got = accepted(fn)
            if isinstance(got, str) and got.startswith('escape:'):
                return (f'decide#{rname}:{got[7:]}', f'{name}: deciding selector {sel!r} through {rname} failed with {got[7:]} instead of accepting or refusing it', {'selector': sel})
            if want and got is not True:
                kind = 'falsy' if (not v and v is not None) else 'truthy'
                return (f'reject#{rname}:{type(v).__name__}:{kind}', f'{name}: existing path {sel!r} (value {v!r}) rejected by {rname}: {got}', {'selector': sel})
            if not want and got is True:
                return (f'accept#{rname}', f'{name}: selector {sel!r} addresses nothing but is accepted by {rname}', {'selector': sel})
    chk.bounded('selectors: every path and near misses x every entry point', list(cases()), check, classify=lambda c: (c[0], c[1]),
                bound='12 object shapes (+ every property the library fills in itself as a selector) (2.0 and 2.1; SDO, SRO, SCO with extension, language content and observed-data with one- and two-character dictionary keys, a custom type declared with extension_name) x every path x near misses x 10 entry points; near misses also at every position of a selector list')
    aliased_family(chk)


def aliased_family(chk):
    """content in which one container INSTANCE occurs more than once (the same embedded object twice in a list, one dictionary or list given for two properties): every
    path of the object is a valid selector, whichever occurrence it goes through -- at construction, through every marking function, after deepcopy / new_version"""
    import stix2
    from stix2 import markings as MK, v21
    from stix2.exceptions import InvalidSelectorError
    TLP = v21.TLP_RED.id

    def builders():
        def phases(**kw):
            p = v21.KillChainPhase(kill_chain_name='k', phase_name='p')
            return v21.Malware(name='m', is_family=False, kill_chain_phases=[p, p], **kw)
        def refs(**kw):
            er = {'source_name': 's', 'external_id': 'e'}
            return v21.Malware(name='m', is_family=False, external_references=[er, er, dict(er)], **kw)
        def refobjs(**kw):
            er = v21.ExternalReference(source_name='s', external_id='e')
            return v21.Identity(name='i', identity_class='individual', external_references=[er, er], **kw)
        def custom_dict(**kw):
            shared = {'first': 1, 'second': [1, 2], 'third': {'deep': 'x'}}
            return v21.Identity(name='i', identity_class='individual', x_primary=shared, x_secondary=shared, allow_custom=True, **kw)
        def custom_list(**kw):
            lst = ['a', 'b']; inner = {'k': lst}
            return v21.Identity(name='i', identity_class='individual', x_first=lst, x_second=lst, x_third=[inner, inner], allow_custom=True, **kw)
        def plain(**kw):
            shared = {'first': 1, 'second': [1, 2]}; ph = {'kill_chain_name': 'k', 'phase_name': 'p'}
            d = {'type': 'malware', 'spec_version': '2.1', 'id': 'malware--' + G.UUID, 'created': G.T1, 'modified': G.T1, 'name': 'm', 'is_family': False, 'kill_chain_phases': [ph, ph],
                 'x_primary': shared, 'x_secondary': shared}
            d.update(kw); return d
        return {'one KillChainPhase object twice': phases, 'one dictionary three times among external_references': refs, 'one ExternalReference object twice': refobjs,
                'one dictionary for two custom properties': custom_dict, 'one list for two custom properties and nested': custom_list, 'plain dictionary with shared members': plain}

    def cases():
        for name, mk in builders().items():
            o = mk()
            d = json.loads(o.serialize()) if hasattr(o, 'serialize') else json.loads(json.dumps(o))
            for p, v in selectors_of(d):
                if SPEC_SELECTOR.match(p): yield (name, p)

    def check(case):
        name, sel = case
        mk = builders()[name]
        routes = {'built with the selector': lambda: mk(granular_markings=[{'marking_ref': TLP, 'selectors': [sel]}]),
                  'add_markings': lambda: MK.add_markings(mk(), TLP, [sel]),
                  'get_markings': lambda: MK.get_markings(mk(), [sel]),
                  'is_marked': lambda: MK.is_marked(mk(), TLP, [sel]),
                  'get_markings after add (inherited, descendants)': lambda: MK.get_markings(MK.add_markings(mk(), TLP, [sel]), [sel], inherited=True, descendants=True),
                  'remove after add': lambda: MK.remove_markings(MK.add_markings(mk(), TLP, [sel]), TLP, [sel]),
                  'deepcopy of the marked object': lambda: copy.deepcopy(MK.add_markings(mk(), TLP, [sel]))}
        if 'plain' not in name:
            routes['method'] = lambda: mk().get_markings([sel])
            routes['new_version of the marked object'] = lambda: mk(granular_markings=[{'marking_ref': TLP, 'selectors': [sel]}]).new_version(name='n2')
            routes['parse of the serialized marked object'] = lambda: stix2.parse(mk(granular_markings=[{'marking_ref': TLP, 'selectors': [sel]}]).serialize(), allow_custom=True)
        for rname, fn in routes.items():
            try: fn()
            except InvalidSelectorError as ex:
                return (f'reject#{rname}:shared container instance', f'{name}: existing path {sel!r} rejected by {rname}: {ex}', {'selector': sel})
    chk.bounded('selectors into content that shares container instances', list(cases()), check, classify=lambda c: c,
                bound='6 ways of sharing one container instance inside an object (embedded object twice, dictionary / list for two properties, nested) x every path x 10 entry points')
