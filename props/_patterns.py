"""Shared pattern domain for C09 / C10: generator of pattern trees (own syntax), model-class builder."""
import itertools
from spec.pattern_sem import show, read, norm_cmp, strip_parens

PA = ('a', (('key', 'b'),)); PC = ('a', (('key', 'c'),)); PX = ('file', (('key', 'extensions'), ('key', 'ntfs-ext'), ('key', 'sid'))); PI = ('file', (('key', 'sections'), ('idx', '0'), ('key', 'name')))
PR = ('email-message', (('key', 'from_ref'), ('key', 'value'))); PS = ('file', (('key', 'hashes'), ('key', 'SHA-256')))
T0, T1 = "t'2020-01-01T00:00:00Z'", "t'2020-01-01T00:00:05Z'"


def leaves(full=True):
    out = []
    for path in (PA, PC):
        for op in ('=', '!=', '<', '<=', '>', '>=', 'IN', 'LIKE', 'MATCHES', 'ISSUBSET', 'ISSUPERSET'):
            for neg in (False, True):
                if op == 'IN': rhs = [('set', (('num', 1), ('num', 2))), ('set', (('str', 'x'), ('str', 'y')))]
                elif op in ('LIKE', 'MATCHES'): rhs = [('str', 'x')]
                elif op in ('ISSUBSET', 'ISSUPERSET'): rhs = [('str', '10.0.0.0/8')]
                elif op in ('<', '<=', '>', '>='): rhs = [('num', 1)]
                else: rhs = [('num', 1), ('num', 2), ('str', 'x'), ('num', 1.5), ('bool', True), ('ts', '2020-01-01T00:00:00Z'), ('hex', 'ab'), ('bin', 'YWJj')]
                for r in rhs:
                    if path is PC and not full and r[0] not in ('num',): continue
                    out.append(('CMP', path, op, neg, r))
    # other path shapes and constants needing escapes
    for path in (PX, PI, PR, PS):
        out.append(('CMP', path, '=', False, ('str', 'v')))
    for s in ("it's", 'back\\slash', 'quote"dq', "\\'", 'a b', '\\\\srv\\share', "dir\\'name", 'end\\\\', "''", ' '):
        out.append(('CMP', PA, '=', False, ('str', s)))
    out.append(('CMP', PA, '=', False, ('num', 9007199254740993))); out.append(('CMP', PA, '=', False, ('num', 9007199254740992)))
    out.append(('CMP', PA, '=', False, ('num', 1.0)))
    return out


def patterns(tier='quick'):
    L = leaves()
    pats = [('OBS', l) for l in L]
    simple = [l for l in L if not l[3] and l[2] in ('=', '<') and l[4][0] == 'num' and l[4][1] in (1, 2)][:6]
    for a, b in itertools.permutations(simple, 2):
        pats.append(('OBS', ('CAND', (a, b)))); pats.append(('OBS', ('COR', (a, b))))
    for a, b, c in itertools.permutations(simple[:4], 3):
        pats.append(('OBS', ('CAND', (a, ('CPAREN', ('COR', (b, c))))))); pats.append(('OBS', ('COR', (a, ('CAND', (b, c))))))
        pats.append(('OBS', ('COR', (('CAND', (a, b)), ('CAND', (a, c))))))
    neg = [l for l in L if l[3] and l[1] is PA and l[4] in (('num', 1), ('set', (('num', 1), ('num', 2))))][:4]
    for a, b in itertools.product(neg, simple[:2]): pats.append(('OBS', ('CAND', (a, b))))
    obs = [('OBS', x) for x in simple[:3]]
    for a, b in itertools.product(obs, repeat=2):
        for tag in ('OAND', 'OOR', 'FBY'): pats.append((tag, (a, b)))
    for a, b, c in itertools.permutations(obs, 3):
        pats.append(('FBY', (('PAREN', ('OOR', (a, b))), c))); pats.append(('OOR', (a, ('OAND', (b, c))))); pats.append(('OAND', (a, ('PAREN', ('OOR', (b, c))))))
        pats.append(('OOR', (a, ('FBY', (a, b))))); pats.append(('OOR', (('OAND', (a, b)), ('OAND', (a, c))))); pats.append(('FBY', (a, ('PAREN', ('OOR', (b, c))))))
        pats.append(('OAND', (('PAREN', ('FBY', (a, b))), c)))
    for a, b in itertools.permutations(obs, 2):
        pats.append(('OOR', (('OAND', (a, a)), ('OAND', (a, b)))))        # repeated operand inside an absorbing AND
        pats.append(('OAND', (a, a, b))); pats.append(('OOR', (a, ('OAND', (a, b))))); pats.append(('OOR', (a, a)))
    for a in obs:
        for q in (('WITHIN', 5.0), ('REPEATS', 2), ('STARTSTOP', T0, T1)): pats.append(('QUAL', a, q))
        pats.append(('QUAL', ('PAREN', ('OOR', (a, ('OAND', (a, obs[1]))))), ('WITHIN', 5.0)))
        pats.append(('QUAL', ('QUAL', a, ('REPEATS', 2)), ('WITHIN', 5.0)))
        pats.append(('OOR', (('QUAL', a, ('WITHIN', 5.0)), ('OAND', (('QUAL', a, ('WITHIN', 5.0)), obs[1])))))
    seen = set(); out = []
    for t in pats:
        if t not in seen: seen.add(t); out.append(t)
    return out


def tree_key(t): return norm_cmp(strip_parens(t))


# ------------------------------------------------------------------ building the same tree through the public model classes
def build_model(t):
    import stix2.patterns as P
    k = t[0]
    if k == 'CMP':
        _, path, op, neg, rhs = t
        lhs = model_path(path)
        const = const_of(rhs)
        cls = {'=': P.EqualityComparisonExpression, '!=': P.EqualityComparisonExpression, '<': P.LessThanComparisonExpression, '<=': P.LessThanEqualComparisonExpression,
               '>': P.GreaterThanComparisonExpression, '>=': P.GreaterThanEqualComparisonExpression, 'IN': P.InComparisonExpression, 'LIKE': P.LikeComparisonExpression,
               'MATCHES': P.MatchesComparisonExpression, 'ISSUBSET': P.IsSubsetComparisonExpression, 'ISSUPERSET': P.IsSupersetComparisonExpression}[op]
        negated = (not neg) if op == '!=' else neg
        return cls(lhs, const, negated)
    # grouping is expressed with the model's parenthetical node exactly where the grammar needs parentheses (same rule as the printer)
    PREC = {'FBY': 0, 'OOR': 1, 'OAND': 2}
    def grp(x, need): return P.ParentheticalExpression(build_model(x)) if need else build_model(x)
    if k == 'CAND': return P.AndBooleanExpression([grp(x, x[0] == 'COR') for x in t[1]])
    if k in PREC:
        cls = {'OAND': P.AndObservationExpression, 'OOR': P.OrObservationExpression, 'FBY': P.FollowedByObservationExpression}[k]
        return cls([grp(x, x[0] in PREC and PREC[x[0]] <= PREC[k]) for x in t[1]])
    if k == 'COR': return P.OrBooleanExpression([build_model(x) for x in t[1]])
    if k in ('CPAREN', 'PAREN'): return P.ParentheticalExpression(build_model(t[1]))
    if k == 'OBS': return P.ObservationExpression(build_model(t[1]))
    if k == 'OAND': return P.AndObservationExpression([build_model(x) for x in t[1]])
    if k == 'OOR': return P.OrObservationExpression([build_model(x) for x in t[1]])
    if k == 'FBY': return P.FollowedByObservationExpression([build_model(x) for x in t[1]])
    if k == 'QUAL':
        q = t[2]
        if q[0] == 'WITHIN': qual = P.WithinQualifier(int(q[1]))
        elif q[0] == 'REPEATS': qual = P.RepeatQualifier(q[1])
        else: qual = P.StartStopQualifier(P.TimestampConstant(q[1][2:-1]), P.TimestampConstant(q[2][2:-1]))
        return P.QualifiedObservationExpression(grp(t[1], t[1][0] in PREC), qual)
    raise ValueError(k)


def const_of(l):
    import stix2.patterns as P
    k, v = l
    if k == 'num': return P.IntegerConstant(v) if isinstance(v, int) else P.FloatConstant(v)
    if k == 'str': return P.StringConstant(v)
    if k == 'bool': return P.BooleanConstant(v)
    if k == 'ts': return P.TimestampConstant(v)
    if k == 'hex': return P.HexConstant(v)
    if k == 'bin': return P.BinaryConstant(v)
    if k == 'set': return P.ListConstant([const_of(x) for x in v])
    raise ValueError(k)


def model_path(path):
    """ObjectPath through the public classes: key steps, list-index steps"""
    import stix2.patterns as P
    comps = []
    steps = list(path[1]); i = 0
    while i < len(steps):
        kind, v = steps[i]
        if i + 1 < len(steps) and steps[i + 1][0] == 'idx':
            comps.append(P.ListObjectPathComponent(v, int(steps[i + 1][1]) if steps[i + 1][1].isdigit() else steps[i + 1][1])); i += 2
        elif v.endswith('_ref') and i + 1 < len(steps):
            comps.append(P.ReferenceObjectPathComponent(v)); i += 1
        else:
            comps.append(P.BasicObjectPathComponent(v, False)); i += 1
    return P.ObjectPath(path[0], comps)
