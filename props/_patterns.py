"""Shared pattern domain for C09 / C10: generator of pattern trees (own syntax), model-class builder."""
import itertools
from spec.pattern_sem import show, read, norm_cmp, strip_parens

PA = ('a', (('key', 'b'),)); PC = ('a', (('key', 'c'),)); PX = ('file', (('key', 'extensions'), ('key', 'ntfs-ext'), ('key', 'sid'))); PI = ('file', (('key', 'sections'), ('idx', '0'), ('key', 'name')))
PR = ('email-message', (('key', 'from_ref'), ('key', 'value'))); PS = ('file', (('key', 'hashes'), ('key', 'SHA-256')))
T0, T1 = "t'2020-01-01T00:00:00Z'", "t'2020-01-01T00:00:05Z'"


def leaves(full=True):
    out = []
    for path in (PA, PC):
        for op in ('=', '!=', '<', '<=', '>', '>=', 'IN', 'LIKE', 'MATCHES', 'ISSUBSET', 'ISSUPERSET'):
            for neg in (False, True):
                if op == 'IN': rhs = [('set', (('num', 1), ('num', 2))), ('set', (('str', 'x'), ('str', 'y')))]
                elif op in ('LIKE', 'MATCHES'): rhs = [('str', 'x')]
                elif op in ('ISSUBSET', 'ISSUPERSET'): rhs = [('str', '10.0.0.0/8')]
                elif op in ('<', '<=', '>', '>='): rhs = [('num', 1)]
                else: rhs = [('num', 1), ('num', 2), ('str', 'x'), ('num', 1.5), ('bool', True), ('ts', '2020-01-01T00:00:00Z'), ('hex', 'ab'), ('bin', 'YWJj')]
                for r in rhs:
                    if path is PC and not full and r[0] not in ('num',): continue
                    out.append(('CMP', path, op, neg, r))
    # other path shapes and constants needing escapes
    for path in (PX, PI, PR, PS):
        out.append(('CMP', path, '=', False, ('str', 'v')))
    for s in ("it's", 'back\\slash', 'quote"dq', "\\'", 'a b', '\\\\srv\\share', "dir\\'name", 'end\\\\', "''", ' '):
        out.append(('CMP', PA, '=', False, ('str', s)))
    out.append(('CMP', PA, '=', False, ('num', 9007199254740993))); out.append(('CMP', PA, '=', False, ('num', 9007199254740992)))
    out.append(('CMP', PA, '=', False, ('num', 1.0)))
    # value classes of the numeric constants: sign, magnitude, many fraction digits, values Python prints with an exponent
    for v in (0, -1, 2**63, -2**63, 3.14159265, 0.1234567, -12.00000025, 0.30000001, 0.00001, 123456789012345680.0, -0.5, 100.0):
        out.append(('CMP', PA, '=', False, ('num', v)))
    out.append(('CMP', PA, 'IN', False, ('set', (('num', 0.1234567), ('num', -1)))))
    # index steps: negative, non-zero, wildcard, in the middle and at the end of a path, next to quoted names
    for steps in ((('key', 'b'), ('idx', '-1')), (('key', 'b'), ('idx', '1')), (('key', 'b'), ('idx', '*')), (('key', 'b'), ('idx', '0')), (('key', 'b'), ('idx', '-1'), ('key', 'c')),
                  (('key', 'b'), ('idx', '*'), ('key', 'c-d')), (('key', 'x-y'), ('idx', '2')), (('key', 'x-y'), ('idx', '*')), (('key', 'b'), ('key', 'x-y'), ('idx', '*'), ('key', 'c')), (('key', 'b'), ('key', 'x-y'), ('idx', '-1')), (('key', 'b'), ('key', 'c'), ('idx', '10'), ('key', 'd')), (('key', 'b_ref'), ('key', 'c'), ('idx', '-2'))):
        out.append(('CMP', ('a', steps), '=', False, ('num', 1)))
    return out


def patterns(tier='quick'):
    L = leaves()
    pats = [('OBS', l) for l in L]
    simple = [l for l in L if not l[3] and l[2] in ('=', '<') and l[4][0] == 'num' and l[4][1] in (1, 2)][:6]
    for a, b in itertools.permutations(simple, 2):
        pats.append(('OBS', ('CAND', (a, b)))); pats.append(('OBS', ('COR', (a, b))))
    for a, b, c in itertools.permutations(simple[:4], 3):
        pats.append(('OBS', ('CAND', (a, ('CPAREN', ('COR', (b, c))))))); pats.append(('OBS', ('COR', (a, ('CAND', (b, c))))))
        pats.append(('OBS', ('COR', (('CAND', (a, b)), ('CAND', (a, c))))))
    neg = [l for l in L if l[3] and l[1] is PA and l[4] in (('num', 1), ('set', (('num', 1), ('num', 2))))][:4]
    for a, b in itertools.product(neg, simple[:2]): pats.append(('OBS', ('CAND', (a, b))))
    obs = [('OBS', x) for x in simple[:3]]
    for a, b in itertools.product(obs, repeat=2):
        for tag in ('OAND', 'OOR', 'FBY'): pats.append((tag, (a, b)))
    for a, b, c in itertools.permutations(obs, 3):
        pats.append(('FBY', (('PAREN', ('OOR', (a, b))), c))); pats.append(('OOR', (a, ('OAND', (b, c))))); pats.append(('OAND', (a, ('PAREN', ('OOR', (b, c))))))
        pats.append(('OOR', (a, ('FBY', (a, b))))); pats.append(('OOR', (('OAND', (a, b)), ('OAND', (a, c))))); pats.append(('FBY', (a, ('PAREN', ('OOR', (b, c))))))
        pats.append(('OAND', (('PAREN', ('FBY', (a, b))), c)))
    for a, b in itertools.permutations(obs, 2):
        pats.append(('OOR', (('OAND', (a, a)), ('OAND', (a, b)))))        # repeated operand inside an absorbing AND
        pats.append(('OAND', (a, a, b))); pats.append(('OOR', (a, ('OAND', (a, b))))); pats.append(('OOR', (a, a)))
    # absorption candidates across operator kinds: an alternative X OR an alternative over a superset of X's operands joined by the same or by the OTHER operator
    # (AND is order-free, FOLLOWEDBY is not: only some of these collapse), in every operand order of the smaller one
    if len(obs) >= 3:
        for op1, op2 in itertools.product(('OAND', 'FBY'), repeat=2):
            for x, y in itertools.permutations(obs[:2], 2):
                for big in ((obs[0], obs[1], obs[2]), (obs[2], obs[0], obs[1]), (obs[1], obs[2], obs[0])):
                    pats.append(('OOR', (('PAREN', (op1, (x, y))), ('PAREN', (op2, big)))))
    for a in obs:
        for q in (('WITHIN', 5.0), ('REPEATS', 2), ('STARTSTOP', T0, T1)): pats.append(('QUAL', a, q))
        pats.append(('QUAL', ('PAREN', ('OOR', (a, ('OAND', (a, obs[1]))))), ('WITHIN', 5.0)))
        pats.append(('QUAL', ('QUAL', a, ('REPEATS', 2)), ('WITHIN', 5.0)))
        pats.append(('OOR', (('QUAL', a, ('WITHIN', 5.0)), ('OAND', (('QUAL', a, ('WITHIN', 5.0)), obs[1])))))
    # groups inside groups: a parenthetical whose content starts and ends with a nested group (or ends with a set literal), where the outer parentheses matter
    l = simple[:5] if len(simple) >= 5 else (simple * 5)[:5]
    inl = ('CMP', PA, 'IN', False, ('set', (('num', 1), ('num', 2))))
    pats.append(('OBS', ('CAND', (('CPAREN', ('COR', (('CPAREN', ('CAND', (l[0], l[1]))), ('CPAREN', ('CAND', (l[2], l[3])))))), l[4]))))
    pats.append(('OBS', ('CAND', (l[4], ('CPAREN', ('COR', (('CPAREN', ('CAND', (l[0], l[1]))), inl)))))))
    pats.append(('OBS', ('CAND', (('CPAREN', ('COR', (('CPAREN', ('COR', (l[0], l[1]))), l[2]))), l[3]))))
    pats.append(('QUAL', ('PAREN', ('OAND', (('PAREN', ('OOR', (obs[0], obs[1]))), ('PAREN', ('OOR', (obs[1], obs[2])))))), ('WITHIN', 5.0)))
    pats.append(('QUAL', ('PAREN', ('OOR', (('PAREN', ('FBY', (obs[0], obs[1]))), ('PAREN', ('FBY', (obs[1], obs[2])))))), ('REPEATS', 2)))
    pats.append(('OOR', (('PAREN', ('FBY', (obs[0], obs[1]))), ('PAREN', ('FBY', (obs[2], obs[0]))))))
    pats.append(('FBY', (('PAREN', ('OOR', (('PAREN', ('OAND', (obs[0], obs[1]))), ('PAREN', ('OAND', (obs[1], obs[2])))))), obs[0])))
    pats.append(('OAND', (('PAREN', ('OOR', (('PAREN', ('FBY', (obs[0], obs[1]))), obs[2]))), ('PAREN', ('OOR', (obs[1], ('PAREN', ('FBY', (obs[2], obs[0])))))))))
    pats.append(('OBS', ('CPAREN', ('CPAREN', l[0]))))
    seen = set(); out = []
    for t in pats:
        if t not in seen: seen.add(t); out.append(t)
    return out


def tree_key(t): return norm_cmp(strip_parens(t))


# ------------------------------------------------------------------ single-leaf substitution family (C09 soundness around every rewrite context)
def _p(*steps): return ('a', tuple(steps))
PATHS2 = [PA, PC, _p(('key', 'b'), ('idx', '0')), _p(('key', 'b'), ('idx', '1')), _p(('key', 'b'), ('idx', '0'), ('key', 'c')), _p(('key', 'b'), ('idx', '0'), ('key', 'd')),
          _p(('key', 'b'), ('idx', '1'), ('key', 'c')), _p(('key', 'b'), ('key', 'c')), _p(('key', 'b'), ('key', 'd'))]
TESTS2 = [('=', False, ('num', 1)), ('=', False, ('num', 2)), ('=', True, ('num', 1)), ('!=', False, ('num', 2)), ('<', False, ('num', 2)), ('IN', False, ('set', (('num', 1), ('num', 2)))),
          ('IN', True, ('set', (('num', 1), ('num', 2)))), ('>=', True, ('num', 2)),
          # every constant kind, incl. kinds whose text coincides ('ab' as string / hex, 1 as integer / float / string)
          ('=', False, ('str', 'ab')), ('=', False, ('hex', 'ab')), ('=', False, ('bin', 'YWI=')), ('=', False, ('str', '1')), ('=', False, ('num', 1.0)), ('=', False, ('bool', True)),
          ('=', False, ('bool', False)), ('=', False, ('ts', '2020-01-01T00:00:00Z')), ('=', False, ('ts', '2020-01-01T00:00:00.000Z')), ('=', False, ('str', '2020-01-01T00:00:00Z')),
          ('IN', False, ('set', (('str', 'ab'), ('str', '1'))))]


def constants_of(t):
    if not isinstance(t, tuple): return set()
    if t and t[0] == 'CMP': return set(t[4][1]) if t[4][0] == 'set' else {t[4]}
    out = set()
    for x in t:
        if isinstance(x, tuple): out |= constants_of(x)
    return out


def leaf_pool(): return [('CMP', path, op, neg, rhs) for path in PATHS2 for op, neg, rhs in TESTS2]


def contexts():
    """one-hole contexts (name, leaf -> pattern tree): every place a rewrite of the equivalence normaliser can touch a leaf"""
    x1 = ('CMP', PC, '=', False, ('num', 2)); x2 = ('CMP', PC, '=', False, ('num', 1)); x3 = ('CMP', PA, '=', False, ('num', 2)); x4 = ('CMP', PC, '=', True, ('num', 1))
    return [('leaf', lambda l: ('OBS', l)), ('AND', lambda l: ('OBS', ('CAND', (l, x1)))), ('OR', lambda l: ('OBS', ('COR', (l, x1)))),
            ('AND over OR (outside)', lambda l: ('OBS', ('CAND', (l, ('CPAREN', ('COR', (x1, x2))))))), ('AND over OR (inside)', lambda l: ('OBS', ('CAND', (x3, ('CPAREN', ('COR', (l, x2))))))),
            ('AND over OR (negated sibling)', lambda l: ('OBS', ('CAND', (x4, ('CPAREN', ('COR', (l, x3))))))),
            ('OR of ANDs', lambda l: ('OBS', ('COR', (('CAND', (l, x1)), ('CAND', (x3, x2)))))), ('absorbable OR', lambda l: ('OBS', ('COR', (l, ('CAND', (l, x1)))))),
            ('observation AND', lambda l: ('OAND', (('OBS', l), ('OBS', x1)))), ('observation OR', lambda l: ('OOR', (('OBS', l), ('OBS', x1)))),
            ('FOLLOWEDBY', lambda l: ('FBY', (('OBS', l), ('OBS', x1)))), ('observation AND over OR', lambda l: ('OAND', (('OBS', l), ('PAREN', ('OOR', (('OBS', x1), ('OBS', x2))))))),
            ('REPEATS', lambda l: ('QUAL', ('OBS', l), ('REPEATS', 2))), ('WITHIN', lambda l: ('QUAL', ('PAREN', ('OAND', (('OBS', l), ('OBS', x1)))), ('WITHIN', 5.0)))]


def paths_of(t):
    if not isinstance(t, tuple): return set()
    if t and t[0] == 'CMP': return {t[1]}
    out = set()
    for x in t:
        if isinstance(x, tuple): out |= paths_of(x)
    return out


# ------------------------------------------------------------------ building the same tree through the public model classes
def build_model(t):
    import stix2.patterns as P
    k = t[0]
    if k == 'CMP':
        _, path, op, neg, rhs = t
        lhs = model_path(path)
        const = const_of(rhs)
        cls = {'=': P.EqualityComparisonExpression, '!=': P.EqualityComparisonExpression, '<': P.LessThanComparisonExpression, '<=': P.LessThanEqualComparisonExpression,
               '>': P.GreaterThanComparisonExpression, '>=': P.GreaterThanEqualComparisonExpression, 'IN': P.InComparisonExpression, 'LIKE': P.LikeComparisonExpression,
               'MATCHES': P.MatchesComparisonExpression, 'ISSUBSET': P.IsSubsetComparisonExpression, 'ISSUPERSET': P.IsSupersetComparisonExpression}[op]
        negated = (not neg) if op == '!=' else neg
        return cls(lhs, const, negated)
    # grouping is expressed with the model's parenthetical node exactly where the grammar needs parentheses (same rule as the printer)
    PREC = {'FBY': 0, 'OOR': 1, 'OAND': 2}
    def grp(x, need): return P.ParentheticalExpression(build_model(x)) if need else build_model(x)
    if k == 'CAND': return P.AndBooleanExpression([grp(x, x[0] == 'COR') for x in t[1]])
    if k in PREC:
        cls = {'OAND': P.AndObservationExpression, 'OOR': P.OrObservationExpression, 'FBY': P.FollowedByObservationExpression}[k]
        return cls([grp(x, x[0] in PREC and PREC[x[0]] <= PREC[k]) for x in t[1]])
    if k == 'COR': return P.OrBooleanExpression([build_model(x) for x in t[1]])
    if k in ('CPAREN', 'PAREN'): return P.ParentheticalExpression(build_model(t[1]))
    if k == 'OBS': return P.ObservationExpression(build_model(t[1]))
    if k == 'OAND': return P.AndObservationExpression([build_model(x) for x in t[1]])
    if k == 'OOR': return P.OrObservationExpression([build_model(x) for x in t[1]])
    if k == 'FBY': return P.FollowedByObservationExpression([build_model(x) for x in t[1]])
    if k == 'QUAL':
        q = t[2]
        if q[0] == 'WITHIN': qual = P.WithinQualifier(int(q[1]))
        elif q[0] == 'REPEATS': qual = P.RepeatQualifier(q[1])
        else: qual = P.StartStopQualifier(P.TimestampConstant(q[1][2:-1]), P.TimestampConstant(q[2][2:-1]))
        return P.QualifiedObservationExpression(grp(t[1], t[1][0] in PREC), qual)
    raise ValueError(k)


def const_of(l):
    import stix2.patterns as P
    k, v = l
    if k == 'num': return P.IntegerConstant(v) if isinstance(v, int) else P.FloatConstant(v)
    if k == 'str': return P.StringConstant(v)
    if k == 'bool': return P.BooleanConstant(v)
    if k == 'ts': return P.TimestampConstant(v)
    if k == 'hex': return P.HexConstant(v)
    if k == 'bin': return P.BinaryConstant(v)
    if k == 'set': return P.ListConstant([const_of(x) for x in v])
    raise ValueError(k)


def model_path(path):
    """ObjectPath through the public classes: key steps, list-index steps"""
    import stix2.patterns as P
    comps = []
    steps = list(path[1]); i = 0
    while i < len(steps):
        kind, v = steps[i]
        if i + 1 < len(steps) and steps[i + 1][0] == 'idx':
            comps.append(P.ListObjectPathComponent(v, int(steps[i + 1][1]) if steps[i + 1][1].isdigit() else steps[i + 1][1])); i += 2
        elif v.endswith('_ref') and i + 1 < len(steps):
            comps.append(P.ReferenceObjectPathComponent(v)); i += 1
        else:
            comps.append(P.BasicObjectPathComponent(v, False)); i += 1
    return P.ObjectPath(path[0], comps)
