"""C14 -- a requested spec version is honoured everywhere and never alters strictness (call-site obligations over the tree)."""
import json, os, shutil, tempfile
import z3
from vf.pyvc.lib import REG
from vf.callsites import check_tree
from vf.check import SRC_ROOT
from vf import objgen as G
from contracts import parsing as K

LEVEL = 'other'
NONRFC = '00000000-0000-0000-0000-000000000000'      # not an RFC 4122 variant: only the relaxed (interoperability) mode admits it
UUID1 = '11111111-1111-1111-8111-111111111111'        # RFC 4122 but version 1: refused by STIX 2.0 rules, fine in 2.1


def sample_dicts():
    ident20 = {'type': 'identity', 'id': 'identity--' + G.UUID, 'created': G.T1, 'modified': G.T1, 'name': 'n', 'identity_class': 'individual'}
    ident21 = dict(ident20, spec_version='2.1')
    mal20 = {'type': 'malware', 'id': 'malware--' + G.UUID, 'created': G.T1, 'modified': G.T1, 'name': 'm', 'labels': ['trojan']}
    rel21 = {'type': 'relationship', 'spec_version': '2.1', 'id': 'relationship--' + G.UUID, 'created': G.T1, 'modified': G.T1, 'relationship_type': 'uses',
             'source_ref': 'identity--' + G.UUID, 'target_ref': 'identity--' + G.UUID2}
    return {'identity(2.0 shape)': ident20, 'identity(2.1 shape)': ident21, 'malware(2.0 shape)': mal20, 'relationship(2.1 shape)': rel21}


def pkg_of(o):
    m = type(o).__module__
    return '2.0' if '.v20.' in m + '.' else '2.1' if '.v21.' in m + '.' else m


def entry_points(tmp):
    """name -> fn(dict, version) -> object as stored/returned"""
    import stix2
    from stix2 import MemoryStore, MemorySource, MemorySink, FileSystemStore, FileSystemSource, FileSystemSink

    def fs(d, v, how):
        root = tempfile.mkdtemp(dir=tmp)
        sink = FileSystemSink(root, allow_custom=False)
        if how.startswith('sink.add'):
            # what the sink stores is the object as it was validated: a later read that names no version recognises the version it was stored under
            kw = {}
            if 'pretty=False' in how: kw['pretty'] = False
            data = json.dumps(d) if 'text' in how else [d] if 'list' in how else d
            sink.add(data, version=v, **kw) if kw else sink.add(data, version=v)
            f = [os.path.join(dp, x) for dp, _, fn in os.walk(root) for x in fn][0]
            stored = json.load(open(f))
            if stored.get('type') == 'bundle': stored = stored['objects'][0]
            first = stix2.parse(dict(stored), version=v)
            if v is not None:
                again = stix2.parse(dict(stored))
                if pkg_of(again) != pkg_of(first): raise AssertionError(f'stored under version {v} as {pkg_of(first)}, but the stored file is recognised as {pkg_of(again)} when no version is named')
            return first
        # write the raw JSON ourselves, then read through the source with a version
        tdir = os.path.join(root, d['type'], d['id']); os.makedirs(tdir)
        json.dump(d, open(os.path.join(tdir, '20170101000000000000.json'), 'w'))
        src = FileSystemSource(root, allow_custom=False)
        if how == 'source.get': return src.get(d['id'], version=v)
        if how == 'source.all_versions': return src.all_versions(d['id'], version=v)[0]
        if how == 'source.query': return src.query([stix2.Filter('id', '=', d['id'])], version=v)[0]
        if how == 'legacy-flat.get':
            shutil.rmtree(tdir); json.dump(d, open(os.path.join(root, d['type'], d['id'] + '.json'), 'w'))
            os.makedirs(os.path.join(root, d['type'], d['type'] + '--' + G.UUID2))
            return src.get(d['id'], version=v)

    def mem_file(d, v):
        p = os.path.join(tmp, 'bundle.json'); json.dump({'type': 'bundle', 'id': 'bundle--' + G.UUID, 'objects': [d]} if 'spec_version' in d else
                                                       {'type': 'bundle', 'id': 'bundle--' + G.UUID, 'spec_version': '2.0', 'objects': [d]}, open(p, 'w'))
        ms = MemoryStore(allow_custom=False); ms.load_from_file(p, version=v); return ms.get(d['id'])

    def store_add(d, v):
        ms = MemoryStore(allow_custom=False); ms.add(d, version=v); return ms.get(d['id'])

    def twice(d, v):
        ms = MemoryStore(allow_custom=False); ms.add(d); ms.add(dict(d), version=v)
        return [o for o in ms.source.all_versions(d['id'])][-1]
    return {
        'parse': lambda d, v: stix2.parse(d, version=v),
        'parse(text)': lambda d, v: stix2.parse(json.dumps(d), version=v),
        # an already built object as input is converted back to its dictionary and parsed under the requested version like any other input
        'parse(object)': lambda d, v: stix2.parse(stix2.parse(dict(d)), version=v),
        'Environment.parse(object)': lambda d, v: stix2.Environment(store=MemoryStore()).parse(stix2.parse(dict(d)), version=v),
        'Environment.parse(dict)': lambda d, v: stix2.Environment(store=MemoryStore()).parse(dict(d), version=v),
        'MemoryStore.add': store_add,
        'MemoryStore.add(list)': lambda d, v: (lambda ms: (ms.add([d], version=v), ms.get(d['id']))[1])(MemoryStore(allow_custom=False)),
        'MemoryStore(stix_data)': lambda d, v: MemoryStore(stix_data=[d], allow_custom=False, version=v).get(d['id']),
        'MemorySource(stix_data)': lambda d, v: MemorySource(stix_data=[d], allow_custom=False, version=v).get(d['id']),
        'MemorySink.add': lambda d, v: (lambda s: (s.add(d, version=v), list(s._data.values())[0].latest_version)[1])(MemorySink(allow_custom=False)),
        'MemoryStore.load_from_file': mem_file,
        'MemoryStore.add after unversioned add': twice,
        'FileSystemSink.add': lambda d, v: fs(d, v, 'sink.add'),
        'FileSystemSink.add(text)': lambda d, v: fs(d, v, 'sink.add text'), 'FileSystemSink.add(text, pretty=False)': lambda d, v: fs(d, v, 'sink.add text pretty=False'),
        'FileSystemSink.add(dict, pretty=False)': lambda d, v: fs(d, v, 'sink.add pretty=False'), 'FileSystemSink.add(list)': lambda d, v: fs(d, v, 'sink.add list'),
        'FileSystemSource.get': lambda d, v: fs(d, v, 'source.get'),
        'FileSystemSource.all_versions': lambda d, v: fs(d, v, 'source.all_versions'),
        'FileSystemSource.query': lambda d, v: fs(d, v, 'source.query'),
        'FileSystemSource.get(legacy flat layout)': lambda d, v: fs(d, v, 'legacy-flat.get'),
    }


def run(chk):
    import stix2
    chk.registry = REG
    chk.explanation = ('P: (1) every call site in the library of a function with a version / allow_custom / interoperability parameter (found by AST scan each '
                       'run) is bound to the callee\'s real signature and checked against the callee\'s parameter sorts, and a caller that received a version '
                       'must hand it on (finite-domain obligations, z3); (2) parse, dict_to_stix2, detect_spec_version, memory._add and '
                       'filesystem._check_object_from_file are symbolically executed: dict_to_stix2 looks the class up under the requested version and under the '
                       'detected one only when none was requested, passes allow_custom/interoperability on unchanged; the store functions parse '
                       'everything under their own version with interoperability False; detection returns V for every shape the library emits for V.  '
                       'B: 21 entry points (dictionary, list, text and already-built object inputs; sink options) x 4 dictionaries x {None, 2.0, 2.1}: class returned equals that of a direct parse; identifiers only the relaxed mode admits '
                       'are refused wherever a version is named.')
    chk.assume('sort of an actual argument is derived from the caller\'s own role-named parameters, literals and self.<role>; other expressions are recorded as not decided',
               'taxii sources/sinks are covered by the call-site obligations only (no TAXII client in the sandbox)')
    obs, notes, sites = check_tree(SRC_ROOT)
    for ob in obs:
        chk.lemmas.append(ob)
        if ob.result != 'discharged':
            chk.violation(f'callsite#{ob.clause.split(":")[0]}:{ob.clause.split(" ", 1)[1][:90]}', f'call-site obligation fails: {ob.clause}',
                          {'obligation': ob.clause, 'verifier_output': ob.record()}, no_input=True)
    chk.extra['call_sites_scanned'] = sites; chk.extra['call_site_notes'] = notes[:40]
    chk.say(f'  [P] call sites: {sites} sites, {len(obs)} obligations, {sum(o.result == "discharged" for o in obs)} discharged, {len(notes)} not decided')
    if not obs: chk.faults.append('call-site scan produced zero obligations')
    for c in (K.parse_contract(), K.dict_to_stix2_contract(), K._fix_detect(K.detect_contract()), K.memory_add_contract(), K.check_object_from_file_contract()):
        chk.prove(c); chk.canary(c)
    # frame: what a named version admits depends on the call's arguments only -- the validators and the dispatch read no module-level mutable state and are not memoised
    from vf.callsites import purity_obligations
    for ob in purity_obligations(SRC_ROOT, ['stix2/properties.py::_check_uuid', 'stix2/properties.py::_validate_id', 'stix2/properties.py::_validate_type', 'stix2/utils.py::detect_spec_version',
                                            'stix2/parsing.py::parse', 'stix2/parsing.py::dict_to_stix2', 'stix2/parsing.py::parse_observable']):
        chk.lemmas.append(ob)
        if ob.result != 'discharged': chk.violation('frame#' + ob.clause.split(':')[0] + '::' + ob.clause.split('::')[1].split(':')[0], 'frame obligation fails: ' + ob.clause, {'obligation': ob.clause}, no_input=True)
    tmp = tempfile.mkdtemp(prefix='vf-c14-')
    try:
        # ---- history: a version named in one call has no effect on another call (identifier rules are version-specific: UUIDv1 is a 2.1 identifier only)
        U1 = '6ba7b810-9dad-11d1-80b4-00c04fd430c8'
        def id_hist(first, second):
            outs = []
            for v in (first, second):
                d = {'type': 'identity', 'id': 'identity--' + U1, 'created': '2020-01-01T00:00:00.000Z', 'modified': '2020-01-01T00:00:00.000Z', 'name': 'n', 'identity_class': 'individual',
                     'created_by_ref': 'identity--' + U1[:-1] + '9'}
                if v == '2.1': d['spec_version'] = '2.1'
                for rn, fn in (('parse', lambda: stix2.parse(dict(d), version=v)), ('MemoryStore.add', lambda: stix2.MemoryStore().add(dict(d), version=v)),
                               ('FileSystemSink.add', lambda: stix2.FileSystemSink(tempfile.mkdtemp(dir=tmp)).add(dict(d), version=v))):
                    try: fn(); outs.append((v, rn, 'accepted'))
                    except (stix2.exceptions.STIXError, ValueError) as ex: outs.append((v, rn, 'refused'))
            return outs
        n_h = 0
        for first, second in (('2.0', '2.1'), ('2.1', '2.0'), ('2.1', '2.0')):
            n_h += 1
            for v, rn, out in id_hist(first, second):
                want = 'accepted' if v == '2.1' else 'refused'
                if out != want:
                    chk.violation(f'history#identifier rules of the named version:{rn}', f'a UUIDv1 identifier under version={v} through {rn} is {out} (expected {want}) in a process that handled the same identifier under version {first if v == second else second} before', {'route': rn, 'version': v})
        chk.bounded_runs.append({'name': 'history: version-specific identifier rules across calls', 'bound': '3 orders x 2 versions x parse / MemoryStore.add / FileSystemSink.add', 'evaluations': n_h * 6, 'distinct_classes': None, 'witnesses': 0, 'wall_s': 0, 'samples': []})
        # ---- a bundle that names no version: each member is read as the version it declares itself, through every way a bundle reaches a memory store
        m20 = {'type': 'indicator', 'id': 'indicator--' + G.UUID, 'created': '2020-01-01T00:00:00.000Z', 'modified': '2020-01-01T00:00:00.000Z', 'labels': ['malicious-activity'], 'pattern': "[file:name = 'a']", 'valid_from': '2020-01-01T00:00:00Z'}
        m21 = {'type': 'identity', 'spec_version': '2.1', 'id': 'identity--' + G.UUID2, 'created': '2020-01-01T00:00:00.000Z', 'modified': '2020-01-01T00:00:00.000Z', 'name': 'n'}
        for order in ((m20, m21), (m21, m20)):
            b = {'type': 'bundle', 'id': 'bundle--' + G.UUID, 'objects': [dict(x) for x in order]}
            bpath = os.path.join(tmp, 'mixed.json'); open(bpath, 'w').write(json.dumps(b))
            for rn, mk in (('MemoryStore(bundle)', lambda: stix2.MemoryStore(json.loads(json.dumps(b)))), ('MemorySource(bundle)', lambda: stix2.MemorySource(json.loads(json.dumps(b)))),
                           ('MemoryStore().add(bundle)', lambda: (lambda ms: (ms.add(json.loads(json.dumps(b))), ms)[1])(stix2.MemoryStore())),
                           ('MemoryStore().load_from_file', lambda: (lambda ms: (ms.load_from_file(bpath), ms)[1])(stix2.MemoryStore()))):
                try: st = mk()
                except Exception as ex:
                    chk.violation(f'mixed bundle#{rn}', f'{rn}: a bundle holding a 2.0 and a 2.1 object (no version named) is refused: {type(ex).__name__}: {str(ex)[:120]}', {'route': rn}); continue
                for d, w in ((m20, '2.0'), (m21, '2.1')):
                    r = st.get(d['id'])
                    if r is None or isinstance(r, dict) or pkg_of(r) != w:
                        chk.violation(f'mixed bundle#{rn}', f'{rn}: the {w} member of a bundle naming no version comes back as {None if r is None else type(r).__module__ + "." + type(r).__name__}', {'route': rn}); break
        # ---- content whose own spec_version contradicts the version the caller names: refused, never returned under the named class with the other label
        for named, own in (('2.1', '2.0'), ('2.0', '2.1'), ('2.1', '2.2'), ('2.1', '')):
            d = {'type': 'identity', 'spec_version': own, 'id': 'identity--' + G.UUID, 'created': '2020-01-01T00:00:00.000Z', 'modified': '2020-01-01T00:00:00.000Z', 'name': 'n', 'identity_class': 'individual'}
            sco = {'type': 'file', 'spec_version': own, 'id': 'file--' + G.UUID, 'name': 'f'}
            for rn, fn in (('parse(dict)', lambda: stix2.parse(dict(d), version=named)), ('parse(text)', lambda: stix2.parse(json.dumps(d), version=named)),
                           ('parse_observable', lambda: stix2.parse_observable(dict(sco), version=named)),
                           ('MemoryStore(allow_custom=False).add', lambda: (lambda ms: (ms.add(dict(d), version=named), ms.get(d['id']))[1])(stix2.MemoryStore(allow_custom=False))),
                           ('MemoryStore(stix_data, allow_custom=False, version)', lambda: stix2.MemoryStore([dict(d)], allow_custom=False, version=named).get(d['id'])),
                           ('FileSystemSink(allow_custom=False).add', lambda: stix2.FileSystemSink(tempfile.mkdtemp(dir=tmp), allow_custom=False).add(dict(d), version=named))):
                try: r = fn()
                except (stix2.exceptions.STIXError, ValueError, TypeError): continue
                lab = r.get('spec_version') if hasattr(r, 'get') else None
                if r is not None and not isinstance(r, dict) and lab is not None and lab != named:
                    chk.violation(f'conflict#content labelled for another version than the one named:{rn}', f'{rn}(version={named!r}) of content labelled spec_version={own!r} returns {type(r).__module__}.{type(r).__name__} labelled {lab!r}', {'route': rn, 'named': named, 'own': own}); break
        # ---- a version named when a store is BUILT concerns the data it is built from; what is added later without a version is recognised from the content
        for built_with, later in (('2.0', m21), ('2.1', m20)):
            init = dict(m20) if built_with == '2.0' else dict(m21)
            lpath = os.path.join(tmp, 'later.json'); open(lpath, 'w').write(json.dumps({'type': 'bundle', 'id': 'bundle--' + G.UUID2, 'objects': [later]}))
            for rn, mk in (('MemoryStore(data, version=V) then add()', lambda: (lambda ms: (ms.add(dict(later)), ms)[1])(stix2.MemoryStore([dict(init)], version=built_with))),
                           ('MemoryStore(data, version=V) then load_from_file()', lambda: (lambda ms: (ms.load_from_file(lpath), ms)[1])(stix2.MemoryStore([dict(init)], version=built_with)))):
                want = '2.1' if later is m21 else '2.0'
                try: st = mk(); r = st.get(later['id'])
                except Exception as ex:
                    chk.violation(f'built-with#a version named at construction is not named in later calls:{rn}', f'{rn} (V={built_with}): adding {want} content later without a version is refused: {type(ex).__name__}: {str(ex)[:100]}', {'route': rn}); continue
                if r is None or isinstance(r, dict) or pkg_of(r) != want:
                    chk.violation(f'built-with#a version named at construction is not named in later calls:{rn}', f'{rn} (V={built_with}): {want} content added later without a version comes back as {None if r is None else type(r).__module__ + "." + type(r).__name__}', {'route': rn})
        eps = entry_points(tmp); dicts = sample_dicts()

        def cases():
            for en in eps:
                for dn, d in dicts.items():
                    for v in (None, '2.0', '2.1'):
                        yield (en, dn, v)

        def check(case):
            en, dn, v = case; d = dicts[dn]
            def outcome(fn):
                try: return ('ok', pkg_of(fn()))
                except AssertionError as ex: return ('stored-differently', str(ex))
                except stix2.exceptions.STIXError as ex: return ('err', type(ex).__name__)
                except (ValueError, TypeError) as ex: return ('err', type(ex).__name__)
            want = outcome(lambda: stix2.parse(dict(d), version=v))
            got = outcome(lambda: eps[en](dict(d), v))
            if got[0] != want[0] or (got[0] == 'ok' and got[1] != want[1]):
                return (f'entry#{en}', f'{en}({dn}, version={v}): {got}, direct parse gives {want}', {'entry': en, 'dict': d, 'version': v})
            # strictness: an id only the relaxed mode admits must be refused whenever a version is named
            for bad_uuid, vers in ((NONRFC, (None, '2.0', '2.1')), (UUID1, ('2.0',))):
                if v not in vers: continue
                if UUID1 == bad_uuid and 'spec_version' in d and en.startswith('MemoryStore.load'): continue
                bad = dict(d, id=d['type'] + '--' + bad_uuid)
                w = outcome(lambda: stix2.parse(dict(bad), version=v)); g = outcome(lambda: eps[en](dict(bad), v))
                if w[0] == 'err' and g[0] != 'err':
                    return (f'strict#{en}', f'{en}({dn} with id {bad["id"]}, version={v}) accepted; a direct parse refuses it ({w[1]})', {'entry': en, 'dict': bad, 'version': v})
        chk.bounded('entry points x dictionaries x versions', list(cases()), check, classify=lambda c: c, bound=f'{len(eps)} entry points x 4 dictionaries x 3 version settings, plus 2 invalid-identifier variants each')
        # library output of version V is recognised as V without naming a version
        def lib_out():
            for ver in ('2.0', '2.1'):
                for label, cat, cls, kw in G.variants(ver, alts=(0,), with_all=False):
                    if cat in ('objects',) or (cat == 'observables' and ver == '2.1'):
                        if label.endswith(':minimal'): yield (ver, label, cat, cls, kw)

        def check_out(case):
            ver, label, cat, cls, kw = case
            try: o = G.build(label, cat, cls, kw, ver)
            except Exception: return None
            back = stix2.parse(o.serialize())
            if type(back) is not type(o):
                return ('detect#library output recognised', f'{label}: serialized {type(o).__module__}.{type(o).__name__} parsed back as {type(back).__module__}.{type(back).__name__}', {})
            det = stix2.utils.detect_spec_version(json.loads(o.serialize()))
            if det != ver: return ('detect#library output recognised', f'{label}: detect_spec_version says {det}', {})
        # a named version decides the class for every type and through parse_observable too: the result belongs to the named version or the input is refused
        def named_cases():
            for ver in ('2.0', '2.1'):
                for label, cat, cls, kw in G.variants(ver, alts=(0,), with_all=False):
                    if cat in ('objects', 'observables') and label.endswith(':minimal'):
                        for w in ('2.0', '2.1'): yield (ver, label, cat, cls, kw, w)

        def check_named(case):
            ver, label, cat, cls, kw, w = case
            try: o = G.build(label, cat, cls, kw, ver)
            except Exception: return None
            d = json.loads(o.serialize())
            routes = []
            if cat == 'objects' or ver == '2.1': routes += [('parse(dict, allow_custom)', lambda: stix2.parse(dict(d), version=w, allow_custom=True)), ('parse(text, allow_custom)', lambda: stix2.parse(o.serialize(), version=w, allow_custom=True)),
                                                           ('MemoryStore(allow_custom).add', lambda: (lambda ms: (ms.add(dict(d), version=w), ms.get(d['id']))[1])(stix2.MemoryStore(allow_custom=True))),
                                                           ('parse(dict)', lambda: stix2.parse(dict(d), version=w)), ('parse(object)', lambda: stix2.parse(o, version=w)), ('parse(text)', lambda: stix2.parse(o.serialize(), version=w))]
            if cat == 'observables':
                from props import _objects as O2
                routes += [('parse_observable(dict)', lambda: stix2.parse_observable(dict(d), _valid_refs=O2.refs_for(d), version=w)),
                           ('parse_observable(text)', lambda: stix2.parse_observable(o.serialize(), _valid_refs=O2.refs_for(d), version=w))]
            for rn, fn in routes:
                try: r = fn()
                except (stix2.exceptions.STIXError, ValueError, TypeError): continue
                if isinstance(r, dict) or r is None: continue
                if pkg_of(r) != w: return (f'named#{rn}', f'{label}: {rn} with version={w} returned {type(r).__module__}.{type(r).__name__}', {'label': label, 'version': w})
        chk.bounded('a named version decides the class, for every type and entry form', list(named_cases()), check_named, classify=lambda c: (c[1], c[5]),
                    bound='every registered object and observable type of both versions (minimal form) x both named versions x parse of dictionary / object / text (strict and with customisation allowed), a permissive MemoryStore, parse_observable')
        chk.bounded('library output of version V is recognised as V', list(lib_out()), check_out, classify=lambda c: c[1], bound='every registered object type of both versions and every 2.1 observable, minimal form')
    finally:
        shutil.rmtree(tmp, ignore_errors=True)
